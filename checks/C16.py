"""C16 - calibration and parameter handles stay valid, distinct and correctly indexed.

1. Coq: CalTab/CalTabModel.v (model as coded), CalTab/TableSpec.v (two finite maps),
   CalTab/CalTabProofs.v and Properties_C16.v are rebuilt; every theorem is one obligation.
2. Tie: the extracted model (ocaml/drv_caltab) and the real library (harness/caltab_harness.c,
   ASan + UBSan + LSan) run the same operation scripts; one canonical line per op (return value,
   errno class, number of error callbacks, digest through the public getters plus the integer
   bookkeeping of the parameter collection) is compared.  Scripts are generated *against the model*
   (the generator reads the model's state after every op, so that it can aim at live / deleted /
   reused handles and slot-growth boundaries).
3. Directed probes for the candidate defects D8, D11, D37, D42, D43, D44 (each a short script).
4. On a disagreement the script is shrunk (delta debugging on op lines) and reported with the
   first differing line as signature; minimised scripts are kept in corpus/C16/ and always run first.
"""
import glob
import json
import os
import re
from fractions import Fraction
import subprocess

import vplib

CORPUS = os.path.join(vplib.VERIF, "corpus", "C16")
VALID_TYPES = [0, 1, 2, 3, 4, 5, 6, 8]
SCOPE_LEAK_FUNCS = ("_vnacal_calibration_alloc", "_vnacal_add_calibration_common", "_vnacal_alloc_parameter",
                    "vnacal_make_vector_parameter", "vnacal_make_correlated_parameter",
                    "_vnacal_new_get_parameter", "hash_expand", "vnacal_make_scalar_parameter",
                    "vnacal_make_unknown_parameter", "_vnacal_setup_parameter_collection", "vnacal_add_calibration")


# ---------------------------------------------------------------------------------------------
# model session
class Model(object):
    """Interactive session with the extracted model: one line in, one line out."""

    def __init__(self, drv, asis=False):
        self.p = subprocess.Popen([drv] + (["asis"] if asis else []), stdin=subprocess.PIPE, stdout=subprocess.PIPE,
                                  universal_newlines=True, bufsize=1)
        self.script = []
        self.lines = []

    def do(self, line):
        self.p.stdin.write(line + "\n")
        self.p.stdin.flush()
        out = self.p.stdout.readline().rstrip("\n")
        if not out:
            raise vplib.BuildError("model driver died on: " + line)
        self.script.append(line)
        self.lines.append(out)
        return out

    def close(self):
        try:
            self.p.stdin.close()
            self.p.wait(timeout=10)
        except Exception:
            self.p.kill()


def run_model(drv, script, asis=False):
    rc, out, err = vplib.sh([drv] + (["asis"] if asis else []), input="\n".join(script) + "\n", timeout=120)
    if rc != 0:
        raise vplib.BuildError("model driver failed: " + err[-400:])
    return out.strip("\n").split("\n")


def parse_line(line):
    """-> dict(op, r, e, cb, end, cals{ci: fields}, gprop, W, params{h: fields})"""
    d = {"raw": line}
    head, _, dig = line.partition(" | ")
    m = re.match(r"(\S+) r=(\S+) e=(\S+) cb=(\d+)", head)
    if not m:
        return d
    d.update(op=m.group(1), r=m.group(2), e=m.group(3), cb=int(m.group(4)))
    d["freed"] = dig.strip() == "freed"
    m = re.match(r"E=(\d+) C=\[(.*?)\] G=(\S+) W=(\S+) P=\[(.*)\]", dig)
    if m:
        d["end"] = int(m.group(1))
        d["cals"] = {}
        for c in m.group(2).split(";"):
            if c:
                f = c.split(":")
                d["cals"][int(f[0])] = f[1:]
        d["gprop"] = m.group(3)
        d["W"] = [int(x) for x in m.group(4).split(":")]
        d["params"] = {}
        for p in m.group(5).split(";"):
            if p:
                f = p.split(":")
                d["params"][int(f[0])] = {"type": int(f[1]), "deleted": f[2] == "1", "hold": int(f[3]),
                                          "other": int(f[4]), "val": f[5]}
    return d


# ---------------------------------------------------------------------------------------------
# comparison
TOKSPLIT = re.compile(r"([ ,:;=\[\]|])")


INTERP_COMPARED = [0]


def tokens_equal(mt, ct):
    if mt == ct:
        return True
    if mt == "?":
        return True
    if mt.startswith("q"):
        # value of a vector parameter between its knots: the exact rational of the rfi model (C10) in 1/64 units
        # against the double the library returned; 1e-9 relative to max(64, |value|) (orders up to 5 on small
        # integer data; a query next to a pole of the interpolant, |value| > 1e6 units, is not compared)
        try:
            mv = Fraction(mt[1:])
            cv = float(ct[1:] if ct.startswith("~") else ct)
        except (ValueError, ZeroDivisionError):
            return False
        if abs(mv) > 1e6:
            return True
        INTERP_COMPARED[0] += 1
        return abs(float(mv) - cv) <= 1e-9 * max(64.0, abs(float(mv)))
    if mt.startswith("~"):
        try:
            mv = float(mt[1:])
            cv = float(ct[1:] if ct.startswith("~") else ct)
        except ValueError:
            return False
        return abs(mv - cv) <= 1e-4 * max(1.0, abs(mv))
    return False


def lines_equal(ml, cl):
    a, b = TOKSPLIT.split(ml), TOKSPLIT.split(cl)
    return len(a) == len(b) and all(tokens_equal(x, y) for x, y in zip(a, b))


def first_diff(mlines, clines):
    for i in range(max(len(mlines), len(clines))):
        ml = mlines[i] if i < len(mlines) else "<missing>"
        cl = clines[i] if i < len(clines) else "<missing>"
        if not lines_equal(ml, cl):
            return i, ml, cl
    return None


def diff_class(ml, cl):
    """Which part of the line differs (signature of a disagreement)."""
    if cl == "<missing>":
        return "c-output-missing"
    pm, pc = parse_line(ml), parse_line(cl)
    for k in ("op", "r", "e", "cb"):
        if not tokens_equal(str(pm.get(k)), str(pc.get(k))):
            if k == "r" and pm.get("op") == "addcal" and pc.get("r") == "0" and pm.get("r") not in ("0", "-1"):
                return "returns 0 for a slot index > 0"
            return "field " + k
    if pm.get("W") != pc.get("W"):
        return "bookkeeping (allocation/count/first_free)"
    if pm.get("cals") != pc.get("cals") or pm.get("end") != pc.get("end"):
        return "calibration table"
    return "parameter table"



def transcript_properties(script, clines):
    """Property C16 evaluated directly on the library's transcript (no model involved): used to
    decide which side is wrong when model and library disagree, and as a model-independent check.
    Returns a list of (op index, text)."""
    bad = []
    prev = None
    vns = {}            # id -> {"nf", "f0", "held": set of handles it accepted, "unk": {handle: measured values}}
    solved = {}         # unknown handle -> {frequency: value (x64) the last successful solve must have stored}
    for i, cl in enumerate(clines):
        d = parse_line(cl)
        if "op" not in d or d.get("freed") or "cals" not in d:
            prev = d if "cals" in d else prev
            continue
        op, args = d["op"], script[i].split()[1:] if i < len(script) else []
        cals, params = d["cals"], d["params"]
        # --- per-vnacal_new_t bookkeeping taken from the script and the library's own answers
        if op == "nalloc" and d["r"] == "ok":
            vns[int(args[0])] = {"nf": int(args[3]), "f0": None, "held": set([0]), "unk": {}}
        if op == "nfree" and d["r"] == "0":
            vns.pop(int(args[0]), None)
        if op == "setf" and d["r"] == "0" and int(args[0]) in vns:
            vns[int(args[0])]["f0"] = int(args[1])
        if op == "addstd" and int(args[0]) in vns:
            v = vns[int(args[0])]
            nh = int(args[1])
            hs = [int(x) for x in args[2:2 + nh]]
            if hs and all(h in v["held"] for h in hs) and d["r"] != "0":
                bad.append((i, "vnacal_new_t %s already holds parameter(s) %s but refuses a standard that uses them "
                               "(a handle must keep working in the vnacal_new_t that holds it)" % (args[0], hs)))
            if d["r"] == "0":
                v["held"] |= set(hs)
                nums = [int(x) for x in args[3 + nh:]]
                vals = [(nums[2 * k], nums[2 * k + 1]) for k in range(len(nums) // 2)]
                for k, h in enumerate(hs):
                    if h in params and params[h]["type"] in (3, 4) and h not in v["unk"] and nh in (1, 2):
                        v["unk"][h] = vals[k * v["nf"]:(k + 1) * v["nf"]]
        if op == "solve" and d["r"] == "0" and int(args[0]) in vns:
            v = vns[int(args[0])]
            if v["f0"] is not None:
                for h, vals in v["unk"].items():
                    if len(vals) == v["nf"]:
                        solved[h] = {v["f0"] + k: vals[k] for k in range(v["nf"])}
        if op in ("mks", "mkv", "mku", "mkc") and d["e"] == "-":
            solved.pop(int(d["r"]), None)           # a re-used handle value is a new parameter
        if op == "getv" and int(args[0]) in solved and int(args[0]) in params and not params[int(args[0])]["deleted"]:
            h, f = int(args[0]), int(args[1])
            if f in solved[h]:
                want = solved[h][f]
                ok = False
                m = re.match(r"(~?)(-?[\d.eE+-]+),(~?)(-?[\d.eE+-]+)$", d["r"])
                if m:
                    ok = abs(float(m.group(2)) - want[0]) <= 1e-3 and abs(float(m.group(4)) - want[1]) <= 1e-3
                if not ok:
                    bad.append((i, "unknown parameter %d was solved to %s/64 at frequency %d but vnacal_get_parameter_value "
                                   "returns %s" % (h, want, f, d["r"])))
        live = sorted(cals)
        if d["end"] != (max(live) + 1 if live else 0):
            bad.append((i, "get_calibration_end = %d but the highest live index is %s" % (d["end"], live[-1:] or "none")))
        names = [cals[c][0] for c in live]
        if len(set(names)) != len(names):
            bad.append((i, "two live calibrations share a name: %s" % names))
        for h, g in ((0, "0,0"), (1, "64,0"), (2, "-64,0")):
            if h not in params or params[h]["deleted"] or params[h]["val"] != g:
                bad.append((i, "predefined handle %d is not permanent" % h))
        if op == "addcal" and d["e"] == "-" and d["r"] not in ("nosuch",):
            ci = int(d["r"])
            if ci not in cals or cals[ci][0] != args[1]:
                bad.append((i, "add_calibration returned %d but get_name(%d) is %s" % (ci, ci, cals.get(ci, ["nothing"])[0])))
            if prev is not None and "cals" in prev:
                for c, f in prev["cals"].items():
                    if f[0] != args[1] and c != ci and cals.get(c) != f:
                        bad.append((i, "add_calibration changed another calibration (index %d)" % c))
        if op == "find" and d["e"] == "-":
            ci = int(d["r"])
            if ci not in cals or cals[ci][0] != args[0]:
                bad.append((i, "find_calibration(%s) returned %d whose name is %s" % (args[0], ci, cals.get(ci, ["nothing"])[0])))
        if op == "delcal" and d["e"] == "-" and prev is not None and "cals" in prev:
            ci = int(args[0])
            want = {c: f for c, f in prev["cals"].items() if c != ci}
            if cals != want:
                bad.append((i, "delete_calibration(%d) did not empty exactly that slot" % ci))
        if op in ("mks", "mkv", "mku", "mkc") and d["e"] == "-" and prev is not None and "params" in prev:
            h = int(d["r"])
            if h >= 3 and h in prev["params"]:
                bad.append((i, "%s returned handle %d which was already in the table" % (op, h)))
            if h not in params or params[h]["deleted"]:
                bad.append((i, "%s returned handle %d which is not live" % (op, h)))
        if op == "mks" and d["e"] == "-":
            h = int(d["r"])
            if h in params and params[h]["val"] != "%s,%s" % (args[0], args[1]):
                bad.append((i, "scalar parameter %d returns %s, supplied %s,%s" % (h, params[h]["val"], args[0], args[1])))
        prev = d
    return bad


def leak_blocks(err):
    """LeakSanitizer report -> list of top libvna allocation frames (one per leak record)."""
    out = []
    for blk in re.split(r"\n(?=(?:Direct|Indirect) leak of)", err):
        if not re.match(r"(?:Direct|Indirect) leak of", blk):
            continue
        func = None
        for m in re.finditer(r"#\d+ 0x[0-9a-f]+ in (\S+) (\S+)", blk):
            if "/src/vna" in m.group(2):
                func = m.group(1)
                break
        out.append(func)
    return out


def private_copy(ctx, exe):
    """The drivers in ocaml/_build are rebuilt in place by concurrent checks: run a private copy."""
    import shutil
    import time
    dst = os.path.join(ctx.tmp, os.path.basename(exe) + "_copy")
    for attempt in range(40):
        try:
            shutil.copy(exe, dst)
            os.chmod(dst, 0o755)
            rc, out, err = vplib.sh([dst], input="end\n", timeout=20)
            if rc == 0 and out.startswith("end r=0"):
                return dst
        except (OSError, IOError):
            pass
        time.sleep(1.0)
    raise vplib.BuildError("cannot obtain a working copy of " + exe)


class Runner(object):
    def __init__(self, ctx):
        self.ctx = ctx
        self.drv = private_copy(ctx, ctx.ocaml_driver("drv_caltab"))
        self.exe = ctx.build_harness("caltab_harness", san=True)
        self.exe_w = None
        self.ignored_leaks = set()

    def run_c(self, script, wrap=False):
        exe = self.exe
        if wrap:
            if self.exe_w is None:
                self.exe_w = self.ctx.build_harness("caltab_harness", san=True, wrap=True, defines=["CALTAB_WRAP"])
            exe = self.exe_w
        rc, out, err = vplib.sh([exe], input="\n".join(script) + "\n", timeout=120, env=self.ctx.run_env(leak=True))
        return rc, out.strip("\n").split("\n") if out.strip() else [], err

    def check(self, script, mlines=None, wrap=False):
        """Run one script on both sides.  Returns None when they agree, else a dict describing the
        failure: kind 'fault' (sanitizer / abort / leak in scope) or 'disagreement'."""
        if mlines is None:
            mlines = run_model(self.drv, script)
        rc, clines, err = self.run_c(script, wrap)
        d = first_diff(mlines, clines)
        sig = vplib.asan_signature(err)
        if "Assertion" in err and "failed" in err:
            m = re.search(r": (\w+): Assertion `(.*?)' failed", err)
            sig = {"kind": "fault", "error": "assertion", "function": m.group(1) if m else None}
        if sig is not None and sig.get("error") == "leak":
            funcs = leak_blocks(err)
            inscope = sorted(set(f for f in funcs if f in SCOPE_LEAK_FUNCS))
            self.ignored_leaks |= set(f for f in funcs if f not in SCOPE_LEAK_FUNCS)
            if inscope:
                sig = {"kind": "fault", "error": "leak", "function": inscope[0]}
            else:
                sig = None
        if sig is not None:
            return {"kind": "fault", "sig": sig, "stderr": err[-2500:], "diff": d, "rc": rc}
        props = transcript_properties(script, clines)
        if props:
            i, text = props[0]
            op = script[i].split()[0] if i < len(script) else "?"
            return {"kind": "property", "sig": {"kind": "property", "op": op, "class": re.sub(r"-?\d+", "N", text)[:80]},
                    "index": i, "model": mlines[i] if i < len(mlines) else "", "c": clines[i], "text": text,
                    "rc": rc, "stderr": err[-1500:], "model_agrees_with_library": d is None}
        if d is not None:
            i, ml, cl = d
            op = parse_line(ml).get("op") or (script[i].split()[0] if i < len(script) else "?")
            return {"kind": "disagreement", "sig": {"kind": "disagreement", "op": op, "class": diff_class(ml, cl)},
                    "index": i, "model": ml, "c": cl, "rc": rc, "stderr": err[-1500:]}
        if rc != 0:
            return {"kind": "fault", "sig": {"kind": "fault", "error": "exit %d" % rc, "function": None},
                    "stderr": err[-2500:], "diff": None, "rc": rc}
        return None

    def shrink(self, script, sig, wrap=False, budget=120):
        """Delta debugging on op lines, keeping the failure signature."""
        def fails(s):
            if not s or s[-1] != "free":
                s = s + ["free"]
            r = self.check(s, wrap=wrap)
            return r is not None and r["sig"] == sig
        cur = list(script)
        n = 2
        runs = 0
        while len(cur) >= 2 and runs < budget:
            chunk = max(1, len(cur) // n)
            reduced = False
            for i in range(0, len(cur), chunk):
                cand = cur[:i] + cur[i + chunk:]
                runs += 1
                if cand and fails(cand):
                    cur = cand
                    n = max(n - 1, 2)
                    reduced = True
                    break
                if runs >= budget:
                    break
            if not reduced:
                if chunk == 1:
                    break
                n = min(n * 2, len(cur))
        if not cur or cur[-1] != "free":
            cur = cur + ["free"]
        return cur


# ---------------------------------------------------------------------------------------------
# generator (drives the model)
def vstr(v):
    return "%d %d" % (v[0], v[1])


class Gen(object):
    """Generates one script while stepping the model; keeps just enough shadow information to pick
    interesting arguments (values of the parameters it made, contents of each vnacal_new_t)."""

    def __init__(self, rng, model, depth, profile, feats):
        self.rng, self.m, self.depth, self.profile, self.feats = rng, model, depth, profile, feats
        self.pinfo = {}          # handle -> ('s', val) | ('v', fs, gs) | ('u', other) | ('c', other)
        self.pinfo[0], self.pinfo[1], self.pinfo[2] = ("s", (0, 0)), ("s", (64, 0)), ("s", (-64, 0))
        self.vn = {}             # id -> dict
        self.names = list(range(12 if profile != "growth" else 24))
        self.state = parse_line(model.do("end"))
        self.counts = {}

    # -- helpers
    def do(self, line):
        out = self.m.do(line)
        self.state = parse_line(out)
        live = self.state.get("params", {})
        for h in list(self.pinfo):
            if h not in live:
                del self.pinfo[h]
        op = line.split()[0]
        self.counts[op] = self.counts.get(op, 0) + 1
        return self.state

    def made(self, st, info):
        if st["e"] == "-" and st["r"].lstrip("-").isdigit() and int(st["r"]) >= 3:
            self.pinfo[int(st["r"])] = info

    def params(self):
        return self.state.get("params", {})

    def visible(self):
        return [h for h, p in self.params().items() if not p["deleted"]]

    def some_handle(self):
        """A handle aimed at the case splits: live, deleted-but-held, free slot, out of range, negative."""
        r = self.rng.random()
        vis = self.visible()
        if r < 0.72 and vis:
            hs = [h for h in vis if h >= 3] or vis
            return self.rng.choice(hs if self.rng.random() < 0.8 else vis)
        if r < 0.80:
            held = [h for h, p in self.params().items() if p["deleted"]]
            if held:
                return self.rng.choice(held)
        alloc = self.state.get("W", [8])[0]
        return self.rng.choice([alloc - 1, alloc, alloc + 1, -1, -2, 0, 1, 2, self.rng.randrange(0, alloc + 1)])

    def value_at(self, h, f, depth=0):
        """exact value (pair) of a known parameter at an integer knot, or None"""
        info = self.pinfo.get(h)
        if info is None or depth > 8:
            return None
        if info[0] == "s":
            return info[1]
        if info[0] == "v":
            return info[2][info[1].index(f)] if f in info[1] else None
        return None

    def rand_val(self):
        if self.rng.random() < 0.12:
            return self.rng.choice([(0, 0), (64, 0), (-64, 0)])
        return (self.rng.randrange(-60, 61), self.rng.randrange(-60, 61))

    # -- op generators
    def op_mks(self):
        v = self.rand_val()
        st = self.do("mks " + vstr(v))
        self.made(st, ("s", v))

    def op_mkv(self):
        r = self.rng.random()
        if r < 0.5:
            fs = list(range(1, 1 + self.rng.choice([3, 4, 4, 5])))
        elif r < 0.58:
            fs = [1]
        elif r < 0.64:
            fs = [self.rng.choice([2, 3]) + i for i in range(self.rng.choice([1, 2, 3]))]      # starts above 1
        elif r < 0.78:
            # knots with gaps: integer queries between them go through _vnacal_rfi (orders 2..5, n up to 9)
            fs = sorted(self.rng.sample(range(0, 16), self.rng.choice([2, 3, 4, 5, 6, 9])))
        elif r < 0.9:
            fs = [0, 1, 2, 3, 4, 5, 6][: self.rng.choice([2, 7])]
        else:
            fs = self.rng.choice([[], [3, 2], [1, 1], [-1, 2], [2, 4, 3]])                     # refused
        gs = [(self.rng.randrange(-60, 61), self.rng.randrange(-60, 61)) for _ in fs]
        st = self.do("mkv %d %s %s" % (len(fs), " ".join(map(str, fs)), " ".join(vstr(g) for g in gs)))
        self.made(st, ("v", fs, gs))

    def op_mku(self):
        h = self.some_handle()
        st = self.do("mku %d" % h)
        self.made(st, ("u", h))

    def end_info(self, h, depth=0):
        info = self.pinfo.get(h)
        while info is not None and info[0] in ("u", "c") and depth < 20:
            info = self.pinfo.get(info[1])
            depth += 1
        return info

    def op_mkc(self):
        h = self.some_handle()
        n = 1
        r = self.rng.random()
        info = self.pinfo.get(h)
        if r < 0.25:
            e = self.end_info(h)
            direct = info is not None and info[0] == "v"
            if e is not None and e[0] == "v" and (direct or self.feats["d43"]):
                n = len(e[1])
            elif direct or self.feats["d43"]:
                n = self.rng.choice([2, 3])         # refused: the end is not a vector of that length
        elif r < 0.32:
            n = self.rng.choice([0, -1])
        grid = ""
        if self.rng.random() < 0.4:
            # the parameter's OWN sigma frequency grid: inside / equal to / longer than the range of the initial guess at
            # either end, overlapping one end, disjoint, negative, not ascending; with one sigma value the grid is ignored
            e = self.end_info(h)
            lo, hi = (e[1][0], e[1][-1]) if e is not None and e[0] == "v" and e[1] else (self.rng.randrange(0, 4), self.rng.randrange(4, 9))
            k = self.rng.random()
            if k < 0.18:
                g = [lo, hi] if lo < hi else [lo, lo + 1]
            elif k < 0.36:
                g = [lo + 1, hi - 1] if hi - lo >= 3 else [lo, lo + 1]
            elif k < 0.50:
                g = [max(0, lo - 2), hi + 3]
            elif k < 0.62:
                g = [max(0, lo - 1), max(lo, hi - 1)] if max(0, lo - 1) < max(lo, hi - 1) else [lo, hi + 1]
            elif k < 0.74:
                g = [lo + 1, hi + 2] if lo + 1 < hi + 2 else [lo, hi + 1]
            elif k < 0.82:
                g = [hi + 1, hi + 4]                                  # disjoint (refused when the end is a vector)
            elif k < 0.88:
                g = [-1, hi]                                          # negative: refused
            elif k < 0.94:
                g = [hi, hi] if self.rng.random() < 0.5 else [hi + 1, lo]    # not ascending: refused
            else:
                g = [self.rng.choice([-3, 0, 50])]                    # one sigma value: the grid is not looked at
            if len(g) >= 2 and g[0] < g[1] and self.rng.random() < 0.4:
                mid = [x for x in range(g[0] + 1, g[1])]
                g = [g[0]] + sorted(self.rng.sample(mid, min(len(mid), self.rng.randint(0, 2)))) + [g[1]]
            n = len(g)
            grid = " " + " ".join(map(str, g))
        st = self.do("mkc %d %d%s" % (h, n, grid))
        self.made(st, ("c", h))

    def op_delp(self):
        self.do("delp %d" % self.some_handle())

    def op_getv(self):
        gapped = [h for h in self.visible() if self.pinfo.get(h, ("?",))[0] == "v" and len(self.pinfo[h][1]) >= 2
                  and self.pinfo[h][1][-1] - self.pinfo[h][1][0] >= len(self.pinfo[h][1])]
        if gapped and self.rng.random() < 0.7:
            h = self.rng.choice(gapped)
            fs = self.pinfo[h][1]
            return self.do("getv %d %d" % (h, self.rng.randrange(max(0, fs[0] - 1), fs[-1] + 2)))
        self.do("getv %d %d" % (self.some_handle(), self.rng.choice([1, 2, 2, 3, 4, 5, 7, 0])))

    def free_id(self):
        ids = [i for i in range(8) if i not in self.vn]
        return self.rng.choice(ids) if ids else None

    def op_nalloc(self):
        i = self.free_id()
        r = self.rng.random()
        if i is None or r < 0.04:
            i = self.rng.choice(list(self.vn) or [0]) if r < 0.04 and self.vn else (i if i is not None else 0)
        dim = 1 if self.rng.random() < 0.7 else 2
        ty = self.rng.choice(VALID_TYPES if dim == 1 else [0, 1, 2, 3, 6, 8])
        if r > 0.95:
            ty, dim = self.rng.choice([(7, 1), (9, 1), (-1, 1), (0, 0), (1, -1)])
        # 0 frequencies are accepted by vnacal_new_alloc: no range tests, set_frequency_vector reads nothing, solve
        # always succeeds, the calibration has no fmin / fmax, solved unknowns stay without a value
        nf = self.rng.choice([1, 2, 2, 3]) if self.rng.random() >= 0.08 else 0
        st = self.do("nalloc %d %d %d %d" % (i, ty, dim, nf))
        if st["r"] == "ok":
            self.vn[i] = {"dim": dim, "ty": ty, "nf": nf, "fvalid": False, "f0": None, "std": [], "unk": {},
                          "taint": False, "cal": False, "through": False}

    def pick_vn(self):
        return self.rng.choice(list(self.vn)) if self.vn else None

    def op_setf(self):
        i = self.pick_vn()
        if i is None:
            return self.op_nalloc()
        f0 = 1 if self.rng.random() < 0.85 else self.rng.choice([0, 2, 3, -1])
        if self.vn[i]["nf"] == 0 and self.rng.random() < 0.5:
            f0 = self.rng.choice([-7, -1, 0, 40])       # never read: accepted
        st = self.do("setf %d %d" % (i, f0))
        if st["r"] == "0":
            v = self.vn[i]
            if v["fvalid"] and v["f0"] != f0 and v["std"]:
                v["taint"] = True           # measurements were generated for another grid
            v["fvalid"], v["f0"] = True, f0

    def usable_known(self, v):
        """visible scalar/vector handles whose values are known at every frequency of the grid"""
        f0 = v["f0"] if v["f0"] is not None else 1
        fs = [f0 + k for k in range(v["nf"])]
        out = []
        for h in self.visible():
            vals = [self.value_at(h, f) for f in fs]
            if all(x is not None for x in vals):
                info = self.pinfo[h]
                if info[0] == "v" and fs and not (info[1][0] <= fs[0] and info[1][-1] >= fs[-1]):
                    continue
                out.append((h, vals))
        return out

    def op_addstd(self):
        i = self.pick_vn()
        if i is None:
            return self.op_nalloc()
        v = self.vn[i]
        nf = v["nf"]
        if v["f0"] is None and self.rng.random() < 0.8:
            return self.op_setf()
        known = self.usable_known(v)
        r = self.rng.random()

        def distinct(col, vals):
            return all(all(a != b for a, b in zip(vals, o)) for o in col)
        if v["dim"] == 1:
            col = [s[1] for s in v["std"] if s[0] == "k"]
            if r < 0.70 and known:
                good = [(h, vals) for h, vals in known if distinct(col, vals)]
                h, vals = self.rng.choice(good if good and self.rng.random() < 0.9 else known)
                st = self.do("addstd %d 1 %d %d %s" % (i, h, nf, " ".join(vstr(x) for x in vals)))
                if st["r"] == "0":
                    v["std"].append(("k", vals))
                return
            # unknown / correlated / invalid handle
            h = self.some_handle()
            if h < 0 and not self.feats["d44"]:
                h = 99
            info = self.pinfo.get(h)
            vals = [(1, 1)] * nf
            if info is not None and info[0] == "u":
                g = [self.value_at(info[1], (v["f0"] or 1) + k) for k in range(nf)]
                if all(x is not None for x in g):
                    vals = [(x[0] + self.rng.choice([-2, 1, 2]), x[1] + self.rng.choice([-1, 1])) for x in g]
            elif h in self.pinfo:
                vv = [self.value_at(h, (v["f0"] or 1) + k) for k in range(nf)]
                if all(x is not None for x in vv):
                    vals = vv
            st = self.do("addstd %d 1 %d %d %s" % (i, h, nf, " ".join(vstr(x) for x in vals)))
            if st["r"] == "0":
                if info is not None and info[0] == "u" and vals != [(1, 1)] * nf and h not in v["unk"] \
                        and distinct([s[1] for s in v["std"]], vals):
                    v["unk"][h] = vals
                    v["std"].append(("u", vals))
                elif info is not None and info[0] in ("s", "v") and vals != [(1, 1)] * nf:
                    v["std"].append(("k", vals))
                else:
                    v["taint"] = True
            else:
                # a refused add may still have registered unknown/correlated parameters (D17 as coded)
                if info is None or info[0] in ("u", "c"):
                    v["taint"] = v["taint"] or (info is not None)
            return
        # dim 2
        # a standard ONE cell of which fails the frequency-range test while the other names a visible parameter (often one
        # this vnacal_new_t does not hold yet, possibly behind a correlated -> unknown chain): the refusal must leave the
        # parameter table untouched (c16_rejected_standard_unchanged: no reference taken for the other cell)
        if v["f0"] is not None and self.rng.random() < 0.12:
            lo, hi = v["f0"], v["f0"] + nf - 1
            bad = [h for h in self.visible() if self.pinfo.get(h, ("?",))[0] == "v" and self.pinfo[h][1]
                   and not (self.pinfo[h][1][0] <= lo and self.pinfo[h][1][-1] >= hi)]
            other = [h for h in self.visible() if h >= 3 and h not in bad]
            if bad and other:
                h1, h2 = self.rng.choice(other), self.rng.choice(bad)
                if self.rng.random() < 0.3:
                    h1, h2 = h2, h1
                self.do("addstd %d 2 %d %d %d %s" % (i, h1, h2, 2 * nf, " ".join(["3 5"] * (2 * nf))))
                v["taint"] = True
                return
        if r < 0.25:
            st = self.do("addstd %d 4 0 1 1 0 0" % i)
            if st["r"] == "0":
                v["through"] = True
            return
        if r < 0.9 and known:
            c1 = [s[1] for s in v["std"]]
            c2 = [s[2] for s in v["std"]]
            g1 = [(h, x) for h, x in known if distinct(c1, x)] or known
            g2 = [(h, x) for h, x in known if distinct(c2, x)] or known
            (h1, x1), (h2, x2) = self.rng.choice(g1), self.rng.choice(g2)
            st = self.do("addstd %d 2 %d %d %d %s" % (i, h1, h2, 2 * nf, " ".join(vstr(x) for x in x1 + x2)))
            if st["r"] == "0":
                v["std"].append(("k", x1, x2))
            return
        h1, h2 = self.some_handle(), self.some_handle()
        if not self.feats["d44"]:
            h1, h2 = (h1 if h1 >= 0 else 98), (h2 if h2 >= 0 else 97)
        st = self.do("addstd %d 2 %d %d %d %s" % (i, h1, h2, 2 * nf, " ".join(["3 5"] * (2 * nf))))
        v["taint"] = True

    def solvable(self, v):
        """1: surely solvable, 0: surely 'insufficient standards', None: do not ask"""
        if not v["fvalid"]:
            return -1                    # protocol error (frequency vector missing), oracle bit unused
        if v["nf"] == 0:
            return 1                     # nothing to solve: succeeds whatever the standards are
        if v["taint"]:
            return None
        if v["dim"] == 1:
            known = [s[1] for s in v["std"] if s[0] == "k"]
            sel = []
            for x in known:
                if all(all(a != b for a, b in zip(x, o)) for o in sel):
                    sel.append(x)
            if len(sel) >= 3 and len(sel) == len(known):
                return 1
            if len(v["std"]) < 3 and not v["unk"]:
                return 0
            return None
        sel1, sel2 = [], []
        for s in v["std"]:
            if all(all(a != b for a, b in zip(s[1], o)) for o in sel1) and \
               all(all(a != b for a, b in zip(s[2], o)) for o in sel2):
                sel1.append(s[1])
                sel2.append(s[2])
        if len(sel1) >= 3 and len(sel1) == len(v["std"]) and v["through"]:
            return 1
        if not v["std"] and not v["through"]:
            return 0
        return None

    def op_solve(self):
        cands = [(i, self.solvable(v)) for i, v in self.vn.items()]
        cands = [(i, s) for i, s in cands if s is not None]
        if not cands:
            return self.op_addstd()
        good = [c for c in cands if c[1] == 1]
        i, s = self.rng.choice(good if good and self.rng.random() < 0.8 else cands)
        st = self.do("solve %d %d" % (i, 1 if s == 1 else 0))
        if st["r"] == "0":
            self.vn[i]["cal"] = True

    def op_addcal(self):
        withcal = [i for i, v in self.vn.items() if v["cal"]]
        if withcal and self.rng.random() < 0.92:
            i = self.rng.choice(withcal)
        else:
            i = self.pick_vn()
            if i is None:
                return self.op_nalloc()
        live = [int(f[0][1:]) for f in self.state.get("cals", {}).values()]
        if live and self.rng.random() < (0.3 if self.profile != "growth" else 0.1):
            name = self.rng.choice(live)                      # replace an existing name
        else:
            name = self.rng.choice(self.names)
        st = self.do("addcal %d c%d" % (i, name))
        if st["e"] == "-":
            self.vn[i]["cal"] = False
            if self.vn[i]["dim"] == 1 and self.rng.random() < 0.7 and self.solvable(self.vn[i]) == 1:
                if self.do("solve %d 1" % i)["r"] == "0":       # keep a calibration ready for the next add
                    self.vn[i]["cal"] = True

    def some_ci(self):
        live = list(self.state.get("cals", {}))
        a = self.state.get("W", [0, 0, 0, 0])[3]
        if live and self.rng.random() < 0.7:
            return self.rng.choice(live)
        return self.rng.choice([-1, -2, 0, a - 1, a, a + 1, self.rng.randrange(0, a + 2)])

    def op_delcal(self):
        self.do("delcal %d" % self.some_ci())

    def op_find(self):
        self.do("find c%d" % self.rng.choice(self.names))

    def op_getcal(self):
        self.do("getcal %d" % self.some_ci())

    def op_end(self):
        self.do("end")

    def op_pset(self):
        self.do("pset %d %d" % (self.some_ci(), self.rng.randrange(1, 1000)))

    def op_pget(self):
        self.do("pget %d" % self.some_ci())

    def op_nfree(self):
        i = self.pick_vn()
        if i is None:
            return
        self.do("nfree %d" % i)
        del self.vn[i]

    PROFILES = {
        "mixed": dict(mks=8, mkv=5, mku=4, mkc=3, delp=9, getv=4, nalloc=4, setf=3, addstd=16, solve=7, addcal=8,
                      delcal=5, find=3, getcal=3, end=2, pset=2, pget=2, nfree=2),
        "params": dict(mks=14, mkv=8, mku=9, mkc=6, delp=18, getv=6, nalloc=3, setf=2, addstd=10, solve=2, addcal=1,
                       delcal=1, find=1, getcal=1, end=1, pset=0, pget=0, nfree=3),
        "cals": dict(mks=3, mkv=1, mku=0, mkc=0, delp=2, getv=1, nalloc=3, setf=3, addstd=12, solve=8, addcal=18,
                     delcal=10, find=5, getcal=5, end=5, pset=4, pget=4, nfree=1),
        "growth": dict(mks=2, mkv=0, mku=0, mkc=0, delp=0, getv=0, nalloc=2, setf=2, addstd=10, solve=6, addcal=25,
                       delcal=3, find=3, getcal=3, end=4, pset=1, pget=1, nfree=0),
        "held": dict(mks=8, mkv=6, mku=5, mkc=1, delp=16, getv=5, nalloc=5, setf=4, addstd=18, solve=8, addcal=5,
                     delcal=2, find=1, getcal=2, end=1, pset=0, pget=0, nfree=6),
    }

    # -- profile "bigset": one (or two) vnacal_new_t holding 10..40 parameters whose indices collide modulo 8, 16
    #    and 32 (the per-vnacal_new_t hash grows 8 -> 16 -> 32 -> 64 while they are added), then every held handle
    #    is deleted and used again in the same vnacal_new_t (deleted-while-held must keep working there)
    def generate_bigset(self):
        rng = self.rng
        nparams = rng.randrange(20, 44)
        used = set([(0, 0), (64, 0), (-64, 0)])
        for k in range(nparams):
            r = rng.random()
            if r < 0.8 or k < 4:
                while True:
                    v = (rng.randrange(-60, 61), rng.randrange(-60, 61))
                    if v not in used:
                        break
                used.add(v)
                self.made(self.do("mks " + vstr(v)), ("s", v))
            elif r < 0.9:
                fs = [1, 2, 3]
                gs = [(rng.randrange(-60, 61), rng.randrange(-60, 61)) for _ in fs]
                self.made(self.do("mkv 3 1 2 3 " + " ".join(vstr(g) for g in gs)), ("v", fs, gs))
            else:
                h = rng.choice([x for x in self.visible() if self.pinfo.get(x, ("?",))[0] == "s"])
                self.made(self.do("mku %d" % h), ("u", h))
            if rng.random() < 0.08 and len(self.visible()) > 6:
                self.do("delp %d" % rng.choice([x for x in self.visible() if x >= 3]))     # holes: later handles reuse them
        nvn = 1 if rng.random() < 0.7 else 2
        held = {}
        for i in range(nvn):
            dim = 1 if rng.random() < 0.75 else 2
            nf = rng.choice([1, 1, 2])
            ty = rng.choice(VALID_TYPES if dim == 1 else [0, 1, 2, 3, 6, 8])
            self.do("nalloc %d %d %d %d" % (i, ty, dim, nf))
            self.do("setf %d 1" % i)
            self.vn[i] = {"dim": dim, "ty": ty, "nf": nf, "fvalid": True, "f0": 1, "std": [], "unk": {}, "taint": False,
                          "cal": False, "through": False}
            held[i] = []
        for i in range(nvn):
            v = self.vn[i]
            cand = [h for h in self.visible() if h >= 3 or rng.random() < 0.5]
            rng.shuffle(cand)
            # colliding pairs first, so that both are in the table before it grows
            front = []
            for mod in rng.sample([8, 16, 16, 32, 32], 3):
                pairs = [(a, b) for a in cand for b in cand if a < b and (b - a) % mod == 0 and a not in front and b not in front]
                if pairs:
                    a, b = rng.choice(pairs)
                    front += [a, b] if rng.random() < 0.5 else [b, a]
            order = front + [h for h in cand if h not in front]
            order = order[: rng.randrange(10, 41)]
            if v["dim"] == 2 and len(order) % 2:
                order = order[:-1]
            step = v["dim"]
            for k in range(0, len(order), step):
                hs = order[k:k + step]
                vals = []
                for h in hs:
                    info = self.pinfo.get(h)
                    if info is not None and info[0] == "u":
                        g = [self.value_at(info[1], 1 + j) for j in range(v["nf"])]
                        vals += [(x[0] + 1, x[1] - 1) for x in g]
                        v["taint"] = True
                    else:
                        vals += [self.value_at(h, 1 + j) for j in range(v["nf"])]
                st = self.do("addstd %d %d %s %d %s" % (i, len(hs), " ".join(map(str, hs)), len(vals),
                                                        " ".join(vstr(x) for x in vals)))
                if st["r"] == "0":
                    held[i].append((hs, vals))
        # every held handle: delete it, then use it again in the vnacal_new_t that holds it
        for i in range(nvn):
            items = list(held[i])
            rng.shuffle(items)
            for hs, vals in items:
                for h in hs:
                    if h >= 3 and h in self.visible() and rng.random() < 0.9:
                        self.do("delp %d" % h)
                        if rng.random() < 0.2:
                            self.do("getv %d 1" % h)
                self.do("addstd %d %d %s %d %s" % (i, len(hs), " ".join(map(str, hs)), len(vals),
                                                   " ".join(vstr(x) for x in vals)))
                if rng.random() < 0.1:
                    self.made(self.do("mks " + vstr((rng.randrange(-60, 61), rng.randrange(-60, 61)))), None)
        for i in range(nvn):
            v = self.vn[i]
            if v["dim"] == 1 and not v["taint"] and len(held[i]) >= 3:
                self.do("solve %d 1" % i)
                self.do("addcal %d c%d" % (i, i))
            if rng.random() < 0.7:
                self.do("nfree %d" % i)
        self.do("free")

    # -- profile "shared": unknown parameters shared by several vnacal_new_t whose frequency grids have the same or
    #    different lengths and different start frequencies; solve in varying orders and read the solved values back at
    #    every grid ("values returned for solved unknown parameters are those solved")
    def generate_shared(self):
        rng = self.rng
        known = [(0, (0, 0)), (1, (64, 0)), (2, (-64, 0))]
        for _ in range(rng.randrange(1, 4)):
            while True:
                v = (rng.randrange(-50, 51), rng.randrange(-50, 51))
                if all(abs(v[0] - k[1][0]) + abs(v[1] - k[1][1]) > 8 for k in known):
                    break
            st = self.do("mks " + vstr(v))
            self.made(st, ("s", v))
            known.append((int(st["r"]), v))
        unknowns = []
        for _ in range(rng.randrange(1, 3)):
            gh, gv = rng.choice(known[3:] or known)
            st = self.do("mku %d" % gh)
            self.made(st, ("u", gh))
            unknowns.append((int(st["r"]), gv))
        nvn = rng.randrange(2, 5)
        grids = []
        nf0 = rng.choice([1, 2, 3])
        for i in range(nvn):
            nf = nf0 if i < 2 or rng.random() < 0.5 else rng.choice([1, 2, 3])
            while True:
                f0 = rng.randrange(1, 7)
                if (nf, f0) not in grids:
                    break
            grids.append((nf, f0))
        meas = {}
        for i, (nf, f0) in enumerate(grids):
            self.do("nalloc %d %d 1 %d" % (i, rng.choice(VALID_TYPES), nf))
            self.do("setf %d %d" % (i, f0))
            ks = rng.sample(known, 3)
            for h, val in ks:
                self.do("addstd %d 1 %d %d %s" % (i, h, nf, " ".join([vstr(val)] * nf)))
            for u, gv in unknowns:
                if rng.random() < 0.85:
                    while True:
                        vals = [(gv[0] + rng.choice([-3, -2, -1, 1, 2, 3]), gv[1] + rng.choice([-3, -2, -1, 1, 2, 3]))
                                for _ in range(nf)]
                        if all(x != k[1] for x in vals for k in ks) and all(vals != m for m in meas.values()):
                            break
                    meas[(i, u)] = vals
                    self.do("addstd %d 1 %d %d %s" % (i, u, nf, " ".join(vstr(x) for x in vals)))
        alive = list(range(nvn))
        for _ in range(rng.randrange(8, 20)):
            r = rng.random()
            if r < 0.45 and alive:
                i = rng.choice(alive)
                self.do("solve %d 1" % i)
                nf, f0 = grids[i]
                for u, _g in unknowns:
                    for f in sorted(set([f0, f0 + nf - 1, f0 + nf, max(f0 - 1, 0)] + [rng.randrange(0, 9)])):
                        self.do("getv %d %d" % (u, f))
            elif r < 0.75:
                u = rng.choice(unknowns)[0]
                self.do("getv %d %d" % (u, rng.randrange(0, 10)))
            elif r < 0.82 and alive:
                i = rng.choice(alive)
                self.do("addcal %d c%d" % (i, rng.randrange(0, 4)))
            elif r < 0.88:
                self.do("delp %d" % rng.choice(unknowns)[0])
            elif r < 0.93 and len(alive) > 1:
                i = alive.pop(rng.randrange(len(alive)))
                self.do("nfree %d" % i)
            else:
                self.do("end")
        self.do("free")

    def generate(self):
        if self.profile == "bigset":
            return self.generate_bigset()
        if self.profile == "shared":
            return self.generate_shared()
        w = self.PROFILES[self.profile]
        ops = [k for k in w if w[k] > 0]
        weights = [w[k] for k in ops]
        if self.profile in ("cals", "growth"):
            # a ready-to-solve 1x1 calibration first
            self.do("nalloc 0 %d 1 1" % self.rng.choice(VALID_TYPES))
            self.vn[0] = {"dim": 1, "ty": 0, "nf": 1, "fvalid": False, "f0": None, "std": [], "unk": {},
                          "taint": False, "cal": False, "through": False}
            self.do("setf 0 1")
            self.vn[0]["fvalid"], self.vn[0]["f0"] = True, 1
            for h, val in ((0, (0, 0)), (1, (64, 0)), (2, (-64, 0))):
                self.do("addstd 0 1 %d 1 %s" % (h, vstr(val)))
                self.vn[0]["std"].append(("k", [val]))
        while len(self.m.script) < self.depth:
            k = self.rng.choices(ops, weights)[0]
            getattr(self, "op_" + k)()
        self.do("free")


# ---------------------------------------------------------------------------------------------
# directed probes for the candidate defects
PROBES = {
    "D8": (["nalloc 0 0 1 1", "setf 0 1", "addstd 0 1 0 1 0 0", "addstd 0 1 1 1 64 0", "addstd 0 1 2 1 -64 0",
            "solve 0 1", "addcal 0 c1", "solve 0 1", "addcal 0 c2", "find c2", "getcal 1", "free"], False),
    "D37": (["nalloc 0 0 1 1", "setf 0 1", "addstd 0 1 0 1 0 0", "addstd 0 1 1 1 64 0", "addstd 0 1 2 1 -64 0",
             "solve 0 1", "addcal 0 c1", "solve 0 1", "addcal 0 c2", "free"], False),
    "D42a": (["mks 32 0", "mks 16 0", "delp 3", "mku 4", "free"], False),
    "D42b": (["mks 32 0", "mks 16 0", "delp 3", "mku 4", "delp 4", "free"], False),
    "D43": (["mkv 2 1 2 32 0 16 0", "mku 3", "mkc 4 2", "delp 5", "getv 3 1", "delp 3", "delp 4", "free"], False),
    "D44": (["nalloc 0 0 1 1", "addstd 0 1 -1 1 0 0", "addstd 0 1 -3 1 0 0", "addstd 0 1 99 1 0 0", "free"], False),
    "D41": (["nalloc 0 8 1 1", "setf 0 1", "addstd 0 1 0 1 0 0", "addstd 0 1 1 1 64 0", "addstd 0 1 2 1 -64 0",
             "solve 0 1", "addcal 0 c1", "getcal 0", "free"], False),
    # allocation failure inside _vnacal_alloc_parameter while exactly one lower slot is free
    "D11": (["mks 32 0", "mks 16 0", "mks 8 0", "mks 4 0", "mks 2 0", "delp 4", "failnext 1", "mks 5 5", "mks 6 6",
             "mks 7 7", "free"], True),
}


def directed_scripts():
    """Directed scenarios for the case splits: slot growth 0 -> 1 -> 8 -> 16 of the calibration vector,
    delete-then-add (first free slot), add existing name, parameter-table growth 3 -> 8 -> 16 and
    handle reuse after release, delete while held then solve / add_calibration / new_free."""
    out = {}
    pre = ["nalloc 0 0 1 1", "setf 0 1", "addstd 0 1 0 1 0 0", "addstd 0 1 1 1 64 0", "addstd 0 1 2 1 -64 0"]
    g = list(pre)
    for k in range(18):
        g += ["solve 0 1", "addcal 0 c%d" % k, "end"]
        if k in (0, 1, 7, 8, 9, 15, 16, 17):
            g += ["getcal %d" % k, "find c%d" % k]
    g += ["delcal 3", "delcal 17", "end", "delcal 16", "end", "solve 0 1", "addcal 0 c40", "find c40", "solve 0 1",
          "addcal 0 c5", "find c5", "getcal 5", "delcal 0", "solve 0 1", "addcal 0 c41", "find c41", "end",
          "delcal 1", "solve 0 1", "addcal 0 c6", "find c6", "getcal 1", "solve 0 1", "addcal 0 c42", "find c42",
          "pset 2 7", "pset -1 9", "pget 2", "pget 4", "pget -1", "solve 0 1", "addcal 0 c2", "pget 2", "free"]
    out["growth"] = g
    out["empty_again"] = pre + ["end", "solve 0 1", "addcal 0 c1", "end", "delcal 0", "end", "getcal 0", "find c1", "delcal 0",
                                "solve 0 1", "addcal 0 c2", "end", "solve 0 1", "addcal 0 c3", "delcal 0", "end", "delcal 1",
                                "end", "free"]
    p = []
    for k in range(15):
        p.append("mks %d 1" % (k + 3))
    p += ["delp 5", "delp 9", "delp 4", "mks 50 1", "mks 51 1", "mku 4", "mks 52 1", "mks 53 1", "mks 54 1", "delp 17",
          "delp 17", "delp 1", "delp -4", "delp 40", "getv 4 1", "getv 5 1", "getv 99 1", "free"]
    out["param_growth_reuse"] = p
    h = ["mks 32 0", "mkv 2 1 2 20 0 10 0", "mks -20 5", "mku 3"] + ["nalloc 0 2 1 2", "nalloc 1 1 1 2", "setf 0 1", "setf 1 1",
         "addstd 0 1 3 2 32 0 32 0", "addstd 0 1 4 2 20 0 10 0", "addstd 0 1 5 2 -20 5 -20 5", "addstd 0 1 6 2 33 1 30 -1",
         "addstd 1 1 3 2 32 0 32 0", "delp 3", "delp 4", "delp 6", "getv 3 1", "addstd 1 1 4 2 20 0 10 0",
         "addstd 0 1 3 2 32 0 32 0", "solve 0 1", "addcal 0 c1", "getcal 0", "mks 9 9", "nfree 0", "mks 10 10", "mks 11 11",
         "nfree 1", "mks 12 12", "free"]
    out["deleted_while_held"] = h
    # the per-vnacal_new_t parameter hash (8 buckets, grows to 16 at the 8th entry, 32 at the 16th, 64 at the 32nd):
    # handles colliding modulo 8 / 16 / 32 are entered before the growth, then EVERY held handle is deleted and used
    # again in the same vnacal_new_t, which must keep accepting it
    def hash_scenario(order, nparams=70):
        sc = ["mks %d %d" % (k - 30, 2 * k - 61) for k in range(nparams)]          # handles 3 .. nparams+2
        val = lambda h: (h - 3 - 30, 2 * (h - 3) - 61)
        sc += ["nalloc 0 0 1 1", "setf 0 1"]
        for h in order:
            sc.append("addstd 0 1 %d 1 %d %d" % ((h,) + val(h)))
        for h in order:
            sc += ["delp %d" % h, "addstd 0 1 %d 1 %d %d" % ((h,) + val(h))]
        sc += ["solve 0 1", "addcal 0 c1", "getcal 0"]
        for h in order[:6]:
            sc.append("getv %d 1" % h)
        sc += ["nfree 0", "mks 1 1", "free"]
        return sc
    out["hash_mod16"] = hash_scenario([3, 19, 4, 20, 5, 21, 9, 10, 11])                      # stops at 16 buckets
    out["hash_mod32"] = hash_scenario([3, 19, 35, 7, 39, 8, 9, 10, 11, 12, 13, 14, 15, 16, 17, 18, 20, 21])  # 32 buckets
    out["hash_mod64"] = hash_scenario([3, 67, 35, 19, 4, 36, 68] + list(range(5, 19)) + list(range(20, 34)) + [40, 41, 42])
    out["hash_reverse"] = hash_scenario([51, 35, 19, 3, 52, 36, 20, 4, 60, 44, 28, 12])
    # an unknown parameter shared by vnacal_new_t with grids of equal length but different frequencies, and of
    # different lengths, solved in both orders; the solved values are read back at every grid
    def shared_scenario(order):
        sc = ["mks 32 0", "mku 3"]                                              # unknown = handle 4, guess 0.5
        grids = {0: (2, 1), 1: (2, 3), 2: (3, 2), 3: (1, 7)}                    # id -> (frequencies, first frequency)
        ms = {0: [(34, 2), (30, -2)], 1: [(35, -3), (29, 3)], 2: [(33, 1), (31, -1), (36, 4)], 3: [(28, -4)]}
        for i, (nf, f0) in sorted(grids.items()):
            sc += ["nalloc %d %d 1 %d" % (i, [0, 1, 6, 8][i], nf), "setf %d %d" % (i, f0)]
            for h, vv in ((0, (0, 0)), (1, (64, 0)), (2, (-64, 0))):
                sc.append("addstd %d 1 %d %d %s" % (i, h, nf, " ".join([vstr(vv)] * nf)))
            sc.append("addstd %d 1 4 %d %s" % (i, nf, " ".join(vstr(x) for x in ms[i])))
        sc.append("getv 4 1")
        for i in order:
            sc.append("solve %d 1" % i)
            sc += ["getv 4 %d" % f for f in range(0, 10)]
        sc += ["delp 4", "solve %d 1" % order[0], "addcal %d c1" % order[0], "getv 4 1", "free"]
        return sc
    out["shared_unknown_a"] = shared_scenario([0, 1, 0, 2, 1, 3, 2])
    out["shared_unknown_b"] = shared_scenario([1, 0, 3, 0, 2, 1])
    # c16_rejected_standard_unchanged / c16_acceptable_standard_added: two-cell standards in which one cell is not
    # acceptable (out of the frequency range, unknown handle, negative, deleted and not held) and the OTHER cell names a
    # parameter the vnacal_new_t does not hold yet (scalar, unknown, correlated -> unknown -> vector chain): the refusal
    # must not register it (hold counts in the digest); then the same cells in acceptable standards
    m20 = " ".join(["3 5"] * 20)
    out["refused_standard_unchanged"] = [
        "mks 20 5", "mkv 3 1 2 3 8 23 -26 -5 -57 50", "mku 3", "mkv 10 1 2 3 4 5 6 7 8 9 10 " + " ".join(["7 1"] * 10),
        "mku 6", "mkc 7 10", "mks 9 9",
        "nalloc 0 3 2 10", "addstd 0 2 3 6 20 " + m20, "setf 0 1",
        "addstd 0 2 8 4 20 " + m20, "addstd 0 2 4 8 20 " + m20, "addstd 0 2 5 4 20 " + m20, "addstd 0 2 9 30 20 " + m20,
        "addstd 0 2 9 -1 20 " + m20, "addstd 0 2 -7 9 20 " + m20, "delp 9", "addstd 0 2 3 9 20 " + m20,
        "addstd 0 2 8 5 20 " + m20, "delp 8", "delp 7", "addstd 0 2 8 3 20 " + m20, "addstd 0 2 3 4 20 " + m20,
        "nfree 0", "mks 1 2", "free"]
    out["two_port_and_unknown"] = [
        "mks 32 0", "mku 3", "nalloc 0 0 1 2", "setf 0 1", "addstd 0 1 0 2 0 0 0 0", "addstd 0 1 1 2 64 0 64 0",
        "addstd 0 1 2 2 -64 0 -64 0", "addstd 0 1 4 2 36 4 30 -4", "getv 4 1", "solve 0 1", "getv 4 1", "getv 4 2", "getv 4 3",
        "delp 4", "getv 4 1", "nalloc 1 3 2 2", "setf 1 1", "addstd 1 2 2 1 4 -64 0 -64 0 64 0 64 0",
        "addstd 1 2 1 0 4 64 0 64 0 0 0 0 0", "solve 1 0", "addstd 1 2 0 2 4 0 0 0 0 -64 0 -64 0", "addstd 1 4 0 1 1 0 0",
        "solve 1 1", "addcal 1 c7", "nalloc 2 8 2 1", "setf 2 1", "addstd 2 2 2 1 2 -64 0 64 0", "addstd 2 2 1 0 2 64 0 0 0",
        "addstd 2 2 0 2 2 0 0 -64 0", "addstd 2 4 0 1 1 0 0", "solve 2 1", "addcal 2 c8", "getcal 0", "getcal 1",
        "addcal 2 c9", "solve 0 1", "addcal 0 c7", "getcal 0", "nfree 0", "nfree 2", "free"]
    # vnacal_new_t without frequency points (vnacal_new_alloc accepts 0): set_frequency_vector reads no element (a
    # negative start is not seen, no range test), the range tests of add_* are skipped (vn_frequencies_valid &&
    # vn_frequencies > 0), solve needs the vector to have been "given", the calibration has no fmin / fmax
    # c16_values_vector: vector parameters with gaps between the knots (n = 2, 3, 4, 5, 6, 9 points: rfi orders 2..5,
    # windows at both ends and in the middle), asked at EVERY integer frequency of the band and one beyond, twice in
    # different orders (the cached segment must not matter)
    vb = []
    vecs = [[2, 9], [0, 4, 7], [1, 3, 8, 12], [2, 3, 7, 10, 15], [0, 2, 5, 6, 11, 13], [1, 2, 4, 7, 8, 10, 11, 13, 15]]
    for k, fsv in enumerate(vecs):
        gsv = [((7 * j * j + 11 * k + 3 * j) % 97 - 48, (5 * j + 13 * k * j + k) % 89 - 44) for j in range(len(fsv))]
        vb.append("mkv %d %s %s" % (len(fsv), " ".join(map(str, fsv)), " ".join("%d %d" % g for g in gsv)))
    for k, fsv in enumerate(vecs):
        qs = list(range(max(0, fsv[0] - 1), fsv[-1] + 2))
        vb += ["getv %d %d" % (3 + k, f) for f in qs] + ["getv %d %d" % (3 + k, f) for f in reversed(qs)]
    out["vector_between_knots"] = vb + ["free"]
    # correlated parameters with their OWN sigma frequency grid (review round 2, C16 MEDIUM 1): the range of the parameter
    # is the range of the initial guess clamped by the grid (only the grid of the parameter asked about, not of the
    # parameters below it); validation of the grid: non-negative, ascending, not disjoint with a vector initial guess
    out["sigma_grids"] = [
        "mkv 5 1 2 3 4 5 10 0 20 0 30 0 40 0 50 0", "mku 3",
        "mkc 4 3 2 3 4", "mkc 4 5 1 2 3 4 5", "mkc 4 3 0 3 9", "mkc 4 2 0 3", "mkc 4 2 3 9",
        "mkc 4 2 6 9", "mkc 4 2 -1 3", "mkc 4 2 3 3", "mkc 4 3 2 4 3", "mkc 4 1 77", "mkc 4 1 -5", "mkc 4 5", "mkc 4 4",
        "mks 20 5", "mkc 12 2 0 1000", "mkc 12 3 4 5 6", "mkc 5 2 1 5", "mkc 5 2 2 3",
        "nalloc 0 0 1 5", "setf 0 1",
        "addstd 0 1 5 5 1 1 1 1 1 1 1 1 1 1", "addstd 0 1 6 5 1 1 1 1 1 1 1 1 1 1", "addstd 0 1 7 5 1 1 1 1 1 1 1 1 1 1",
        "addstd 0 1 8 5 1 1 1 1 1 1 1 1 1 1", "addstd 0 1 9 5 1 1 1 1 1 1 1 1 1 1", "addstd 0 1 10 5 1 1 1 1 1 1 1 1 1 1",
        "addstd 0 1 13 5 1 1 1 1 1 1 1 1 1 1", "addstd 0 1 14 5 1 1 1 1 1 1 1 1 1 1", "addstd 0 1 15 5 1 1 1 1 1 1 1 1 1 1",
        "addstd 0 1 16 5 1 1 1 1 1 1 1 1 1 1", "addstd 0 1 17 5 1 1 1 1 1 1 1 1 1 1",
        "nalloc 1 0 1 3", "setf 1 2",
        "addstd 1 1 5 3 1 1 1 1 1 1", "addstd 1 1 8 3 1 1 1 1 1 1", "addstd 1 1 9 3 1 1 1 1 1 1", "addstd 1 1 17 3 1 1 1 1 1 1",
        "addstd 1 1 15 3 1 1 1 1 1 1",
        "nalloc 2 0 1 2", "addstd 2 1 5 2 1 1 1 1", "addstd 2 1 8 2 1 1 1 1", "setf 2 1", "setf 2 3", "setf 2 2",
        "nfree 0", "nfree 1", "nfree 2", "free"]
    out["zero_frequencies"] = [
        "mkv 2 5 6 10 0 20 0", "mks 20 5", "nalloc 0 0 1 0", "solve 0 1", "addstd 0 1 3 0", "setf 0 -5", "addstd 0 1 3 0",
        "addstd 0 1 0 0", "addstd 0 1 1 0", "addstd 0 1 2 0", "solve 0 1", "addcal 0 c1", "getcal 0", "end", "find c1",
        "nalloc 1 1 1 0", "setf 1 7", "setf 1 -1", "addstd 1 1 3 0", "addstd 1 1 4 0", "delp 3", "addstd 1 1 3 0", "mku 4",
        "addstd 1 1 5 0", "getv 5 1", "nalloc 2 0 1 2", "setf 2 1", "addstd 2 1 3 2 1 1 1 1", "nfree 0", "nfree 1", "getcal 0",
        "delcal 0", "free"]
    return out


def run(ctx):
    ctx.level = "proof"
    ctx.trusted_base = [
        "Coq 8.16.1 kernel (coqc); vm_compute for the concrete examples / refutation witnesses; no native_compute",
        "axioms: none (Print Assumptions: Closed under the global context for every theorem of Properties_C16.v)",
        "hand-written model coq/CalTab/CalTabModel.v tied to the library by op-script correspondence on every run "
        "(the executable invariant inv_b, acyclicity of the `other` links included, is evaluated on every model state)",
        "extraction (ExtrOcamlBasic only) + ocaml/drv_caltab.ml printing glue; harness/caltab_harness.c",
        "c16_values_vector rests on property C10's model and lemmas (coq/Interp/RfiModel.v; rfi_no_fault_l, rfi_hint_indep_l2, "
        "rfi_at_knot_l) and on coq/Gen/RangeGen.v (EPS, cut-off factor, VNACAL_MAX_M regenerated by translate/ranges.py, "
        "which checks/C10.py validates against the compiled code - checks/C16.py does not)",
        "numeric solver replaced by an oracle bit and the measured values of the script (ideal VNA)",
        "gcc, ASan/UBSan/LSan",
    ]
    ctx.assumptions = ["the numeric part of vnacal_new_solve is outside the model: its success is an oracle input and "
                       "the solved value of an unknown parameter is the measured value supplied by the script",
                       "between the knots of a vector parameter the value is the exact-rational rfi model of C10 "
                       "(CalTabVectorModel.get_value_q); the library's double is compared with it to 1e-9 relative to max(1, |value|) "
                       "(queries where the interpolant exceeds 1e6/64 are not compared); solved unknown parameters between knots: not compared",
                       "vnacal_make_vector_parameter: the caller's gamma array has at least `frequencies` entries (the C "
                       "code cannot check it; the model answers RUndef otherwise and the script syntax cannot express it)"]
    ctx.rule = ("op scripts (make/delete parameter, new_alloc, set_frequency_vector, add_*, solve, add/delete/find "
                "calibration, get_*, properties, new_free, vnacal_free) generated against the model and replayed on the "
                "library; one evaluation = one op line compared; distinct non-trivial = distinct (op, outcome, "
                "table-shape) classes reached")
    INTERP_COMPARED[0] = 0
    thorough = ctx.tier == "thorough"

    # ------------------------------------------------------------------ 1. Coq
    vfiles = ["CalTab/CalTabModel.v", "CalTab/TableSpec.v", "CalTab/CalTabProofs.v", "CalTab/CalTabWalks.v", "CalTab/CalTabParams.v", "CalTab/CalTabVector.v", "CalTab/CalTabSigma.v",
              "Properties_C16.v"]
    vfiles = [v for v in vfiles if os.path.exists(os.path.join(vplib.COQDIR, v))]
    coq_ok, res = ctx.coq_obligations(vfiles)
    if not coq_ok:
        ctx.log("Coq obligations failed:", [k for k, v in res.items() if not v])

    # ------------------------------------------------------------------ 2. tie
    R = Runner(ctx)
    found = []                   # (sig, what, replay)

    def report(tag, script, r, wrap=False):
        sig = r["sig"]
        small = script
        if len(script) > 6:
            small = R.shrink(script, sig, wrap=wrap, budget=60 if not thorough else 200)
        r2 = R.check(small, wrap=wrap) or r
        if r2["sig"] != sig:
            small, r2 = script, r
        if r2["kind"] == "property":
            what = ("%s: the library's own answers violate the property at op %d `%s`: %s (library line `%s`)"
                    % (tag, r2["index"], small[r2["index"]] if r2["index"] < len(small) else "?", r2["text"], r2["c"][:200]))
        elif r2["kind"] == "disagreement":
            what = ("%s: model and library disagree at op %d `%s` (%s): model `%s` / library `%s`"
                    % (tag, r2["index"], small[r2["index"]] if r2["index"] < len(small) else "?", sig["class"],
                       r2["model"][:160], r2["c"][:160]))
        else:
            what = "%s: %s in %s running `%s`" % (tag, sig.get("error"), sig.get("function"), "; ".join(small)[:300])
        replay = {"script": small, "original_length": len(script), "result": {k: v for k, v in r2.items() if k != "sig"},
                  "how": "harness/caltab_harness.c < script (ASan/UBSan/LSan) vs ocaml/_build/drv_caltab < script"}
        found.append((sig, what, replay))
        ctx.violation(sig, what, replay)
        return small

    # every input class is generated (negative handles in add_*, correlated parameters sharing the frequency
    # vector of a vector parameter behind an unknown one: the repairs D43 / D44 are in the library)
    feats = {"d43": True, "d44": True}
    probe_bad = []
    for name, (script, wrap) in sorted(PROBES.items()):
        r = R.check(script, wrap=wrap)
        ctx.count(("probe", name))
        ctx.traces_validated += 1
        if r is not None:
            probe_bad.append(name)
            report("probe " + name, script, r, wrap=wrap)
    ctx.obligation("tie:defect-probes (D8 D11 D37 D41 D42 D43 D44)", not probe_bad, "failing: " + ",".join(probe_bad))
    dir_bad = []
    for name, script in sorted(directed_scripts().items()):
        r = R.check(script)
        ctx.count(("directed", name))
        ctx.traces_validated += 1
        if r is not None:
            dir_bad.append(name)
            report("directed " + name, script, r)
    ctx.obligation("tie:directed scenarios (slot growth 1/8/16, delete-then-add, existing name, handle reuse, "
                   "delete while held, large colliding parameter sets, unknowns shared across grids, two-cell standards "
                   "with one unacceptable cell)", not dir_bad,
                   "failing: " + ",".join(dir_bad))

    # corpus
    corpus_bad = 0
    for p in sorted(glob.glob(os.path.join(CORPUS, "*.txt"))):
        script = [l for l in open(p).read().split("\n") if l.strip() and not l.startswith("#")]
        r = R.check(script)
        ctx.traces_validated += 1
        ctx.count(("corpus", os.path.basename(p)))
        if r is not None:
            corpus_bad += 1
            report("corpus " + os.path.basename(p), script, r)
    ctx.obligation("tie:corpus scripts", corpus_bad == 0, "%d corpus scripts fail" % corpus_bad)

    # generated scripts
    nscripts = 60 if not thorough else 600
    depth = 60 if not thorough else 100
    profiles = ["mixed", "params", "cals", "growth", "held", "bigset", "shared"]
    bad = 0
    opcount = {}
    cover = {"lines showing a solved unknown value": 0, "successful solves": 0, "handles deleted while held": 0,
             "handle values reused after release": 0, "calibrations added": 0}
    shapes = set()
    interp_directed = INTERP_COMPARED[0]
    for k in range(nscripts):
        prof = profiles[k % len(profiles)]
        d = depth if k % 7 else 100
        m = Model(R.drv)
        try:
            g = Gen(ctx.rng, m, d, prof, feats)
            g.generate()
        finally:
            m.close()
        script, mlines = m.script, m.lines
        for o, c in g.counts.items():
            opcount[o] = opcount.get(o, 0) + c
        r = R.check(script, mlines=mlines)
        ctx.traces_validated += 1
        seen_handles = set()
        for sl, ml in zip(script, mlines):
            pl = parse_line(ml)
            w = sl.split()
            if "~" in ml:
                cover["lines showing a solved unknown value"] += 1
            if w[0] == "solve" and pl.get("r") == "0":
                cover["successful solves"] += 1
            if w[0] == "delp" and pl.get("r") == "0" and int(w[1]) >= 3 and pl.get("params", {}).get(int(w[1]), {}).get("deleted"):
                cover["handles deleted while held"] += 1
            if w[0] in ("mks", "mkv", "mku", "mkc") and pl.get("e") == "-" and int(pl["r"]) in seen_handles and int(pl["r"]) >= 3:
                cover["handle values reused after release"] += 1
            if w[0] == "addcal" and pl.get("e") == "-" and pl.get("r") != "nosuch":
                cover["calibrations added"] += 1
            seen_handles |= set(pl.get("params", {}))
            key = (pl.get("op"), pl.get("r") if pl.get("op") in ("solve", "nalloc", "delp", "delcal", "setf") else
                   (pl.get("e")), pl.get("e"), tuple(pl.get("W", [])[:1] + pl.get("W", [])[3:]))
            ctx.count(key)
            shapes.add(tuple(pl.get("W", [])[:1] + pl.get("W", [])[3:]))
        if k < 3:
            ctx.sample({"profile": prof, "script_head": script[:12], "model_line": mlines[min(8, len(mlines) - 1)][:200]})
        if r is not None:
            bad += 1
            if bad <= 3:
                small = report("generated script %d (%s)" % (k, prof), script, r)
                if r["sig"].get("kind") == "disagreement" or r["sig"].get("error") != "leak":
                    os.makedirs(CORPUS, exist_ok=True)
                    nm = "auto_%s_%s.txt" % (re.sub(r"\W+", "_", str(r["sig"].get("op") or r["sig"].get("function"))),
                                             re.sub(r"\W+", "_", str(r["sig"].get("class") or r["sig"].get("error")))[:40])
                    with open(os.path.join(CORPUS, nm), "w") as f:
                        f.write("# minimised by checks/C16.py (seed %d)\n%s\n" % (ctx.seed, "\n".join(small)))
    ctx.obligation("tie:CalTabModel-vs-library on %d generated scripts (depth %d..100)" % (nscripts, depth), bad == 0,
                   "%d scripts disagree / fault" % bad)
    ctx.extra["ops_generated"] = opcount
    ctx.extra["target_cases_reached"] = cover
    ctx.extra["table_shapes_reached (param allocation, calibration allocation)"] = sorted(shapes)
    ctx.extra["leaks_outside_scope_ignored"] = sorted(str(x) for x in R.ignored_leaks)
    ctx.extra["vector_values_between_knots_compared (re and im tokens, rfi model vs library)"] = {
        "directed and probes": interp_directed, "generated scripts": INTERP_COMPARED[0] - interp_directed}
    ctx.obligation("tie:vector values between knots", INTERP_COMPARED[0] > 0, "%d number tokens compared" % INTERP_COMPARED[0])

    # ------------------------------------------------------------------ verdict for broken Coq obligations
    if not coq_ok and not found:
        ctx.unproved("C16:coq", "the C16 development does not compile: " + getattr(ctx, "_last_coq_log", "")[-500:],
                     "defect probes, corpus and %d generated scripts agree with the model" % nscripts)
