"""C19 - linear systems are solved to backward-stable accuracy; singular ones stand out.

1. translate/lu_scale.py reads src/vnacommon_lu.c: which row-scale statement the code contains
   (`max` or `1.0 / max`) selects the `scale_of_max` parameter of the model; the other statements
   the model copies are matched literally; the call sites' determinant / rank tests are matched.
2. Coq obligations: Lin/LuGen*.v (general-n Crout invariant and solves), Lin/LuPivot.v (pivot
   search, scale invariance), Lin/LuDet3.v, Lin/LuProofs.v, Lin/LuNonsing*.v (nonsingular input <=>
   nonzero pivots; outcome of the partial model LuPartial.lu_c), Lin/LsProofs.v, Lin/LsLuProofs.v
   (sound and complete least-squares oracle), Properties_C19.v.
3. Correspondence, square systems n = 1..8 (random, row-permuted, row-scaled by 2^-27..2^27,
   graded, rank-deficient, exactly singular; small dyadic entries, exact in binary64):
   LuModel over Q[i] (extracted, ocaml/drv_lu2.ml) against _vnacommon_lu / mldivide / mrdivide /
   minverse called directly (harness/lu_harness.c):
   (a) pivot row sequence, exactly, up to the first column where the model's candidate metrics
       tie or nearly tie (those are counted, not compared);
   (b) row-scaling-invariant componentwise backward error of the C solution and its distance
       from the exact solution (support: binary64 rounding is not in any theorem);
   (c) exactly singular inputs: determinant exactly 0, or non-finite / astronomically large output;
   (c') exact eliminations with the first zero pivot at every column position: LuPartial.lu_c vs the
       C routines (NaN resp. exactly 0 determinant, non-finite solutions, callers report VNAERR_MATH);
   (e) on the real code: permuting rows and scaling rows by powers of two must not change the
       pivot rows chosen nor (bitwise) the solution  -- this is where candidate defect D25 shows.
4. Tall systems up to 40 x 15 through _vnacommon_qrsolve and _vnacommon_qr + _vnacommon_qrsolve2
   against the exact normal-equation solution of LsLu.ls_lu (cross-checked with LsSpec.ls_solve), including very tall systems
   (m = 4n .. 20n, n = 1..8) with graded condition numbers 1e2 .. 1e7 and consistent data, judged by
   the forward-error bound of a backward-stable solver, LS_C eps (cond|x| + cond^2|r|/|A|), which a
   solution through the normal equations (cond^2 eps |x|) does not meet; rank-deficient tall systems must come back with rank < columns when a column is
   missing; otherwise rank < columns or astronomically large output.
4b. Full-column-rank tall systems whose columns / rows are scaled by exact powers of two 2^-60..2^60 (mixed
   within one matrix): the exact rank is n (oracle on the base system), so the C routines must report
   rank n and the unscaled solution must meet the forward-error bound of the base system (column scaling
   by powers of two commutes with every operation of the sweep, also in binary64); the same through the
   public API (over-determined one-port calibration with measurements in units of 2^e).
5. White-box tie of the Householder model coq/Lin/QrModel.v (lib/c19_qr.py): rational-norm inputs built
   from rational reflections (every sqrt met is exact over Q), exact triangular inputs (bitwise), inputs
   with a zero column at every position (NaN stop, rank = position): d[], the working array, the
   transformed B, X and the rank of _vnacommon_qrd / _vnacommon_qrsolve against the extracted model.
"""
import math
import re
import os
from fractions import Fraction

import vplib
import lu_scale
import c19_qr

EPS = 2.0 ** -52
BERR_C = 1e3            # generous constant of the backward-error bound  c * n * 2^-52
TIE = 1e-9
HUGE = 1e10             # "astronomically large" relative to the input magnitude


# ---------------------------------------------------------------------------- number helpers
def fs(x):
    return "%d/%d" % (x.numerator, x.denominator) if x.denominator != 1 else str(x.numerator)


def hx(x):
    return float(x).hex()


def dy(rng, big=24, maxexp=3):
    return Fraction(rng.randint(-big, big), 2 ** rng.randint(0, maxexp))


def cdy(rng, big=24, maxexp=3):
    k = rng.random()
    if k < 0.15:
        return (dy(rng, big, maxexp), Fraction(0))
    return (dy(rng, big, maxexp), dy(rng, big, maxexp))


def cmul(a, b):
    return (a[0] * b[0] - a[1] * b[1], a[0] * b[1] + a[1] * b[0])


def cadd(a, b):
    return (a[0] + b[0], a[1] + b[1])


def csub(a, b):
    return (a[0] - b[0], a[1] - b[1])


def cabsf(a):
    return math.hypot(float(a[0]), float(a[1]))


def finite(a):
    return all(math.isfinite(x) for x in a)


def frac_of_float(x):
    return Fraction(x)


def mat_str(m, f):
    return " ".join("%s %s" % (f(a), f(b)) for row in m for (a, b) in row)


def exact_in_double(m):
    return all(Fraction(float(a)) == a and Fraction(float(b)) == b for row in m for (a, b) in row)


def parse_c_vals(toks):
    v = [float.fromhex(t) if ("x" in t or "X" in t) else float(t) for t in toks]
    return [(v[i], v[i + 1]) for i in range(0, len(v), 2)]


def parse_c_line(line):
    """-> dict with piv (list), det (pair of float), x (list of float pairs), rank, qerr"""
    out = {}
    p = line.split()
    out["op"] = p[0]
    i = 1
    while i < len(p):
        t = p[i]
        if t.startswith("piv="):
            out["piv"] = [int(k) for k in t[4:].split(",")] if t[4:] else []
            i += 1
        elif t.startswith("rank="):
            out["rank"] = int(t[5:])
            i += 1
        elif t == "det=":
            out["det"] = parse_c_vals(p[i + 1:i + 3])[0]
            i += 3
        elif t == "x=":
            j = i + 1
            while j < len(p) and not p[j].endswith("="):
                j += 1
            out["x"] = parse_c_vals(p[i + 1:j])
            i = j
        elif t == "qerr=":
            out["qerr"] = [float.fromhex(p[i + 1]), float.fromhex(p[i + 2])]
            i += 3
        else:
            i += 1
    return out


def parse_m_line(line):
    out = {}
    p = line.split()
    out["op"] = p[0]
    if len(p) > 1 and p[1] == "none":
        out["none"] = True
        return out
    i = 1
    while i < len(p):
        t = p[i]
        if t.startswith("piv="):
            out["piv"] = [int(k) for k in t[4:].split(",")] if t[4:] else []
            i += 1
        elif t.startswith("cands="):
            out["cands"] = [[Fraction(c) for c in col.split(",")] for col in t[6:].split(";")] if t[6:] else []
            i += 1
        elif t == "det=":
            out["det"] = (Fraction(p[i + 1]), Fraction(p[i + 2]))
            i += 3
        elif t == "x=":
            vals = [Fraction(c) for c in p[i + 1:]]
            out["x"] = [(vals[k], vals[k + 1]) for k in range(0, len(vals), 2)]
            i = len(p)
        else:
            i += 1
    return out


# ---------------------------------------------------------------------------- generators
def rand_matrix(rng, r, c, big=24, maxexp=3):
    return [[cdy(rng, big, maxexp) for _ in range(c)] for _ in range(r)]


def scale_rows(m, exps):
    return [[(a * Fraction(2) ** e, b * Fraction(2) ** e) for (a, b) in row] for row, e in zip(m, exps)]


def perm_rows(m, perm):
    return [m[p] for p in perm]


def gen_square_family(rng, n, kind):
    """-> (A, B for mldivide (n x nb), Brd for mrdivide (mb x n))"""
    nb = rng.randint(1, 2)
    A = rand_matrix(rng, n, n)
    if n >= 2 and kind in ("random", "graded") and rng.random() < 0.6:
        # With the metric |s_i| / rowmax_i every row whose largest entry stands in column 0 has
        # metric exactly 1 there (an exact tie, not compared).  Put the row maximum elsewhere.
        for row in A:
            row[rng.randrange(1, n)] = (Fraction(rng.choice([-1, 1]) * rng.randint(40, 56)), dy(rng, 8))
    if kind == "graded":
        # entries graded by powers of two along rows (decaying) and columns (growing), exact
        A = [[(a * Fraction(2) ** (-3 * i + 2 * j), b * Fraction(2) ** (-3 * i + 2 * j)) for j, (a, b) in enumerate(row)]
             for i, row in enumerate(A)]
    elif kind == "rankdef" and n >= 2:
        # last row = dyadic combination of the others (exactly singular, exact in binary64)
        co = [(Fraction(rng.randint(-4, 4), 2), Fraction(rng.randint(-2, 2), 2)) for _ in range(n - 1)]
        last = []
        for j in range(n):
            s = (Fraction(0), Fraction(0))
            for i in range(n - 1):
                s = cadd(s, cmul(co[i], A[i][j]))
            last.append(s)
        k = rng.randrange(n)
        A = A[:k] + [last] + A[k:n - 1]
    elif kind == "zero_row":
        k = rng.randrange(n)
        A[k] = [(Fraction(0), Fraction(0))] * n
    elif kind == "zero_col":
        k = rng.randrange(n)
        for row in A:
            row[k] = (Fraction(0), Fraction(0))
    elif kind == "dup_row" and n >= 2:
        i, k = rng.sample(range(n), 2)
        A[k] = list(A[i])
    B = rand_matrix(rng, n, nb, 16)
    Brd = rand_matrix(rng, nb, n, 16)
    return A, B, Brd


SING_KINDS = ("rankdef", "zero_row", "zero_col", "dup_row")


# ---------------------------------------------------------------------------- exact helpers
def ax_minus_b_rows(A, X, B, n, nb):
    """componentwise backward error of A X = B (A n x n, X n x nb as list of float/Fraction pairs
    row-major, B n x nb): max over (i, k) of |A X - B|_ik / (sum_j |A_ij||X_jk| + |B_ik|)."""
    worst = 0.0
    for i in range(n):
        for k in range(nb):
            s = (Fraction(0), Fraction(0))
            den = 0.0
            for j in range(n):
                xj = X[j * nb + k]
                s = cadd(s, cmul(A[i][j], xj))
                den += cabsf(A[i][j]) * cabsf(xj)
            s = csub(s, B[i][k])
            den += cabsf(B[i][k])
            num = cabsf(s)
            if num == 0.0:
                continue
            if den == 0.0:
                return float("inf")
            worst = max(worst, num / den)
    return worst


def xa_minus_b(A, X, B, mb, n):
    """same for X A = B (X mb x n, A n x n, B mb x n)."""
    worst = 0.0
    for i in range(mb):
        for k in range(n):
            s = (Fraction(0), Fraction(0))
            den = 0.0
            for j in range(n):
                xj = X[i * n + j]
                s = cadd(s, cmul(xj, A[j][k]))
                den += cabsf(A[j][k]) * cabsf(xj)
            s = csub(s, B[i][k])
            den += cabsf(B[i][k])
            num = cabsf(s)
            if num == 0.0:
                continue
            if den == 0.0:
                return float("inf")
            worst = max(worst, num / den)
    return worst


def skeel_cond(A, Ainv, n):
    """|| |A^-1| |A| ||_inf  from the model's exact inverse (row-major list of pairs)."""
    worst = 0.0
    for i in range(n):
        s = 0.0
        for j in range(n):
            t = 0.0
            for k in range(n):
                t += cabsf(Ainv[i * n + k]) * cabsf(A[k][j])
            s += t
        worst = max(worst, s)
    return worst


def skeel_cond_float(A, n):
    """|| |A^-1| |A| ||_inf computed in floating point on the row-equilibrated matrix (the value is
    invariant under row scaling; equilibrating keeps the float inverse meaningful)."""
    Af = []
    for row in A:
        mx = max(cabsf(v) for v in row)
        e = Fraction(2) ** (-(math.frexp(mx)[1])) if mx > 0 else Fraction(1)
        Af.append([complex(float(a * e), float(b * e)) for (a, b) in row])
    G = fgauss_inverse(Af)
    if G is None:
        return float("inf")
    worst = 0.0
    for i in range(n):
        s = 0.0
        for j in range(n):
            s += sum(abs(G[i][k]) * abs(Af[k][j]) for k in range(n))
        worst = max(worst, s)
    return worst


def first_tie_column(cands, zero_is_tie=True):
    """index of the first column whose candidate metrics tie or nearly tie (or are all zero);
    len(cands) when there is none.  cands are the squared metrics of the exact model.
    A candidate that is exactly zero in the model is rounding noise in binary64 unless the whole
    row is zero, so (zero_is_tie) a column containing one is not compared either."""
    for j, col in enumerate(cands):
        if len(col) == 1:
            continue
        s = sorted(col, reverse=True)
        if s[0] == 0 or (zero_is_tie and s[-1] == 0):
            return j
        r = s[1] / s[0]
        if r >= 1 - TIE:
            return j
    return len(cands)


def hist_add(h, v):
    if v == 0.0:
        k = "0"
    elif not math.isfinite(v):
        k = "inf"
    else:
        k = "1e%d" % int(math.floor(math.log10(v)))
    h[k] = h.get(k, 0) + 1


def to_fr(x):
    return [(Fraction(a), Fraction(b)) for (a, b) in x]


# ---------------------------------------------------------------------------- the check
def run(ctx):
    ctx.level = "proof"
    ctx.trusted_base = [
        "Coq 8.16.1 kernel (coqc); vm_compute for the witnesses / non-vacuity examples; no native_compute",
        "axioms: none (Print Assumptions: Closed under the global context for every theorem of Properties_C19.v)",
        "hand-written models coq/Lin/LuModel.v and coq/Lin/LuPartial.v (what the C code returns at an exactly zero pivot) (+ LuQI2.v instantiation), tied on every run by exact-rational correspondence with the C routines; row-scale variant and call-site tests read from the C text by translate/lu_scale.py",
        "least squares: specification (normal equations, coq/Lin/LsSpec.v; sound and complete oracle coq/Lin/LsLu.v) + hand-written model of the Householder code coq/Lin/QrModel.v (sweep, rank rule, solve), tied white-box by exact-rational correspondence; forming Q and _vnacommon_qrsolve2 are not modelled (compared with the oracle numerically)",
        "QR theorems: laws of sqrt() and cexp(I*carg()) (nrm s * nrm s = s, cj (nrm s) = nrm s, phase x * cj (phase x) = 1, cj (phase x) * x = nrm (x cj x)) are a premise per run (QrProofs.run_laws), checked by computation at Q[i] on every generated input (QrQI.qq_run_lawsb); field hypotheses QrTheorems.qr_field_laws discharged at Q[i]",
        "OCaml extraction (ExtrOcamlBasic) + glue.ml.inc, zarith; gcc, ASan/UBSan for the harness",
    ]
    ctx.assumptions = [
        "exact field arithmetic stands for binary64 arithmetic: backward stability in binary64 (rounding analysis) and numerical rank decisions are NOT proved; backward-error measurements are support only",
        "order hypotheses on the magnitude type M (premises of the theorems; Section hypotheses of LuPivot.v / LuNonsing.v), all discharged at Qc (LuNonsingQI.v); in binary64 they fail for NaN and rounded metrics: the NaN case after a zero pivot is modelled (LuPartial) and tied, the rest is tie only",
        "'exactly zero pivot' = zero in exact arithmetic; a singular matrix whose elimination is inexact in binary64 leaves rounding noise (flagged by astronomically large output: tested, not proved)",
    ]
    ctx.rule = ("one evaluation = one (routine, input) pair run on model and C; distinct non-trivial = "
                "nonsingular inputs with Skeel condition <= 1e6 whose C result met the backward-error bound, "
                "plus singular / rank-deficient inputs whose flagging was checked")
    quick = ctx.tier == "quick"
    rng = ctx.rng
    broken = []          # (name, detail) of obligations that broke, for the final unproved() report
    found_violation = [False]

    def violation(sig, what, replay):
        found_violation[0] = True
        ctx.violation(sig, what, replay)

    # ------------------------------------------------------------------ 1. translator
    variant = None
    try:
        variant = lu_scale.variant(ctx.repo)
        ctx.l_scaling = lu_scale.l_scaling(ctx.repo)
        ctx.obligation("T:lu_scale (vnacommon_lu.c matches the modelled statements)", True, "variant=" + variant)
    except lu_scale.TranslateError as e:
        ctx.obligation("T:lu_scale (vnacommon_lu.c matches the modelled statements)", False, str(e))
        broken.append(("T:lu_scale", str(e)))
        ctx.log("translator:", e)
    sites = lu_scale.call_sites(ctx.repo)
    bad_sites = [s for s in sites if not lu_scale.accepted_test(s[4])]
    ctx.obligation("T:call sites test the returned determinant / rank (%d sites)" % len(sites),
                   not bad_sites and len(sites) >= 10,
                   "; ".join("%s:%d %s -> %s" % (s[0], s[1], s[2], s[4]) for s in bad_sites[:4]))
    ctx.extra["call_sites"] = ["%s:%d %s: %s" % (s[0], s[1], s[2], s[4]) for s in sites]
    # which outcome of LuPartial.lu_c each determinant test rejects (LuNonsing.lu_c_rejects_iff_singular,
    # lu_c_eq0_test): the full test rejects d = 0 and d = NaN, the bare `== 0.0` lets a NaN determinant
    # (zero pivot before the last column) through
    det_sites = [s for s in sites if s[2] in ("_vnacommon_mldivide", "_vnacommon_mrdivide", "_vnacommon_minverse")]
    eq0_sites = [s for s in det_sites if lu_scale.test_kind(s[4]) == "eq0"]
    ctx.extra["call_sites_full_test(== 0.0 || !isnormal)"] = len([s for s in det_sites if lu_scale.test_kind(s[4]) == "full"])
    ctx.extra["call_sites_eq0_only(NaN accepted)"] = ["%s:%d" % (s[0], s[1]) for s in eq0_sites]
    ctx.obligation("T:every determinant test at a call site rejects both outcomes of a zero pivot (0 and NaN) (%d of %d sites)"
                   % (len(det_sites) - len(eq0_sites), len(det_sites)), not eq0_sites,
                   "; ".join("%s:%d %s" % (s[0], s[1], s[4]) for s in eq0_sites[:5]))
    for fn in sorted({s[0] for s in eq0_sites}):
        lines_ = [s[1] for s in eq0_sites if s[0] == fn]
        violation({"kind": "callsite-nan", "file": fn},
                  "%s (lines %s): the determinant returned by %s is tested with `== 0.0` only; for a singular matrix whose first "
                  "zero pivot is not in the last column _vnacommon_lu returns NaN (0 * inf in the L scaling), NaN == 0.0 is false and "
                  "the non-finite inverse is used without an error" % (fn, ",".join(map(str, lines_)), eq0_sites[0][2]),
                  {"file": fn, "lines": lines_, "test_found": "== 0.0",
                   "expected": "determinant == 0.0 || !isnormal(cabs(determinant))",
                   "witness": "_vnacommon_minverse([[0,1],[0,2]]) returns NaN+NaN i (harness/lu_harness.c: minverse 2 0 0 1 0 0 0 2 0); "
                              "Coq: LuNonsingQI.eq0_test_accepts_singular_refuted"})
    for s in bad_sites:
        violation({"kind": "callsite", "file": s[0], "callee": s[2]},
                  "%s:%d: result of %s is not tested for singularity (found: %s)" % (s[0], s[1], s[2], s[4]),
                  {"file": s[0], "line": s[1], "callee": s[2], "test_found": s[4],
                   "expected": "determinant == 0.0 [|| !isnormal(cabs(determinant))]  /  rank < unknowns"})
    if len(sites) < 10 and not bad_sites:
        broken.append(("T:call sites", "only %d call sites recognised" % len(sites)))
    ctx.programs = 9

    # ------------------------------------------------------------------ 2. proofs
    vfiles = ["Lin/LuGenA.v", "Lin/LuGenB.v", "Lin/LuGenC.v", "Lin/LuGenD.v", "Lin/LuGen.v", "Lin/LuPivot.v",
              "Lin/LuDet3.v", "Lin/LuProofs.v", "Lin/LuNonsing.v", "Lin/LuNonsingQI.v", "Lin/LsProofs.v",
              "Lin/LsLuProofs.v", "Lin/LuDetModel.v", "Lin/LuDetAlg.v", "Lin/LuDetProofs.v", "Lin/LuRowOrderProofs.v",
              "Lin/DivideProofs.v", "Lin/LuDetExamples.v", "Lin/LuDetDupRows.v", "Lin/LuRowOrderNoTie.v", "Lin/LuRowOrderSolvers.v",
              "Lin/LuRowOrderScale.v", "Lin/LuRowOrderExamples.v", "Lin/QrAlg.v", "Lin/QrProofs.v", "Lin/QrTheorems.v", "Lin/QrQIProofs.v", "Lin/DivideQrLs.v", "Lin/DivideQrLsQI.v",
              "Properties_C19.v"]
    vfiles = [v for v in vfiles if os.path.exists(os.path.join(vplib.COQDIR, v))]
    ok, res = ctx.coq_obligations(["Lin/LsSpec.v", "Lin/LuPartial.v", "Lin/LsLu.v", "Lin/LuQI2.v", "Lin/QrModel.v", "Lin/QrQI.v"] + vfiles)
    if not ok:
        log = getattr(ctx, "_last_coq_log", "")
        broken.append(("Coq development of C19", log[-500:]))

    # ------------------------------------------------------------------ 3. square systems
    drv = ctx.ocaml_driver("drv_lu2")
    exe = ctx.build_harness("lu_harness", san=True)
    model_variant = variant or "recip"

    def run_model(mlines, timeout=900):
        """the extracted model on every line, spread over the cores (output order preserved)."""
        import subprocess
        nproc = max(1, min(vplib.NPROC, 12, len(mlines)))
        order = sorted(range(len(mlines)), key=lambda i: -len(mlines[i]))
        chunks = [order[k::nproc] for k in range(nproc)]
        procs = []
        for ch in chunks:
            p = subprocess.Popen([drv], stdin=subprocess.PIPE, stdout=subprocess.PIPE, stderr=subprocess.PIPE,
                                 universal_newlines=True)
            procs.append((p, ch))
        import threading
        outs = [None] * len(procs)

        def feed(k):
            p, ch = procs[k]
            try:
                outs[k] = p.communicate("".join(mlines[i] + "\n" for i in ch), timeout=timeout)
            except subprocess.TimeoutExpired:
                p.kill()
                outs[k] = ("", "[timeout]")
        ths = [threading.Thread(target=feed, args=(k,)) for k in range(len(procs))]
        for t in ths:
            t.start()
        for t in ths:
            t.join()
        res = [None] * len(mlines)
        for (p, ch), (o, e) in zip(procs, outs):
            lines = o.strip().split("\n") if o.strip() else []
            if p.returncode != 0 or len(lines) != len(ch):
                raise vplib.BuildError("model driver failed: " + (e or "")[-500:])
            for i, ln in zip(ch, lines):
                res[i] = ln
        return res

    def run_both(mlines, clines, timeout=900):
        ml = run_model(mlines, timeout) if mlines else []
        rc, cout, cerr = vplib.sh([exe], input="\n".join(clines) + "\n", timeout=timeout, env=ctx.run_env())
        if rc != 0:
            sig = vplib.asan_signature(cerr) or {"kind": "fault", "error": "exit %d" % rc, "function": None}
            violation(sig, "lu_harness failed: " + cerr[-300:], {"stderr": cerr[-3000:], "input": clines[:20]})
            return None, None
        cl = cout.strip().split("\n")
        return ml, cl

    nfam = 6 if quick else 80
    kinds = ["random", "graded"] + list(SING_KINDS)
    cases = []      # dict(kind, rel, n, A, B, Brd, base, full)
    for n in range(1, 9):
        for kind in kinds:
            reps = nfam if kind == "random" else max(1, nfam // 2)
            if n == 1 and kind in ("rankdef", "dup_row", "graded"):
                continue
            if n >= 6:
                reps = max(1, reps // 2)
            if n >= 8:
                reps = max(1, reps // 2)
            for r in range(reps):
                A, B, Brd = gen_square_family(rng, n, kind)
                base = len(cases)
                # the exact model is slow for n >= 6 (Coq binary integers): all four routines on the base
                # matrix of the first family of each kind, lu + mldivide on the rest
                full = n <= 5 or r == 0
                cases.append(dict(kind=kind, rel="base", n=n, A=A, B=B, Brd=Brd, base=base, full=full))
                if kind in SING_KINDS and r % 2 == 1:
                    continue
                # row-permuted copy
                perm = list(range(n))
                rng.shuffle(perm)
                cases.append(dict(kind=kind, rel="perm", n=n, A=perm_rows(A, perm), B=perm_rows(B, perm),
                                  Brd=Brd, base=base, perm=perm, full=n <= 5))
                # badly row-scaled copy (exact powers of two)
                exps = [rng.choice([-27, -20, -9, -3, 0, 0, 4, 11, 19, 27]) for _ in range(n)]
                cases.append(dict(kind=kind, rel="scaled", n=n, A=scale_rows(A, exps), B=scale_rows(B, exps),
                                  Brd=Brd, base=base, exps=exps, full=n <= 5))
    # directed cases: the D25 examples
    p27 = Fraction(2) ** 27
    d25 = [[(1 / p27, Fraction(0)), (p27, Fraction(0))], [(Fraction(1), Fraction(0)), (Fraction(1), Fraction(0))]]
    cases.append(dict(kind="directed", rel="base", n=2, A=d25, B=[[(Fraction(1), Fraction(0))], [(Fraction(2), Fraction(0))]],
                      Brd=[[(Fraction(1), Fraction(0)), (Fraction(3), Fraction(0))]], base=len(cases), full=True))
    # directed cases: exact ties.  Two identical rows carry the largest first-column metric, so the
    # strict `>` of the C code and the strict ltM of the model must both keep the first of them
    # (identical rows give bitwise identical metrics in binary64); compared at column 0 only.
    for n in (2, 3, 4, 5):
        A = rand_matrix(rng, n, n, 6, 0)
        i, k = sorted(rng.sample(range(n), 2))
        big = [(Fraction(24), Fraction(0))] + [(Fraction(rng.randint(-24, 24)), Fraction(0)) for _ in range(n - 1)]
        big[rng.randrange(1, n)] = (Fraction(24), Fraction(0))
        A[i] = list(big)
        A[k] = list(big)
        for r in range(n):
            if r not in (i, k):
                A[r][0] = (Fraction(rng.randint(-2, 2)), Fraction(0))
                A[r][1 + rng.randrange(n - 1)] = (Fraction(23), Fraction(1))
        cases.append(dict(kind="tie_twin", rel="base", n=n, A=A, B=rand_matrix(rng, n, 1, 16),
                          Brd=rand_matrix(rng, 1, n, 16), base=len(cases), full=True, twins=(i, k)))
    for c in cases:
        assert exact_in_double(c["A"]) and exact_in_double(c["B"]) and exact_in_double(c["Brd"])

    mlines, clines = [], []
    for c in cases:
        n, A, B, Brd = c["n"], c["A"], c["B"], c["Brd"]
        nb = len(B[0])
        mb = len(Brd)
        c["mline"] = len(mlines)
        mlines.append("lu %s %d %s" % (model_variant, n, mat_str(A, fs)))
        mlines.append("mldivide %s %d %d %s %s" % (model_variant, n, nb, mat_str(A, fs), mat_str(B, fs)))
        if c["full"]:
            mlines.append("mrdivide %s %d %d %s %s" % (model_variant, mb, n, mat_str(Brd, fs), mat_str(A, fs)))
            mlines.append("minverse %s %d %s" % (model_variant, n, mat_str(A, fs)))
        clines.append("lu %d %s" % (n, mat_str(A, hx)))
        clines.append("mldivide %d %d %s %s" % (n, nb, mat_str(A, hx), mat_str(B, hx)))
        clines.append("mrdivide %d %d %s %s" % (mb, n, mat_str(Brd, hx), mat_str(A, hx)))
        clines.append("minverse %d %s" % (n, mat_str(A, hx)))
        clines.append("ztoyn %d %s" % (n, mat_str(A, hx)))
    ctx.log("square systems: %d cases (model variant %s)" % (len(cases), model_variant))
    ml, cl = run_both(mlines, clines)
    if ml is None:
        return finish(ctx, broken, found_violation)

    stats = dict(pivot_compared=0, pivot_prefix_only=0, pivot_skipped_tie=0, wellcond=0, illcond=0,
                 singular_det0=0, singular_huge=0, invariance_compared=0, invariance_skipped_tie=0)
    hist_be = {}
    hist_fe = {}
    pivot_bad, be_bad, fe_bad, det_bad, sing_bad, inv_bad = [], [], [], [], [], []
    results = []
    for idx, c in enumerate(cases):
        n, A, B, Brd = c["n"], c["A"], c["B"], c["Brd"]
        nb, mb = len(B[0]), len(Brd)
        k0 = c["mline"]
        m_lu, m_ml = parse_m_line(ml[k0]), parse_m_line(ml[k0 + 1])
        m_mr, m_mi = (parse_m_line(ml[k0 + 2]), parse_m_line(ml[k0 + 3])) if c["full"] else (None, None)
        c_lu, c_ml, c_mr, c_mi, c_zy = (parse_c_line(x) for x in cl[5 * idx:5 * idx + 5])
        results.append((m_lu, m_ml, m_mr, m_mi, c_lu, c_ml, c_mr, c_mi))
        ctx.count(None, 4 if c["full"] else 2)
        singular = (m_lu["det"] == (0, 0))
        if c["kind"] == "tie_twin":
            stats["tie_first_kept"] = stats.get("tie_first_kept", 0) + 1
            if m_lu["piv"][0] != c["twins"][0]:
                raise vplib.BuildError("generator: tie_twin case does not tie at column 0 in the model")
            if c_lu["piv"][0] != m_lu["piv"][0]:
                pivot_bad.append((idx, 1, m_lu["piv"], c_lu["piv"]))
        if (c["kind"] in SING_KINDS) != singular and c["kind"] not in ("directed", "tie_twin"):
            if c["kind"] in SING_KINDS:
                raise vplib.BuildError("generator: %s input is not singular in the model" % c["kind"])
        tie = first_tie_column(m_lu["cands"], zero_is_tie=(c["kind"] != "zero_row"))
        c["tie"] = tie
        c["singular"] = singular
        # (a) pivot sequence
        if tie == 0 and n > 1:
            stats["pivot_skipped_tie"] += 1
        else:
            upto = n if tie >= n else tie
            if upto == n:
                stats["pivot_compared"] += 1
            else:
                stats["pivot_prefix_only"] += 1
            if m_lu["piv"][:upto] != c_lu["piv"][:upto]:
                pivot_bad.append((idx, upto, m_lu["piv"], c_lu["piv"]))
        if c_zy["x"] != c_mi["x"] and all(finite(v) for v in c_zy["x"] + c_mi["x"]):
            sing_bad.append((idx, "vnaconv_ztoyn differs from _vnacommon_minverse", None))
        if singular:
            # (c) exactly singular: determinant exactly zero, or non-finite / astronomically large output
            amax = max(cabsf(v) for row in A for v in row) or 1.0
            for name, cres, rhsmax in (("mldivide", c_ml, max(cabsf(v) for row in B for v in row)),
                                       ("mrdivide", c_mr, max(cabsf(v) for row in Brd for v in row)),
                                       ("minverse", c_mi, 1.0)):
                det0 = (cres["det"] == (0.0, 0.0)) or not finite(cres["det"])
                xs = cres["x"]
                nonfin = not all(finite(v) for v in xs)
                big = max((cabsf(v) for v in xs if finite(v)), default=0.0)
                huge = nonfin or big * amax >= HUGE * max(rhsmax, 1e-300)
                if det0:
                    stats["singular_det0"] += 1
                elif huge:
                    stats["singular_huge"] += 1
                if not (det0 or huge) and rhsmax > 0:
                    sing_bad.append((idx, name, (cres["det"], big)))
                else:
                    ctx.count(("sing", name, idx), 0)
            if c_lu["det"] != (0.0, 0.0) and finite(c_lu["det"]) and c["kind"] in ("zero_row", "zero_col"):
                sing_bad.append((idx, "lu: missing row/column but determinant %r" % (c_lu["det"],), None))
            continue
        # nonsingular: (b) backward and forward error, determinant
        # Skeel condition number (invariant under row scaling) from a floating-point inverse of the
        # row-equilibrated matrix; only used to classify the input
        cond = skeel_cond_float(A, n)
        well = cond <= 1e6
        stats["wellcond" if well else "illcond"] += 1
        bound = BERR_C * n * EPS
        for name, cres, mres in (("mldivide", c_ml, m_ml), ("mrdivide", c_mr, m_mr), ("minverse", c_mi, m_mi)):
            xs = cres["x"]
            if mres is None and not well:
                continue
            if not all(finite(v) for v in xs):
                be = float("inf")
            elif name == "mldivide":
                be = ax_minus_b_rows(A, to_fr(xs), B, n, nb)
            elif name == "mrdivide":
                be = xa_minus_b(A, to_fr(xs), Brd, mb, n)
            else:
                ident = [[(Fraction(1 if i == j else 0), Fraction(0)) for j in range(n)] for i in range(n)]
                be = ax_minus_b_rows(A, to_fr(xs), ident, n, n)
            hist_add(hist_be, be)
            if mres is None:
                # routine not run on the model for this input: only the backward error speaks
                if well and not be <= bound:
                    be_bad.append((idx, name, be, bound, cond))
                continue
            xm = mres["x"]
            xmax = max(cabsf(v) for v in xm) or 1.0
            fe = max(cabsf((Fraction(a) - u, Fraction(b) - w)) if finite((a, b)) else float("inf")
                     for (a, b), (u, w) in zip(xs, xm)) / xmax
            hist_add(hist_fe, fe)
            if well:
                if not be <= bound:
                    be_bad.append((idx, name, be, bound, cond))
                if not fe <= 1e3 * n * EPS * cond * 10:
                    fe_bad.append((idx, name, fe, cond))
                if be <= bound and fe <= 1e3 * n * EPS * cond * 10:
                    ctx.count(("ok", name, idx), 0)
            dm = mres["det"]
            dc = cres["det"]
            if well and not (finite(dc) and cabsf((Fraction(dc[0]) - dm[0], Fraction(dc[1]) - dm[1])) <= 1e-9 * cabsf(dm)):
                det_bad.append((idx, name, dc, (float(dm[0]), float(dm[1]))))
        if idx % 37 == 0:
            ctx.sample({"n": n, "kind": c["kind"], "rel": c["rel"], "model_pivots": m_lu["piv"], "c_pivots": c_lu["piv"],
                        "first_tie_column": tie, "skeel_cond": cond,
                        "model_det": [float(m_lu["det"][0]), float(m_lu["det"][1])], "c_det": list(c_lu["det"])})
    ctx.traces_validated += len(mlines)

    # (e) invariance under row permutation and power-of-two row scaling, on the real code
    for idx, c in enumerate(cases):
        if c["rel"] == "base" or c["singular"]:
            continue
        b = cases[c["base"]]
        if b["tie"] < b["n"] or c["tie"] < c["n"]:
            stats["invariance_skipped_tie"] += 1
            continue
        stats["invariance_compared"] += 1
        rb, rc_ = results[c["base"]], results[idx]
        pb = rb[4]["piv"]
        pc = rc_[4]["piv"]
        if c["rel"] == "perm":
            pc = [c["perm"][k] for k in pc]       # original row numbers
        same_x = (rb[5]["x"] == rc_[5]["x"])
        if c["rel"] == "scaled":
            # X A = B with A -> D A: X -> X D^-1 ; compare mldivide only (same X)
            pass
        if pb != pc or not same_x:
            inv_bad.append((idx, c["rel"], pb, pc, same_x))

    ctx.extra["square_stats"] = stats
    ctx.extra["backward_error_hist(all nonsingular, rowwise scaled)"] = hist_be
    ctx.extra["forward_error_hist(vs exact model solution)"] = hist_fe
    ctx.extra["backward_error_bound"] = "%.0f * n * 2^-52" % BERR_C

    def case_replay(idx):
        c = cases[idx]
        return {"n": c["n"], "kind": c["kind"], "rel": c["rel"],
                "A": [[[fs(a), fs(b)] for (a, b) in row] for row in c["A"]],
                "B": [[[fs(a), fs(b)] for (a, b) in row] for row in c["B"]],
                "Brd": [[[fs(a), fs(b)] for (a, b) in row] for row in c["Brd"]],
                "harness": "harness/lu_harness.c", "model": "ocaml/drv_lu2.ml variant " + model_variant}

    ctx.obligation("tie:pivot sequence LuModel(%s) vs _vnacommon_lu (n=1..8; %d full, %d prefix, %d tie-skipped)"
                   % (model_variant, stats["pivot_compared"], stats["pivot_prefix_only"], stats["pivot_skipped_tie"]),
                   not pivot_bad, "; ".join("case %d: model %s C %s" % (b[0], b[2], b[3]) for b in pivot_bad[:3]))
    for idx, upto, pm_, pc_ in pivot_bad[:1]:
        r = case_replay(idx)
        r.update({"model_pivots": pm_, "c_pivots": pc_, "compared_prefix": upto})
        violation({"kind": "pivot", "function": "_vnacommon_lu", "class": cases[idx]["kind"]},
                  "_vnacommon_lu chooses pivot rows %s, the model (%s) %s on a %dx%d %s matrix without ties"
                  % (pc_, model_variant, pm_, r["n"], r["n"], r["kind"]), r)
    ctx.obligation("tie:solutions mldivide/mrdivide/minverse vs exact model solution (forward error <= 1e4 n eps cond)",
                   not fe_bad, "; ".join("case %d %s fe=%.3g cond=%.3g" % b for b in fe_bad[:3]))
    for idx, name, fe, cond in fe_bad[:1]:
        r = case_replay(idx)
        r.update({"routine": name, "forward_error": fe, "skeel_cond": cond})
        violation({"kind": "solution", "function": "_vnacommon_" + name},
                  "_vnacommon_%s differs from the exact solution by %.3g (relative) on a well-conditioned %dx%d input"
                  % (name, fe, r["n"], r["n"]), r)
    ctx.obligation("tie:determinant vs model (well-conditioned inputs, 1e-9 relative)", not det_bad,
                   "; ".join("case %d %s C %s model %s" % b for b in det_bad[:3]))
    for idx, name, dc, dm in det_bad[:1]:
        r = case_replay(idx)
        r.update({"routine": name, "c_det": dc, "model_det": dm})
        violation({"kind": "determinant", "function": "_vnacommon_" + name},
                  "_vnacommon_%s returns determinant %s, exact value %s" % (name, dc, dm), r)
    ctx.obligation("support:rowwise backward error <= %g n eps on well-conditioned inputs (%d inputs)"
                   % (BERR_C, stats["wellcond"]), not be_bad,
                   "; ".join("case %d %s be=%.3g" % (b[0], b[1], b[2]) for b in be_bad[:3]))
    for idx, name, be, bound, cond in be_bad[:1]:
        r = case_replay(idx)
        r.update({"routine": name, "rowwise_backward_error": be, "bound": bound, "skeel_cond": cond})
        d25 = cases[idx]["rel"] == "scaled" or cases[idx]["kind"] in ("directed", "graded")
        violation({"kind": "backward-error", "function": "_vnacommon_" + name,
                   "class": "row-scaled" if d25 else cases[idx]["kind"]},
                  "_vnacommon_%s: row-wise backward error %.3g > %.3g on a nonsingular %dx%d %s/%s input (Skeel cond %.3g)"
                  % (name, be, bound, r["n"], r["n"], r["kind"], r["rel"], cond), r)
    ctx.obligation("tie:exactly singular inputs are flagged (det 0: %d, non-finite/huge: %d)"
                   % (stats["singular_det0"], stats["singular_huge"]), not sing_bad,
                   "; ".join("case %d %s %s" % b for b in sing_bad[:3]))
    for idx, name, info in sing_bad[:1]:
        r = case_replay(idx)
        r.update({"routine": name, "observed": str(info)})
        violation({"kind": "singular-unflagged", "function": name},
                  "exactly singular %dx%d %s matrix: %s returns a nonzero determinant and plausible numbers (%s)"
                  % (r["n"], r["n"], r["kind"], name, info), r)
    ctx.obligation("tie:real code invariant under row permutation and 2^k row scaling (%d pairs, %d tie-skipped)"
                   % (stats["invariance_compared"], stats["invariance_skipped_tie"]), not inv_bad,
                   "; ".join("case %d %s base %s this %s same_x=%s" % b for b in inv_bad[:3]))
    for idx, rel, pb, pc, same_x in inv_bad[:1]:
        r = case_replay(idx)
        r.update({"base_A": case_replay(cases[idx]["base"])["A"], "pivots_base": pb, "pivots_this(original rows)": pc,
                  "solution_bitwise_equal": same_x, "perm": cases[idx].get("perm"), "row_exponents": cases[idx].get("exps")})
        violation({"kind": "row-scale" if rel == "scaled" else "row-order", "function": "_vnacommon_lu"},
                  "_vnacommon_lu: %s rows changes the pivot rows chosen (%s -> %s, no ties) -- result depends on row %s"
                  % ("scaling" if rel == "scaled" else "permuting", pb, pc, "scaling" if rel == "scaled" else "order"), r)

    # ------------------------------------------------------------------ 3b. public conversion paths
    conv_check(ctx, exe, violation)

    # ------------------------------------------------------------------ 3c. exactly zero pivots
    zero_pivot_check(ctx, exe, run_both, violation, quick, model_variant)

    # ------------------------------------------------------------------ 3d. determinant = Laplace determinant
    det_laplace_check(ctx, exe, violation, quick)

    # ------------------------------------------------------------------ 3e. magnitude sweep of every tie family
    magnitude_sweep_check(ctx, exe, violation, quick)

    # ------------------------------------------------------------------ 3f. duplicated equations, non-dyadic entries
    duplicated_rows_check(ctx, exe, violation, quick)

    # ------------------------------------------------------------------ 3g. structured inputs, structured networks
    structured_inputs_check(ctx, exe, violation, quick)

    # ------------------------------------------------------------------ 4. least squares
    ls_check(ctx, drv, exe, run_both, violation, quick)

    # ------------------------------------------------------------------ 4b. badly scaled full-rank least squares
    ls_scaled_check(ctx, exe, run_both, violation, quick)

    # ------------------------------------------------------------------ 5. the Householder model, white box
    # QrModel (extracted at Q[i], ocaml/drv_qr.ml) against _vnacommon_qrd / _vnacommon_qrsolve
    # (harness/qr_harness.c): d[], the working array (v_k vectors and R), the transformed B, X, the rank
    c19_qr.qr_model_check(ctx, violation, quick)

    return finish(ctx, broken, found_violation)


def finish(ctx, broken, found_violation):
    for name, detail in broken:
        if found_violation[0]:
            ctx.log("obligation broke (a failing input was found):", name)
        else:
            ctx.unproved("C19:" + name, detail[:300],
                         "square n=1..8 families (random/permuted/scaled/graded/singular), tall least-squares, "
                         "row-scaling invariance on the C code")


# ---------------------------------------------------------------------------- conversions
def conv_check(ctx, exe, violation):
    """Singular matrices handed to conversion functions: non-finite or astronomically large
    output; the DESIGN example of D25 through vnaconv_ztoyn."""
    lines = []
    tags = []
    one = "0x1p+0"
    z = "0x0p+0"
    # S = identity: a = I - S = 0 in stozn / stoyn's b
    for n in (1, 2, 3, 5):
        ident = " ".join("%s %s" % (one if i == j else z, z) for i in range(n) for j in range(n))
        z0 = " ".join("0x1.9p+5 0x0p+0" for _ in range(n))
        lines.append("stozn %d %s %s" % (n, ident, z0))
        tags.append(("stozn", n, "S = I", 1.0))
        zero = " ".join("%s %s" % (z, z) for _ in range(n * n))
        lines.append("ztoyn %d %s" % (n, zero))
        tags.append(("ztoyn", n, "Z = 0", 1.0))
        lines.append("ytozn %d %s" % (n, zero))
        tags.append(("ytozn", n, "Y = 0", 1.0))
        if n >= 2:
            ones = " ".join("%s %s" % (one, z) for _ in range(n * n))
            lines.append("ztoyn %d %s" % (n, ones))
            tags.append(("ztoyn", n, "Z = all ones", 1.0))
            # Z = -z0 on the diagonal makes z + z0 singular in ztosn
            mz = " ".join("%s %s" % ("-0x1.9p+5" if i == j else z, z) for i in range(n) for j in range(n))
            lines.append("ztosn %d %s %s" % (n, mz, z0))
            tags.append(("ztosn", n, "Z = -z0 I", 50.0))
    rc, out, err = vplib.sh([exe], input="\n".join(lines) + "\n", timeout=120, env=ctx.run_env())
    if rc != 0:
        sig = vplib.asan_signature(err) or {"kind": "fault", "error": "exit %d" % rc, "function": None}
        violation(sig, "lu_harness failed on singular conversions: " + err[-300:], {"stderr": err[-3000:], "input": lines})
        return
    bad = []
    for (f, n, what, scale), ln in zip(tags, out.strip().split("\n")):
        r = parse_c_line(ln)
        xs = r["x"]
        ctx.count(("conv-sing", f, n, what))
        nonfin = not all(finite(v) for v in xs)
        big = max((cabsf(v) for v in xs if finite(v)), default=0.0)
        if not (nonfin or big >= HUGE / scale):
            bad.append((f, n, what, xs[:4]))
    ctx.obligation("tie:singular matrices through vnaconv_* come back non-finite or astronomically large (%d calls)" % len(tags),
                   not bad, "; ".join("%s n=%d %s -> %s" % b for b in bad[:3]))
    for f, n, what, xs in bad[:1]:
        violation({"kind": "singular-unflagged", "function": "vnaconv_" + f},
                  "vnaconv_%s (n=%d, %s): singular input returns plausible numbers %s" % (f, n, what, xs),
                  {"function": "vnaconv_" + f, "n": n, "input": what, "output_head": str(xs)})
    ctx.traces_validated += len(tags)
    # a/b -> m reduction through the public API: an exactly singular `a` matrix (missing row or
    # column, duplicated rows) must be reported through the error path (VNAERR_MATH / EDOM)
    sing_a = {"zero column 0": "0 0 0x1p-1 0  0 0 0x1p+1 0", "zero column 1": "0x1p+0 0 0 0  0x1p-2 0 0 0",
              "zero row 0": "0 0 0 0  0x1p-2 0 0x1p+1 0", "zero row 1": "0x1p+0 0 0x1p-1 0  0 0 0 0",
              "duplicate rows": "0x1p+0 0x1p-1 0x1p-1 0  0x1p+0 0x1p-1 0x1p-1 0", "all zero": "0 0 0 0 0 0 0 0",
              "regular": "0x1p+0 0 0x1p-1 0  0x1p-2 0 0x1p+1 0"}
    bmat = "0x1p-3 0 0x1.cp-1 0  0x1.9p-1 0 0x1p-2 0"
    names = sorted(sing_a)
    rc, out, err = vplib.sh([exe], input="".join("add_a %s %s\n" % (sing_a[k], bmat) for k in names), timeout=60,
                            env=ctx.run_env())
    if rc != 0:
        sig = vplib.asan_signature(err) or {"kind": "fault", "error": "exit %d" % rc, "function": None}
        violation(sig, "lu_harness failed on add_a: " + err[-300:], {"stderr": err[-3000:]})
    else:
        bad_a = []
        for k, ln in zip(names, out.strip().split("\n")):
            ctx.count(("add_a", k))
            want = "add_a rc=0 callbacks=0 category=none" if k == "regular" else "add_a rc=-1 callbacks=1 category=MATH"
            if ln.strip() != want:
                bad_a.append((k, ln.strip()))
        ctx.obligation("tie:singular 'a' matrix in vnacal_new_add_through is reported as VNAERR_MATH (%d inputs)" % (len(names) - 1),
                       not bad_a, "; ".join("%s -> %s" % b for b in bad_a))
        for k, ln in bad_a[:1]:
            violation({"kind": "singular-unreported", "function": "vnacal_new_add_through", "class": k},
                      "vnacal_new_add_through with a singular 'a' matrix (%s) is not reported: %s" % (k, ln),
                      {"function": "vnacal_new_add_through", "type": "T8 2x2, 1 frequency", "a": sing_a[k], "b": bmat,
                       "observed": ln, "expected": "rc=-1, one error callback, VNAERR_MATH (errno EDOM)"})
        ctx.traces_validated += len(names)
    # the DESIGN example of D25 (decimal entries; judged by the row-scaling-invariant backward error)
    A = [[(Fraction(1e-8), Fraction(0)), (Fraction(1e8), Fraction(0))], [(Fraction(1), Fraction(0)), (Fraction(1), Fraction(0))]]
    rc, out, err = vplib.sh([exe], input="ztoyn 2 %s\n" % mat_str(A, hx), timeout=60, env=ctx.run_env())
    r = parse_c_line(out.strip().split("\n")[0])
    ident = [[(Fraction(1 if i == j else 0), Fraction(0)) for j in range(2)] for i in range(2)]
    be = ax_minus_b_rows(A, to_fr(r["x"]), ident, 2, 2)
    ctx.count(("d25-design-example",))
    ctx.extra["ztoyn [[1e-8,1e8],[1,1]]"] = {"y": [list(v) for v in r["x"]], "rowwise_backward_error": be}
    ok = be <= BERR_C * 2 * EPS
    ctx.obligation("support:vnaconv_ztoyn [[1e-8,1e8],[1,1]] row-wise backward error", ok, "be=%.3g y11=%r" % (be, r["x"][0]))
    if not ok:
        violation({"kind": "backward-error", "function": "vnaconv_ztoyn", "class": "row-scaled"},
                  "vnaconv_ztoyn([[1e-8,1e8],[1,1]]) returns y11 = %r (exact about -1e-8): row-wise backward error %.3g"
                  % (r["x"][0][0], be),
                  {"function": "vnaconv_ztoyn", "z": [["1e-8", "1e8"], ["1", "1"]], "y": [list(v) for v in r["x"]],
                   "rowwise_backward_error": be, "expected_y11": "-1e-8 (to 8 digits)"})



# ---------------------------------------------------------------------------- exact zero pivots
def _unit_pow2(v):
    """v = (re, im) Fractions: one part zero, the other +-2^e"""
    a, b = v
    if (a == 0) == (b == 0):
        return False
    x = abs(a if b == 0 else b)
    return (x.numerator == 1 and x.denominator & (x.denominator - 1) == 0) or \
           (x.denominator == 1 and x.numerator & (x.numerator - 1) == 0)


def _nice(v, bits=12):
    """dyadic with numerator and denominator below 2^bits: products of two such numbers and sums of
    up to 8 products are exact in binary64"""
    for x in v:
        d = x.denominator
        if d & (d - 1) or d > 2 ** bits or abs(x.numerator) > 2 ** bits:
            return False
    return True


def gen_exact_lu(rng, n, j):
    """A = P L U with unit lower triangular L (entries 0 or unit * 2^-k), upper triangular U whose
    diagonal is +-2^e before column j and, for j < n, exactly 0 at (j, j): column j of A depends on
    columns 0..j-1, which are independent.  j = n gives a nonsingular matrix (control)."""
    units = [(Fraction(1), Fraction(0)), (Fraction(-1), Fraction(0)), (Fraction(0), Fraction(1)), (Fraction(0), Fraction(-1))]
    Z = (Fraction(0), Fraction(0))
    L = [[Z] * n for _ in range(n)]
    U = [[Z] * n for _ in range(n)]
    for i in range(n):
        L[i][i] = (Fraction(1), Fraction(0))
        for k in range(i):
            if rng.random() < 0.75:
                u = rng.choice(units)
                e = Fraction(1, 2 ** rng.randint(0, 2))
                L[i][k] = (u[0] * e, u[1] * e)
        for c in range(i, n):
            if c == i:
                if i == j:
                    U[i][i] = Z
                elif i < j or j == n:
                    u = rng.choice(units[:2] if rng.random() < 0.7 else units)
                    e = Fraction(2) ** rng.randint(-2, 3)
                    U[i][i] = (u[0] * e, u[1] * e)
                else:
                    U[i][i] = (Fraction(rng.randint(-3, 3)), Fraction(rng.randint(-1, 1)))
            else:
                U[i][c] = (Fraction(rng.randint(-3, 3)), Fraction(rng.randint(-2, 2)) if rng.random() < 0.5 else Fraction(0))
    A = [[Z] * n for _ in range(n)]
    for i in range(n):
        for c in range(n):
            acc = Z
            for k in range(n):
                acc = cadd(acc, cmul(L[i][k], U[k][c]))
            A[i][c] = acc
    perm = list(range(n))
    rng.shuffle(perm)
    return [A[p] for p in perm]


def zero_pivot_check(ctx, exe, run_both, violation, quick, variant):
    """LuPartial.lu_c against the C routines on matrices whose elimination is exact in binary64 and
    whose first dependent column stands at every position j = 0..n-1 (plus nonsingular controls):
      * stop column: zero pivot at j < n-1 -> the C determinant is NaN, the rows below j are NaN from
        column j on, row_index and the columns before j equal the model's last finite state exactly;
        zero pivot at j = n-1 -> everything finite, determinant exactly 0, whole array equal;
      * mldivide / mrdivide / minverse: model None <-> the C solution is non-finite; determinant
        rejected by `d == 0.0 || !isnormal(cabs(d))`; which outcomes the bare `d == 0.0` accepts;
      * the same matrices as `a` matrix of vnacal_new_add_mapped_matrix (n x n T8): VNAERR_MATH;
        through vnaconv_ztoyn: non-finite output."""
    rng = ctx.rng
    want = []
    for n in range(1, 7 if quick else 9):
        for j in range(n + 1):
            reps = (2 if n <= 4 else 1) if quick else 6
            for _ in range(reps):
                want.append((n, j))
    cands = []
    # rejection sampling on the model: generate several candidates per wanted (n, j)
    tries = 6
    mlines = []
    for (n, j) in want:
        for _ in range(tries):
            A = gen_exact_lu(rng, n, j)
            cands.append((n, j, A))
            mlines.append("luc %s %d %s" % (variant, n, mat_str(A, fs)))
            mlines.append("lu %s %d %s" % (variant, n, mat_str(A, fs)))
    ml, _ = run_both(mlines, ["lu 1 0x1p+0 0x0p+0"])
    if ml is None:
        return
    chosen = []
    for k, (n, j, A) in enumerate(cands):
        if chosen and chosen[-1][0] == k // tries:
            continue        # one accepted candidate per wanted (n, j) slot
        mc = parse_luc_line(ml[2 * k])
        mt = parse_m_line(ml[2 * k + 1])
        stop = mc["stop"]
        expect = None if j >= n - 1 else j
        if stop != expect:
            continue        # the leading columns happened to be dependent
        if j < n and mc["det"] is not None and mc["det"] != (0, 0):
            continue
        if j == n and (mc["det"] is None or mc["det"] == (0, 0)):
            continue
        upto = min(j, n)
        if first_tie_column(mt["cands"][:upto], zero_is_tie=False) < upto:
            continue
        arr = mc["a"]
        if not all(_nice(v) for v in arr) or not all(_nice(v) for row in A for v in row):
            continue
        if not all(_unit_pow2(arr[c * n + c]) for c in range(upto)):
            continue
        chosen.append((k // tries, n, j, A, mc))
    got = {(n, j) for (_, n, j, _, _) in chosen}
    missing = sorted(set(want) - got)
    ctx.extra["zero_pivot_positions_covered"] = sorted("n=%d j=%s" % (n, j if j < n else "none") for (n, j) in got)
    if any(n <= 5 for (n, j) in missing):
        raise vplib.BuildError("generator: no exact-elimination matrix accepted for %s" % missing[:5])
    mlines, clines = [], []
    for (_, n, j, A, mc) in chosen:
        B = rand_matrix(rng, n, 1, 8, 1)
        Brd = rand_matrix(rng, 1, n, 8, 1)
        for op, args_m, args_c in (
                ("mldivide", "%d 1 %s %s" % (n, mat_str(A, fs), mat_str(B, fs)), "%d 1 %s %s" % (n, mat_str(A, hx), mat_str(B, hx))),
                ("mrdivide", "1 %d %s %s" % (n, mat_str(Brd, fs), mat_str(A, fs)), "1 %d %s %s" % (n, mat_str(Brd, hx), mat_str(A, hx))),
                ("minverse", "%d %s" % (n, mat_str(A, fs)), "%d %s" % (n, mat_str(A, hx)))):
            mlines.append("%s_c %s %s" % (op, variant, args_m))
            clines.append("%s %s" % (op, args_c))
        clines.append("lua %d %s" % (n, mat_str(A, hx)))
        clines.append("ztoyn %d %s" % (n, mat_str(A, hx)))
        ident = [[(Fraction(1 if r == c else 0), Fraction(0)) for c in range(n)] for r in range(n)]
        clines.append("add_an %d %s %s" % (n, mat_str(A, hx), mat_str(ident, hx)))
    ml, cl = run_both(mlines, clines)
    if ml is None:
        return
    bad = []            # (case index, what)
    stats = {"stop_before_last(NaN)": 0, "stop_in_last_column(det 0)": 0, "nonsingular_control": 0,
             "solutions_all_nonfinite": 0, "eq0_test_would_accept_singular": 0}

    def rejected_full(d):
        # determinant == 0.0 || !isnormal(cabs(determinant))
        if d == (0.0, 0.0):
            return True
        if not finite(d):
            return True
        m = math.hypot(d[0], d[1])
        return not (math.isfinite(m) and m >= 2.2250738585072014e-308)

    for q, (_, n, j, A, mc) in enumerate(chosen):
        m3 = [parse_mc_line(ml[3 * q + t]) for t in range(3)]
        c_ml, c_mr, c_mi, c_lua, c_zy = (parse_c_line(x) for x in cl[6 * q:6 * q + 5])
        c_add = cl[6 * q + 5].strip()
        ctx.count(("zero-pivot", n, j), 6)
        singular = j < n
        stop = mc["stop"]
        arr_c = c_lua["x"]
        arr_m = mc["a"]
        # ---- the factorisation itself
        if c_lua["piv"] != mc["piv"]:
            bad.append((q, "row_index: C %s, model %s" % (c_lua["piv"], mc["piv"])))
        upto = n if stop is None else stop
        for r in range(n):
            for c in range(upto):
                v = arr_c[r * n + c]
                if not (finite(v) and (Fraction(v[0]), Fraction(v[1])) == arr_m[r * n + c]):
                    bad.append((q, "working array (%d,%d): C %r, model %s" % (r, c, v, arr_m[r * n + c])))
        if stop is None:
            if singular:
                stats["stop_in_last_column(det 0)"] += 1
                if c_lua["det"] != (0.0, 0.0):
                    bad.append((q, "zero pivot in the last column: C determinant %r, model exactly 0" % (c_lua["det"],)))
            else:
                stats["nonsingular_control"] += 1
                if not (finite(c_lua["det"]) and (Fraction(c_lua["det"][0]), Fraction(c_lua["det"][1])) == mc["det"]):
                    bad.append((q, "nonsingular exact elimination: C determinant %r, model %s" % (c_lua["det"], mc["det"])))
        else:
            stats["stop_before_last(NaN)"] += 1
            if finite(c_lua["det"]):
                bad.append((q, "zero pivot in column %d of %d: C determinant %r is finite, model: NaN" % (stop, n, c_lua["det"])))
            if arr_c[stop * n + stop] != (0.0, 0.0):
                bad.append((q, "pivot (%d,%d): C %r, model exactly 0" % (stop, stop, arr_c[stop * n + stop])))
            for r in range(stop + 1, n):
                for c in range(stop, n):
                    if finite(arr_c[r * n + c]):
                        bad.append((q, "entry (%d,%d) below a zero pivot in column %d is finite in C: %r" % (r, c, stop, arr_c[r * n + c])))
        # ---- the solvers
        for name, mres, cres in (("mldivide", m3[0], c_ml), ("mrdivide", m3[1], c_mr), ("minverse", m3[2], c_mi)):
            dc = cres["det"]
            if (mres["det"] is None) != (not finite(dc)):
                bad.append((q, "%s: C determinant %r, model %s" % (name, dc, "NaN" if mres["det"] is None else mres["det"])))
            elif mres["det"] is not None and (Fraction(dc[0]), Fraction(dc[1])) != mres["det"]:
                bad.append((q, "%s: C determinant %r, model %s" % (name, dc, mres["det"])))
            if singular != rejected_full(dc):
                bad.append((q, "%s: determinant %r %s by `== 0.0 || !isnormal(cabs())` on a %s matrix"
                            % (name, dc, "rejected" if rejected_full(dc) else "accepted", "singular" if singular else "nonsingular")))
            if singular and dc != (0.0, 0.0):
                stats["eq0_test_would_accept_singular"] += 1
            xs = cres["x"]
            if mres["x"] is None:
                nf = [not finite(v) for v in xs]
                if all(nf):
                    stats["solutions_all_nonfinite"] += 1
                else:
                    bad.append((q, "%s: model says non-finite solution, C returns finite numbers among %r" % (name, xs[:3])))
            else:
                # the factorisation is exact by construction; the substitution loops may round (their
                # intermediate values are not bounded by the generator): exact equality is counted, 1e-9
                # relative is required
                xm = mres["x"]
                xmax = max(cabsf(v) for v in xm) or 1.0
                if all(finite(v) for v in xs) and [(Fraction(a), Fraction(b)) for (a, b) in xs] == xm:
                    stats["control_solutions_bitwise_exact"] = stats.get("control_solutions_bitwise_exact", 0) + 1
                elif not all(finite(v) for v in xs) or \
                        max(cabsf((Fraction(a) - u, Fraction(b) - w)) for (a, b), (u, w) in zip(xs, xm)) > 1e-9 * xmax:
                    bad.append((q, "%s: exact elimination, C solution %r differs from the model's %s" % (name, xs[:3], xm[:3])))
        # ---- public paths
        if singular:
            if all(finite(v) for v in c_zy["x"]):
                bad.append((q, "vnaconv_ztoyn of a singular matrix returns finite numbers"))
            if c_add != "add_an rc=-1 callbacks=1 category=MATH":
                bad.append((q, "vnacal_new_add_mapped_matrix with this singular 'a' matrix: %s" % c_add))
        elif c_add != "add_an rc=0 callbacks=0 category=none":
            bad.append((q, "vnacal_new_add_mapped_matrix with a nonsingular 'a' matrix: %s" % c_add))
        if q % 11 == 0:
            ctx.sample({"zero_pivot_case": "n=%d first dependent column %s" % (n, j if j < n else "none"),
                        "model_stop": stop, "c_det": list(c_lua["det"]), "c_row_index": c_lua["piv"], "add_an": c_add})
    ctx.traces_validated += len(mlines) + len(clines)
    ctx.extra["zero_pivot_stats"] = stats
    ctx.obligation("tie:LuPartial.lu_c vs _vnacommon_lu/mldivide/mrdivide/minverse on exact eliminations, first zero pivot at every "
                   "column position (n=1..%d; %d NaN, %d det 0, %d nonsingular); callers report VNAERR_MATH"
                   % (max(n for (_, n, _, _, _) in chosen), stats["stop_before_last(NaN)"], stats["stop_in_last_column(det 0)"],
                      stats["nonsingular_control"]),
                   not bad, "; ".join("case %d: %s" % b for b in bad[:3]))
    for q, what in bad[:1]:
        (_, n, j, A, mc) = chosen[q]
        violation({"kind": "zero-pivot", "function": "_vnacommon_lu", "class": "column %s of %d" % (j if j < n else "none", n)},
                  "exact elimination with the first zero pivot in column %s of a %dx%d matrix: %s" % (j if j < n else "none", n, n, what),
                  {"n": n, "first_dependent_column": j if j < n else None,
                   "A": [[[fs(a), fs(b)] for (a, b) in row] for row in A], "model": "LuPartial.lu_c (drv_lu2 luc)",
                   "model_stop": mc["stop"], "observed": what, "harness": "harness/lu_harness.c lua / mldivide / add_an"})


def exact_det(A):
    """determinant of a square matrix of Fraction pairs by fraction Gaussian elimination (independent of
    the Coq development and of the LU model)."""
    n = len(A)
    M = [list(r) for r in A]
    det = (Fraction(1), Fraction(0))
    Z = (Fraction(0), Fraction(0))
    for c in range(n):
        p = next((r for r in range(c, n) if M[r][c] != Z), None)
        if p is None:
            return Z
        if p != c:
            M[p], M[c] = M[c], M[p]
            det = (-det[0], -det[1])
        det = cmul(det, M[c][c])
        for r in range(c + 1, n):
            if M[r][c] != Z:
                f = cdivq(M[r][c], M[c][c])
                M[r] = [csub(M[r][k], cmul(f, M[c][k])) for k in range(n)]
    return det


def _coq_qi(v):
    return "(mkqi (%d) %d (%d) %d)" % (v[0].numerator, v[0].denominator, v[1].numerator, v[1].denominator)


def det_laplace_check(ctx, exe, violation, quick):
    """Tie of the determinant theorems (LuDetProofs.lu_det_all_n, lu_c_det_is_det), n = 1..8:
    (a) LuDetModel.det_lap (Laplace expansion, the specification) and the determinant accumulator of the
        LU model, both evaluated by Coq at Q[i], must equal the exact rational determinant computed here by
        fraction elimination;
    (b) the value _vnacommon_lu returns on the same matrix: exactly singular with the first dependent column
        last => exactly 0; dependent column earlier => NaN; nonsingular => the exact determinant within
        1e-9 relative (the eliminations of these P L U inputs are exact or nearly so), and BITWISE equal
        when every pivot the model meets is +-2^e or +-i 2^e (then every operation is exact in binary64)."""
    rng = ctx.rng
    reps = 1 if quick else 3
    cases = []
    for n in range(1, 9):
        for r in range(reps):
            cases.append((n, n, gen_exact_lu(rng, n, n)))
        if n >= 2:
            j = rng.randint(0, n - 1)
            cases.append((n, j, gen_exact_lu(rng, n, j)))
    # small random integer matrices as well (no structure)
    for n in (2, 3, 4, 5):
        cases.append((n, None, [[(Fraction(rng.randint(-4, 4)), Fraction(rng.randint(-2, 2))) for _ in range(n)]
                                for _ in range(n)]))
    body = ["Require Import List ZArith QArith Qcanon.", "Import ListNotations.",
            "Require Import LV.Base.CField LV.Base.QcI LV.Lin.MatL LV.Lin.LuModel LV.Lin.LuQI2 LV.Lin.LuDetModel."]
    exp = []
    for k, (n, j, A) in enumerate(cases):
        d = exact_det(A)
        exp.append(d)
        rows = "[" + "; ".join("[" + "; ".join(_coq_qi(v) for v in row) + "]" for row in A) + "]"
        body.append("Definition a%d : mat QIF := %s." % (k, rows))
        body.append("Eval vm_compute in (qi_eqb (det_lap QIF %d a%d) %s, qi_eqb (lu_d QIF Qc (q2_lu_recip a%d %d)) %s)."
                    % (n, k, _coq_qi(d), k, n, _coq_qi(d)))
    rc, out, err = ctx.coq_eval("c19_det_cases", "\n".join(body) + "\n", timeout=600)
    res = re.findall(r"=\s*\(\s*(true|false)\s*,\s*(true|false)\s*\)", out)
    ok_eval = rc == 0 and len(res) == len(cases)
    ctx.obligation("tie:det_lap evaluated by Coq (%d matrices, n = 1..8)" % len(cases), ok_eval,
                   "" if ok_eval else (err or out)[-300:])
    bad_spec, bad_model = [], []
    if ok_eval:
        for k, (a, b) in enumerate(res):
            ctx.count(("det_lap", cases[k][0], cases[k][1]))
            if a != "true":
                bad_spec.append(k)
            if b != "true":
                bad_model.append(k)
    ctx.obligation("tie:Laplace determinant (Coq det_lap) = exact rational determinant", ok_eval and not bad_spec,
                   "cases %s" % bad_spec[:3])
    ctx.obligation("tie:determinant of the LU model = exact rational determinant (theorem c19_lu_det_QI)",
                   ok_eval and not bad_model, "cases %s" % bad_model[:3])
    # the C code
    clines = ["lu %d %s" % (n, mat_str(A, hx)) for (n, j, A) in cases]
    rcc, cout, cerr = vplib.sh([exe], input="\n".join(clines) + "\n", timeout=300, env=ctx.run_env())
    cl = cout.strip().split("\n") if rcc == 0 else []
    okc = rcc == 0 and len(cl) == len(cases)
    ctx.obligation("tie:lu_harness ran on the determinant cases", okc, cerr[-200:])
    bad = []
    nexact = 0
    if okc:
        for k, ((n, j, A), line) in enumerate(zip(cases, cl)):
            dc = parse_c_line(line).get("det")
            d = exp[k]
            ctx.traces_validated += 1
            if d == (0, 0):
                if j is not None and j < n - 1:
                    good = dc is not None and (dc[0] != dc[0] or dc[1] != dc[1])      # NaN
                elif j is not None:
                    good = dc == (0.0, 0.0)
                else:
                    good = dc is not None and (dc == (0.0, 0.0) or not finite(dc) or cabsf(dc) < 1e-9)
            else:
                df = (float(d[0]), float(d[1]))
                good = dc is not None and finite(dc) and cabsf((dc[0] - df[0], dc[1] - df[1])) <= 1e-9 * cabsf(df)
                if good and j == n and (Fraction(dc[0]), Fraction(dc[1])) == d:
                    nexact += 1
            if not good:
                bad.append((k, n, j, dc, d))
    ctx.obligation("tie:determinant returned by _vnacommon_lu = exact determinant (0 / NaN / 1e-9 relative; %d bitwise exact)"
                   % nexact, okc and not bad, "; ".join("case %d n=%d: C %s exact %s" % (b[0], b[1], b[3], b[4]) for b in bad[:3]))
    for k, n, j, dc, d in bad[:1]:
        violation({"kind": "determinant", "function": "_vnacommon_lu"},
                  "_vnacommon_lu returns determinant %s for a %dx%d matrix whose exact determinant is %s"
                  % (dc, n, n, (str(d[0]), str(d[1]))),
                  {"n": n, "A": [[(str(a), str(b)) for (a, b) in row] for row in cases[k][2]], "first_dependent_column": j,
                   "c_det": str(dc), "exact_det": [str(d[0]), str(d[1])]})
    if ok_eval and (bad_spec or bad_model):
        k = (bad_spec or bad_model)[0]
        violation({"kind": "determinant-model", "function": "det_lap"},
                  "Coq determinant (Laplace / LU model) differs from the exact determinant on a %dx%d matrix" % (cases[k][0], cases[k][0]),
                  {"n": cases[k][0], "A": [[(str(a), str(b)) for (a, b) in row] for row in cases[k][2]],
                   "exact_det": [str(exp[k][0]), str(exp[k][1])]})


# ---------------------------------------------------------------------------- structured inputs
def _fr(m):
    return [[(Fraction(a), Fraction(b)) for (a, b) in row] for row in m]


def _mm(A, B):
    n, k, m = len(A), len(B), len(B[0])
    Z = (Fraction(0), Fraction(0))
    out = [[Z] * m for _ in range(n)]
    for i in range(n):
        for j in range(m):
            acc = Z
            for t in range(k):
                if A[i][t] != Z and B[t][j] != Z:
                    acc = cadd(acc, cmul(A[i][t], B[t][j]))
            out[i][j] = acc
    return out


def _entry(rng, kind=None):
    """a nonzero structured entry: purely real, purely imaginary, or (less often) both parts nonzero"""
    kind = kind or rng.choice(("re", "re", "im", "im", "cx"))
    v = rng.choice([-9, -8, -5, -3, -2, -1, 1, 2, 3, 4, 7, 8])
    w = rng.choice([-8, -4, -3, -1, 1, 2, 5, 6])
    return {"re": (Fraction(v), Fraction(0)), "im": (Fraction(0), Fraction(v)), "cx": (Fraction(v), Fraction(w))}[kind]


def _structured_matrix(rng, n, shape):
    """n x n with exact zeros in patterned positions; entries purely real / purely imaginary / complex"""
    Z = (Fraction(0), Fraction(0))
    A = [[Z] * n for _ in range(n)]
    perm = list(range(n))
    if shape == "upper":
        for i in range(n):
            for j in range(i, n):
                if j == i or rng.random() < 0.6:
                    A[i][j] = _entry(rng)
    elif shape == "lower":
        for i in range(n):
            for j in range(0, i + 1):
                if j == i or rng.random() < 0.6:
                    A[i][j] = _entry(rng)
    elif shape == "banded":
        for i in range(n):
            for j in range(max(0, i - 1), min(n, i + 2)):
                A[i][j] = _entry(rng, "re" if i == j else None)
            A[i][i] = (A[i][i][0] * 4, Fraction(rng.choice([0, 0, 3])))
    elif shape == "perm":
        rng.shuffle(perm)
        for i in range(n):
            A[i][perm[i]] = _entry(rng)
    elif shape == "perm_plus":
        rng.shuffle(perm)
        for i in range(n):
            A[i][perm[i]] = _entry(rng)
            A[i][perm[i]] = (A[i][perm[i]][0] * 5, A[i][perm[i]][1] * 5)
            if n > 1 and rng.random() < 0.7:
                A[i][rng.randrange(n)] = _entry(rng) if rng.random() < 0.5 else A[i][perm[i]]
    elif shape == "sparse":
        for i in range(n):
            for j in range(n):
                if rng.random() < 0.4:
                    A[i][j] = _entry(rng)
        for i in range(n):
            A[i][i] = _entry(rng, rng.choice(("re", "im")))
    elif shape == "imag":          # every entry purely imaginary (a lossless reactance matrix)
        for i in range(n):
            for j in range(n):
                if i == j or rng.random() < 0.7:
                    A[i][j] = _entry(rng, "im")
    elif shape == "real":
        for i in range(n):
            for j in range(n):
                if i == j or rng.random() < 0.7:
                    A[i][j] = _entry(rng, "re")
    return A


def _structured_rhs(rng, rows, cols):
    """rows x cols; each ROW has leading zeros, then a first nonzero that is purely imaginary or purely real,
    then mixed entries, possibly trailing zeros; each COLUMN likewise for the transposed use"""
    Z = (Fraction(0), Fraction(0))
    B = [[Z] * cols for _ in range(rows)]
    for i in range(rows):
        lead = rng.randrange(cols)
        trail = rng.randrange(cols - lead)
        first = True
        for j in range(lead, cols - trail):
            if first:
                B[i][j] = _entry(rng, rng.choice(("im", "im", "re")))
                first = False
            elif rng.random() < 0.75:
                B[i][j] = _entry(rng)
    return B


def _max_err(xs, exact, rows, cols):
    """max |x - x*| and max |x*| (xs row-major float pairs, exact a matrix of Fraction pairs)"""
    worst = mag = 0.0
    for i in range(rows):
        for j in range(cols):
            e = exact[i][j]
            ef = (float(e[0]), float(e[1]))
            v = xs[i * cols + j] if i * cols + j < len(xs) else (float("nan"), float("nan"))
            d = cabsf((v[0] - ef[0], v[1] - ef[1]))
            if not (d <= worst):
                worst = d
            mag = max(mag, cabsf(ef))
    return worst, mag


def _exact_skeel(A, Ainv):
    n = len(A)
    return skeel_cond(A, [v for row in Ainv for v in row], n)


def _networks(rng):
    """physically structured multiports with exact Gaussian-rational parameters:
    (name, kind 'Y' | 'Z' | 'S', matrix, singular?) -- Y or Z singular while I + z0 Y resp. Z + z0 is regular"""
    def imp():                       # an impedance with positive real part or purely reactive
        c = rng.random()
        if c < 0.35:
            return (Fraction(rng.choice([5, 10, 25, 50, 75, 100, 200])), Fraction(0))
        if c < 0.6:
            return (Fraction(0), Fraction(rng.choice([-200, -80, -25, -8, 8, 25, 60, 150])))
        return (Fraction(rng.choice([5, 10, 25, 50, 100])), Fraction(rng.choice([-100, -25, -8, 8, 25, 50])))
    one = (Fraction(1), Fraction(0))

    def adm(z):
        return cdivq(one, z)
    Z0 = (Fraction(0), Fraction(0))

    def from_branches(n, branches, shunts):
        """nodal admittance matrix: branches (i, j, y) between ports, shunts (i, y) to ground"""
        Y = [[Z0] * n for _ in range(n)]
        for (i, j, y) in branches:
            Y[i][i] = cadd(Y[i][i], y)
            Y[j][j] = cadd(Y[j][j], y)
            Y[i][j] = csub(Y[i][j], y)
            Y[j][i] = csub(Y[j][i], y)
        for (i, y) in shunts:
            Y[i][i] = cadd(Y[i][i], y)
        return Y
    nets = []
    nets.append(("series element (2-port)", "Y", from_branches(2, [(0, 1, adm(imp()))], []), True))
    nets.append(("series reactance -8j (2-port)", "Y", from_branches(2, [(0, 1, adm((Fraction(0), Fraction(-8))))], []), True))
    nets.append(("delta (3-port)", "Y", from_branches(3, [(0, 1, adm(imp())), (1, 2, adm(imp())), (0, 2, adm(imp()))], []), True))
    nets.append(("floating pairs (4-port)", "Y", from_branches(4, [(0, 1, adm(imp())), (2, 3, adm(imp()))], []), True))
    nets.append(("ring (4-port)", "Y", from_branches(4, [(0, 1, adm(imp())), (1, 2, adm(imp())), (2, 3, adm(imp())), (3, 0, adm(imp()))], []), True))
    nets.append(("series element + one shunt (3-port star leg)", "Y",
                 from_branches(3, [(0, 1, adm(imp())), (1, 2, adm(imp()))], [(2, adm(imp()))]), False))
    nets.append(("pi network (2-port)", "Y", from_branches(2, [(0, 1, adm(imp()))], [(0, adm(imp())), (1, adm(imp()))]), False))
    z = imp()
    nets.append(("shunt element (2-port)", "Z", [[z, z], [z, z]], True))
    z1, z2, z3 = imp(), imp(), imp()
    nets.append(("T network (2-port)", "Z", [[cadd(z1, z3), z3], [z3, cadd(z2, z3)]], False))
    z = imp()
    nets.append(("common shunt (3-port)", "Z", [[z] * 3 for _ in range(3)], True))
    # Z = 50 + jX on the diagonal in a 50 ohm system: Z - z0 has a purely imaginary diagonal
    x1, x2, xm = rng.choice([25, -8, 40]), rng.choice([-25, 8, 60]), rng.choice([5, -3, 0])
    nets.append(("50 + jX diagonal (2-port)", "Z", [[(Fraction(50), Fraction(x1)), (Fraction(0), Fraction(xm))],
                                                   [(Fraction(0), Fraction(xm)), (Fraction(50), Fraction(x2))]], False))
    nets.append(("reactance first row -8j (3-port)", "Z",
                 [[(Fraction(0), Fraction(-8)), (Fraction(0), Fraction(3)), Z0],
                  [(Fraction(0), Fraction(3)), (Fraction(75), Fraction(0)), (Fraction(10), Fraction(0))],
                  [Z0, (Fraction(10), Fraction(0)), (Fraction(50), Fraction(25))]], False))
    k = rng.choice([2, 3, 5])
    d = Fraction(k * k + 1)
    nets.append(("ideal transformer %d:1" % k, "S", [[(Fraction(k * k - 1) / d, Fraction(0)), (Fraction(2 * k) / d, Fraction(0))],
                                                     [(Fraction(2 * k) / d, Fraction(0)), (Fraction(1 - k * k) / d, Fraction(0))]], True))
    return nets


def structured_inputs_check(ctx, exe, violation, quick):
    """STRUCTURED inputs for every routine (review of seeding round 5: random complex matrices never have an entry
    with an exactly zero real part next to a nonzero imaginary part, nor a singular Y with a regular I + z0 Y).
    (A) _vnacommon_lu / _mldivide / _mrdivide / _minverse / _qrsolve and vnaconv_ztoyn / ytozn / ztosn / ytosn on
        nonsingular matrices with exact zeros in patterned positions (upper, lower, banded, permutation-like, sparse)
        and entries that are purely real or purely imaginary; right-hand sides whose rows have leading zeros, a first
        nonzero element that is purely imaginary, trailing zeros.  Oracle: the defining linear system solved exactly
        over the Gaussian rationals; accepted: |x - x*| <= 1e-9 max|x*| on inputs of exact Skeel condition <= 1e4, and
        for mldivide / mrdivide / minverse the residual of the defining system <= 1e3 n eps x (|B_ik| + row norm of A x
        largest |X| of the column) (property text: residual proportional to machine precision times the scale).
    (B) vnaconv_ytosn / ztosn / ytozin / ztozin / stozin / ytozn / ztoyn on physically structured networks (series
        element, delta, floating pairs, ring, shunt element, common shunt, T, pi, reactive diagonals, ideal
        transformer): Y or Z singular while the function's own divisor (I + z0 Y, Z + z0) is regular.  Oracle: S =
        (I - z0 Y)(I + z0 Y)^-1 resp. (Z - z0)(Z + z0)^-1 (equal real z0), zin_i = 1 / W_ii - z0_i with W = Y (I + Z0 Y)^-1
        resp. (Z + Z0)^-1 (any z0), computed exactly; 1e-9 relative.  Where the function's divisor IS singular
        (ytozn of a series element, stozn of an ideal transformer) the output must be non-finite or astronomically
        large."""
    rng = ctx.rng
    Z = (Fraction(0), Fraction(0))
    one = (Fraction(1), Fraction(0))
    lines, meta = [], []          # meta: (name, what, rows, cols, exact matrix or None, replay, residual spec)
    shapes = ("upper", "lower", "banded", "perm", "perm_plus", "sparse", "imag", "real")
    nmax = 5 if quick else 8
    reps = 2 if quick else 8
    ident = lambda n: [[one if i == j else Z for j in range(n)] for i in range(n)]
    for n in range(1, nmax + 1):
        for shape in shapes:
            for _ in range(reps):
                for attempt in range(20):
                    A = _structured_matrix(rng, n, shape)
                    Ainv = exact_inverse(A)
                    if Ainv is not None and _exact_skeel(A, Ainv) <= 1e4:
                        break
                else:
                    continue
                B = _structured_rhs(rng, n, 2)
                Bt = [list(c) for c in zip(*_structured_rhs(rng, n, 2))]       # columns structured as well
                Brd = _structured_rhs(rng, 2, n)
                rp = {"n": n, "shape": shape, "A": [[(str(a), str(b)) for (a, b) in row] for row in A]}
                fa = _fmat(A)
                lines.append("lu %d %s" % (n, fa))
                meta.append(("_vnacommon_lu", "det", 1, 1, [[exact_det(A)]], rp, None))
                for Bx, tag in ((B, "B"), ([list(r) for r in zip(*Bt)], "B'")):
                    lines.append("mldivide %d 2 %s %s" % (n, fa, _fmat(Bx)))
                    meta.append(("_vnacommon_mldivide", "x", n, 2, _mm(Ainv, Bx), dict(rp, B=[[(str(a), str(b)) for (a, b) in row] for row in Bx]), ("ax", A, Bx)))
                lines.append("mrdivide 2 %d %s %s" % (n, _fmat(Brd), fa))
                meta.append(("_vnacommon_mrdivide", "x", 2, n, _mm(Brd, Ainv), dict(rp, B=[[(str(a), str(b)) for (a, b) in row] for row in Brd]), ("xa", A, Brd)))
                lines.append("minverse %d %s" % (n, fa))
                meta.append(("_vnacommon_minverse", "x", n, n, Ainv, rp, ("ax", A, ident(n))))
                lines.append("qrsolve %d %d 2 %s %s" % (n, n, fa, _fmat(B)))
                meta.append(("_vnacommon_qrsolve", "x", n, 2, _mm(Ainv, B), dict(rp, B=[[(str(a), str(b)) for (a, b) in row] for row in B]), None))
                lines.append("ztoyn %d %s" % (n, fa))
                meta.append(("vnaconv_ztoyn", "x", n, n, Ainv, rp, None))
                lines.append("ytozn %d %s" % (n, fa))
                meta.append(("vnaconv_ytozn", "x", n, n, Ainv, rp, None))
                # A as a Z (resp. Y) matrix in a 50 ohm system: S = (Z - 50)(Z + 50)^-1, (I - 50 Y)(I + 50 Y)^-1
                r50 = (Fraction(50), Fraction(0))
                Zp = [[cadd(A[i][j], r50) if i == j else A[i][j] for j in range(n)] for i in range(n)]
                Zm = [[csub(A[i][j], r50) if i == j else A[i][j] for j in range(n)] for i in range(n)]
                Zpi = exact_inverse(Zp)
                z0l = [[(50.0, 0.0)] * n]
                if Zpi is not None and _exact_skeel(Zp, Zpi) <= 1e4:
                    lines.append("ztosn %d %s %s" % (n, fa, _fmat(z0l)))
                    meta.append(("vnaconv_ztosn", "x", n, n, _mm(Zm, Zpi), dict(rp, z0="50 (all ports)"), None))
                Yp = [[cadd(cmul(r50, A[i][j]), one) if i == j else cmul(r50, A[i][j]) for j in range(n)] for i in range(n)]
                Ym = [[csub(one, cmul(r50, A[i][j])) if i == j else csub(Z, cmul(r50, A[i][j])) for j in range(n)] for i in range(n)]
                Ypi = exact_inverse(Yp)
                if Ypi is not None and _exact_skeel(Yp, Ypi) <= 1e4:
                    lines.append("ytosn %d %s %s" % (n, fa, _fmat(z0l)))
                    meta.append(("vnaconv_ytosn", "x", n, n, _mm(Ym, Ypi), dict(rp, z0="50 (all ports)"), None))
    # (B) networks
    for rep in range(3 if quick else 12):
        for (name, kind, Mx, sing) in _networks(rng):
            n = len(Mx)
            rp = {"network": name, "parameters": kind, "matrix": [[(str(a), str(b)) for (a, b) in row] for row in Mx]}
            fm = _fmat(Mx)
            r50 = (Fraction(50), Fraction(0))
            z0eq = [[(50.0, 0.0)] * n]
            z0mix = [[rng.choice([(50.0, 0.0), (75.0, 0.0), (25.0, 10.0), (100.0, -20.0)]) for _ in range(n)]]
            z0mf = [(Fraction(a), Fraction(b)) for (a, b) in z0mix[0]]
            if kind == "Y":
                Yp = [[cadd(cmul(r50, Mx[i][j]), one) if i == j else cmul(r50, Mx[i][j]) for j in range(n)] for i in range(n)]
                Ym = [[csub(one, cmul(r50, Mx[i][j])) if i == j else csub(Z, cmul(r50, Mx[i][j])) for j in range(n)] for i in range(n)]
                Ypi = exact_inverse(Yp)
                if Ypi is not None and _exact_skeel(Yp, Ypi) <= 1e4:
                    lines.append("ytosn %d %s %s" % (n, fm, _fmat(z0eq)))
                    meta.append(("vnaconv_ytosn", "x", n, n, _mm(Ym, Ypi), dict(rp, z0="50 (all ports)"), None))
                D = [[cadd(cmul(z0mf[i], Mx[i][j]), one) if i == j else cmul(z0mf[i], Mx[i][j]) for j in range(n)] for i in range(n)]
                Di = exact_inverse(D)
                if Di is not None and _exact_skeel(D, Di) <= 1e4:
                    W = _mm(Mx, Di)
                    if all(W[i][i] != Z for i in range(n)):
                        zin = [[csub(cdivq(one, W[i][i]), z0mf[i]) for i in range(n)]]
                        lines.append("ytozin %d %s %s" % (n, fm, _fmat(z0mix)))
                        meta.append(("vnaconv_ytozin", "x", 1, n, zin, dict(rp, z0=[list(v) for v in z0mix[0]]), None))
                if sing:
                    lines.append("ytozn %d %s" % (n, fm))
                    meta.append(("vnaconv_ytozn", "singular", n, n, None, rp, None))
                else:
                    Mi = exact_inverse(Mx)
                    if Mi is not None and _exact_skeel(Mx, Mi) <= 1e4:
                        lines.append("ytozn %d %s" % (n, fm))
                        meta.append(("vnaconv_ytozn", "x", n, n, Mi, rp, None))
            elif kind == "Z":
                Zp = [[cadd(Mx[i][j], r50) if i == j else Mx[i][j] for j in range(n)] for i in range(n)]
                Zm = [[csub(Mx[i][j], r50) if i == j else Mx[i][j] for j in range(n)] for i in range(n)]
                Zpi = exact_inverse(Zp)
                if Zpi is not None and _exact_skeel(Zp, Zpi) <= 1e4:
                    lines.append("ztosn %d %s %s" % (n, fm, _fmat(z0eq)))
                    meta.append(("vnaconv_ztosn", "x", n, n, _mm(Zm, Zpi), dict(rp, z0="50 (all ports)"), None))
                D = [[cadd(Mx[i][j], z0mf[i]) if i == j else Mx[i][j] for j in range(n)] for i in range(n)]
                Di = exact_inverse(D)
                if Di is not None and _exact_skeel(D, Di) <= 1e4 and all(Di[i][i] != Z for i in range(n)):
                    zin = [[csub(cdivq(one, Di[i][i]), z0mf[i]) for i in range(n)]]
                    lines.append("ztozin %d %s %s" % (n, fm, _fmat(z0mix)))
                    meta.append(("vnaconv_ztozin", "x", 1, n, zin, dict(rp, z0=[list(v) for v in z0mix[0]]), None))
                if sing:
                    lines.append("ztoyn %d %s" % (n, fm))
                    meta.append(("vnaconv_ztoyn", "singular", n, n, None, rp, None))
                else:
                    Mi = exact_inverse(Mx)
                    if Mi is not None and _exact_skeel(Mx, Mi) <= 1e4:
                        lines.append("ztoyn %d %s" % (n, fm))
                        meta.append(("vnaconv_ztoyn", "x", n, n, Mi, rp, None))
            else:   # S of an ideal transformer: zin = z0 (1 + Sii) / (1 - Sii); no Z matrix exists
                zin = [[cdivq(cmul(r50, cadd(one, Mx[i][i])), csub(one, Mx[i][i])) for i in range(n)]]
                lines.append("stozin %d %s %s" % (n, fm, _fmat(z0eq)))
                meta.append(("vnaconv_stozin", "x", 1, n, zin, dict(rp, z0="50 (all ports)"), None))
                lines.append("stozn %d %s %s" % (n, fm, _fmat(z0eq)))
                meta.append(("vnaconv_stozn", "singular", n, n, None, rp, None))
    rc, out, err = vplib.sh([exe], input="\n".join(lines) + "\n", timeout=900, env=ctx.run_env())
    if rc != 0:
        sig = vplib.asan_signature(err) or {"kind": "fault", "error": "exit %d" % rc, "function": None}
        violation(sig, "lu_harness failed on structured inputs: " + err[-300:], {"stderr": err[-3000:]})
        return
    outl = out.strip().split("\n")
    okn = len(outl) == len(lines)
    ctx.obligation("tie:structured inputs ran (%d calls)" % len(lines), okn, "")
    if not okn:
        return
    bad = {}
    counts = {}
    for (name, what, rows, cols, exact, rp, resid), ln in zip(meta, outl):
        counts[name] = counts.get(name, 0) + 1
        ctx.count(("structured", name, rp.get("shape", rp.get("network")), rp.get("n", rows)))
        r = parse_c_line(ln)
        xs = r.get("x", [])
        if what == "singular":
            big = max((cabsf(v) for v in xs if finite(v)), default=0.0)
            if all(finite(v) for v in xs) and big < HUGE * 50.0:
                bad.setdefault(name, []).append((rp, "singular divisor: finite output of ordinary size %s" % (xs[:2],), "non-finite or astronomically large output"))
            continue
        if what == "det":
            xs = [r.get("det", (float("nan"), float("nan")))]
        worst, mag = _max_err(xs, exact, rows, cols)
        if not (worst <= 1e-9 * max(mag, 1e-300)):
            bad.setdefault(name, []).append((rp, "differs from the exact solution of the defining system by %.3g (largest exact entry %.3g); C: %s"
                                             % (worst, mag, xs[:3]), "within 1e-9 of %s" % ([(str(a), str(b)) for (a, b) in exact[0][:3]],)))
            continue
        if resid is not None:
            # residual of the defining system relative to "machine precision times the problem's scale": entry (i,k) of
            # A X - B against |B_ik| + (row norm of A) * (largest |X| of the column) -- invariant under scaling a row of
            # (A, B).  (The componentwise ratio |A X - B| / (|A||X| + |B|) is not used: with exact zeros in patterned
            # positions its denominator can consist of rounding noise alone.)
            kind, A, Bx = resid
            na = len(A)
            X = to_fr(xs)
            be = 0.0
            if kind == "ax":
                P = _mm(A, [[X[j * cols + k] for k in range(cols)] for j in range(na)])
                for i in range(na):
                    rn = sum(cabsf(v) for v in A[i])
                    for k in range(cols):
                        sc = cabsf(Bx[i][k]) + rn * max(cabsf(X[j * cols + k]) for j in range(na))
                        num = cabsf(csub(P[i][k], Bx[i][k]))
                        if num > 0.0:
                            be = max(be, num / sc if sc > 0.0 else float("inf"))
            else:
                P = _mm([[X[i * na + j] for j in range(na)] for i in range(rows)], A)
                for i in range(rows):
                    xm = max(cabsf(X[i * na + j]) for j in range(na))
                    for k in range(na):
                        sc = cabsf(Bx[i][k]) + xm * sum(cabsf(A[j][k]) for j in range(na))
                        num = cabsf(csub(P[i][k], Bx[i][k]))
                        if num > 0.0:
                            be = max(be, num / sc if sc > 0.0 else float("inf"))
            if not (be <= BERR_C * na * EPS):
                bad.setdefault(name, []).append((rp, "residual of the defining system %.3g x scale" % be, "<= %.3g" % (BERR_C * na * EPS)))
    ctx.traces_validated += len(lines)
    ctx.extra["structured_inputs"] = counts
    ctx.obligation("tie:structured matrices / right-hand sides / networks: every routine agrees with the exact solution of its defining system (%d calls)"
                   % len(lines), not bad, "; ".join("%s: %d cases, first: %s" % (k, len(v), v[0][1][:120]) for k, v in sorted(bad.items())))
    for name, lst in sorted(bad.items()):
        rp, obs, exp = lst[0]
        violation({"kind": "structured-input", "function": name},
                  "%s on a structured input (%s): %s (%d such cases)" % (name, rp.get("shape", rp.get("network")), obs, len(lst)),
                  dict(rp, function=name, observed=obs, expected=exp))


def duplicated_rows_check(ctx, exe, violation, quick):
    """Property text: "a solve whose elimination meets an exactly zero pivot (missing row or column, duplicated
    equations) is reported through the documented error path (EDOM)", "never ... plausible numbers".  Matrices with
    two BIT-IDENTICAL rows and entries that are not dyadic (integers 1..200, tenths), real and complex, n = 2..6,
    with and without a duplicated right-hand side, through _vnacommon_lu / _mldivide / _minverse / vnaconv_ztoyn and
    through vnacal_new_add_mapped_matrix (T8 n x n, the duplicated matrix as `a`).  Expected: determinant exactly 0
    or non-finite (LuPartial: 0 / NaN) resp. rc = -1 with VNAERR_MATH.  In exact arithmetic the twin row eliminates
    to exact zeros (Coq: c19_duplicated_rows_rejected_exact_field); the C code does so only if the L term of the twin
    is exactly 1, i.e. if fl(p * fl(1/p)) = 1 for the pivot p (finding DL90)."""
    rng = ctx.rng
    cases = []     # (entries, n, A, B)
    for p in range(1, 201):
        cases.append(("real", 2, [[(float(p), 0.0), (1.0, 0.0)], [(float(p), 0.0), (1.0, 0.0)]], [[(1.0, 0.0)], [(1.0, 0.0)]]))
    nmax = 4 if quick else 6
    for n in range(2, nmax + 1):
        for _ in range(40 if quick else 400):
            for entries in ("real", "complex"):
                A = [[(rng.randint(-99, 99) / 10.0, rng.randint(-99, 99) / 10.0 if entries == "complex" else 0.0)
                      for _ in range(n)] for _ in range(n)]
                B = [[(rng.randint(-99, 99) / 10.0, 0.0)] for _ in range(n)]
                r1 = rng.randrange(n)
                r2 = (r1 + 1 + rng.randrange(n - 1)) % n
                A[r2] = list(A[r1])
                if rng.random() < 0.5:
                    B[r2] = list(B[r1])
                cases.append((entries, n, A, B))
    lines, idx = [], []
    for k, (entries, n, A, B) in enumerate(cases):
        for ln, name in (("lu %d %s" % (n, _fmat(A)), "_vnacommon_lu"),
                         ("mldivide %d 1 %s %s" % (n, _fmat(A), _fmat(B)), "_vnacommon_mldivide"),
                         ("minverse %d %s" % (n, _fmat(A)), "_vnacommon_minverse"),
                         ("ztoyn %d %s" % (n, _fmat(A)), "vnaconv_ztoyn"),
                         ("add_an %d %s %s" % (n, _fmat(A), _fmat(_fscale(A, 0.5))), "vnacal_new_add_mapped_matrix")):
            lines.append(ln)
            idx.append((k, name))
    rc, out, err = vplib.sh([exe], input="\n".join(lines) + "\n", timeout=600, env=ctx.run_env())
    if rc != 0:
        sig = vplib.asan_signature(err) or {"kind": "fault", "error": "exit %d" % rc, "function": None}
        violation(sig, "lu_harness failed on duplicated rows: " + err[-300:], {"stderr": err[-3000:]})
        return
    outl = out.strip().split("\n")
    okn = len(outl) == len(lines)
    ctx.obligation("tie:duplicated-row cases ran (%d calls, %d matrices)" % (len(lines), len(cases)), okn, "")
    if not okn:
        return
    unfl = {}          # (name, entries) -> list of (case index, observed)
    tot = {}
    for (k, name), ln in zip(idx, outl):
        entries, n, A, B = cases[k]
        ctx.count(("dup-rows", name, entries, n) if k % 7 == 0 else None)
        tot[(name, entries)] = tot.get((name, entries), 0) + 1
        if name == "vnacal_new_add_mapped_matrix":
            good = ln.strip() == "add_an rc=-1 callbacks=1 category=MATH"
            obs = ln.strip()
        else:
            r = parse_c_line(ln)
            xs = r.get("x", [])
            d = r.get("det")
            if d is not None:
                good = d == (0.0, 0.0) or not finite(d)
                obs = "determinant %s%s" % (d, (", x = %s" % xs[:3]) if xs else "")
            else:       # vnaconv_ztoyn: the output itself
                good = not all(finite(v) for v in xs)
                obs = "finite output %s" % (xs[:2],)
        if not good:
            unfl.setdefault((name, entries), []).append((k, obs))
    ctx.traces_validated += len(lines)
    ctx.extra["duplicated_rows"] = {"%s / %s entries" % k: "%d of %d not reported" % (len(unfl.get(k, [])), tot[k]) for k in sorted(tot)}
    for entries in ("real", "complex"):
        bad = {k: v for k, v in unfl.items() if k[1] == entries}
        ctx.obligation("tie:duplicated equations (%s non-dyadic entries) give an exactly zero / non-finite determinant and VNAERR_MATH" % entries,
                       not bad, "; ".join("%s: %d of %d not reported" % (k[0], len(v), tot[k]) for k, v in sorted(bad.items())))
    for (name, entries), lst in sorted(unfl.items()):
        k, obs = lst[0]
        _, n, A, B = cases[k]
        violation({"kind": "duplicated-rows-unflagged", "function": name, "entries": entries,
                   "l_scaling": getattr(ctx, "l_scaling", "?")},
                  "%s on a %dx%d matrix with two identical rows (%s entries) is not reported: %s (%d of %d such inputs)"
                  % (name, n, n, entries, obs, len(lst), tot[(name, entries)]),
                  {"function": name, "n": n, "A": [[list(v) for v in row] for row in A], "B": [[list(v) for v in row] for row in B],
                   "observed": obs, "expected": "determinant exactly 0 or non-finite / rc=-1 VNAERR_MATH", "finding": "DL90"})


def _fmat(m):
    """matrix of float pairs -> harness text"""
    return " ".join("%s %s" % (float(a).hex(), float(b).hex()) for row in m for (a, b) in row)


def _fscale(m, s):
    return [[(float(a) * s, float(b) * s) for (a, b) in row] for row in m]


def magnitude_sweep_check(ctx, exe, violation, quick):
    """Every tie family again with the inputs scaled by s in 1e-8 .. 1e8: powers of two (exact in binary64:
    every result must be BITWISE the scale-equivariant image of the base result) and powers of ten (inputs
    rounded: 1e-9 relative on inputs with Skeel condition <= 1e4), and identical singular / nonsingular
    verdicts at every scale.  An absolute threshold on a determinant, a pivot or a diagonal of R anywhere in
    the library shows up here with the input.  Laws (s > 0):
      _vnacommon_lu(sA): same pivot rows, det = s^n det;  minverse(sA) = minverse(A)/s;
      mldivide(sA, sB) = mldivide(A, B);  mldivide(sA, B) = mldivide(A, B)/s;  mrdivide(sB, sA) = mrdivide(B, A);
      qrsolve(sA, sB) = qrsolve(A, B), same rank;
      vnaconv_ztoyn(sZ) = Y/s;  ytozn(sY) = Z/s;  stozn(S, s z0) = s stozn(S, z0);  ztosn(sZ, s z0) = ztosn(Z, z0);
      stoyn(S, s z0) = stoyn(S, z0)/s;  ytosn(Y/s, s z0) = ytosn(Y, z0);
      vnacal_new_add_through / _add_mapped_matrix with (s a, s b): same return code and error category;
      one-port E12 calibration with all measurements in units of s: vnacal_new_solve / vnacal_apply_m succeed and
      return the same corrected parameter."""
    rng = ctx.rng
    p2 = [2.0 ** k for k in ((-27, -9, 13, 27) if quick else (-27, -20, -13, -5, -1, 3, 9, 17, 23, 27))]
    p10 = [10.0 ** k for k in ((-8, -3, 4, 8) if quick else (-8, -6, -4, -2, -1, 1, 2, 4, 6, 8))]
    scales = [(s, True) for s in p2] + [(s, False) for s in p10]
    nmax = 4 if quick else 6
    Z = (Fraction(0), Fraction(0))
    bases = []      # (tag, n, A, singular?)
    for n in range(1, nmax + 1):
        for rep in range(1 if quick else 2):
            A = gen_exact_lu(rng, n, n)
            bases.append(("regular", n, A, False))
        if n >= 2:
            A = gen_exact_lu(rng, n, n)
            r = rng.randrange(n)
            bases.append(("zero_row", n, [([Z] * n if i == r else row) for i, row in enumerate(A)], True))
            bases.append(("zero_col", n, [[(Z if c == r else v) for c, v in enumerate(row)] for row in A], True))
            r2 = (r + 1) % n
            bases.append(("dup_row", n, [(A[r] if i == r2 else row) for i, row in enumerate(A)], True))

    def lines_for(tag, n, A, s):
        """harness lines and, per line, (name, factor applied to the base x, factor applied to the base det)"""
        Af = _fscale(A, s)
        B = [[(Fraction(rng_b[i][k][0]), Fraction(rng_b[i][k][1])) for k in range(2)] for i in range(n)]
        Bf, B1 = _fscale(B, s), _fscale(B, 1.0)
        z0 = [[(50.0 * s, 0.0)] * n]
        z0b = [[(50.0, 0.0)] * n]
        Ainv_s = _fscale(A, 1.0 / s)
        L = [("lu %d %s" % (n, _fmat(Af)), "lu", None, s ** n),
             ("minverse %d %s" % (n, _fmat(Af)), "minverse", 1.0 / s, s ** n),
             ("mldivide %d 2 %s %s" % (n, _fmat(Af), _fmat(Bf)), "mldivide(sA,sB)", 1.0, s ** n),
             ("mldivide %d 2 %s %s" % (n, _fmat(Af), _fmat(B1)), "mldivide(sA,B)", 1.0 / s, s ** n),
             ("mrdivide 2 %d %s %s" % (n, _fmat(_fscale([list(c) for c in zip(*B)], s)), _fmat(Af)), "mrdivide(sB,sA)", 1.0, s ** n),
             ("qrsolve %d %d 2 %s %s" % (n, n, _fmat(Af), _fmat(Bf)), "qrsolve(sA,sB)", 1.0, None),
             ("ztoyn %d %s" % (n, _fmat(Af)), "vnaconv_ztoyn", 1.0 / s, None),
             ("ytozn %d %s" % (n, _fmat(Af)), "vnaconv_ytozn", 1.0 / s, None),
             ("ztosn %d %s %s" % (n, _fmat(Af), _fmat(z0)), "vnaconv_ztosn", 1.0, None),
             ("ytosn %d %s %s" % (n, _fmat(Ainv_s), _fmat(z0)), "vnaconv_ytosn", 1.0, None)]
        if tag == "regular":
            # S matrices: A scaled into the unit disc so that I - S is regular
            mx = max(abs(float(a)) + abs(float(b)) for row in A for (a, b) in row) * n * 2.0
            Sm = _fscale(A, 1.0 / mx)
            L.append(("stozn %d %s %s" % (n, _fmat(Sm), _fmat(z0)), "vnaconv_stozn", s, None))
            L.append(("stoyn %d %s %s" % (n, _fmat(Sm), _fmat(z0)), "vnaconv_stoyn", 1.0 / s, None))
        L.append(("add_an %d %s %s" % (n, _fmat(Af), _fmat(_fscale(A, s * 0.5))), "vnacal_new_add_mapped_matrix", None, None))
        return L

    all_lines, index = [], []
    for bi, (tag, n, A, sing) in enumerate(bases):
        rng_b = [[(rng.randint(-8, 8), rng.randint(-8, 8)) for _ in range(2)] for _ in range(n)]
        for (s, exact) in [(1.0, True)] + scales:
            for (ln, name, fx, fd) in lines_for(tag, n, A, s):
                all_lines.append(ln)
                index.append((bi, s, exact, name, fx, fd))
    rc, out, err = vplib.sh([exe], input="\n".join(all_lines) + "\n", timeout=600, env=ctx.run_env())
    if rc != 0:
        sig = vplib.asan_signature(err) or {"kind": "fault", "error": "exit %d" % rc, "function": None}
        violation(sig, "lu_harness failed in the magnitude sweep: " + err[-300:], {"stderr": err[-3000:]})
        return
    outl = out.strip().split("\n")
    ok_n = len(outl) == len(all_lines)
    ctx.obligation("tie:magnitude sweep ran (%d calls, %d base inputs, %d scales)" % (len(all_lines), len(bases), len(scales)), ok_n, "")
    if not ok_n:
        return
    base_out = {}
    for (bi, s, exact, name, fx, fd), ln in zip(index, outl):
        if s == 1.0 and (bi, name) not in base_out:
            base_out[(bi, name)] = ln
    bad_eq, bad_verdict, bad_dup = [], [], []
    n_bit = n_tol = n_verdict = 0

    def flagged(r, n, inmag, outfac):
        """singular verdict of one call: determinant exactly 0 / non-finite, or non-finite / astronomically large
        output relative to what the scale predicts, or rank < n"""
        if "rank" in r and r["rank"] < n:
            return True
        if "det" in r and (r["det"] == (0.0, 0.0) or not finite(r["det"])):
            return True
        xs = r.get("x", [])
        if not all(finite(v) for v in xs):
            return True
        big = max((cabsf(v) for v in xs), default=0.0)
        return big >= HUGE * outfac

    for (bi, s, exact, name, fx, fd), ln in zip(index, outl):
        tag, n, A, sing = bases[bi]
        b0 = base_out[(bi, name)]
        if s == 1.0:
            continue
        ctx.count(("sweep", name, tag, n, s))
        if name == "vnacal_new_add_mapped_matrix":
            n_verdict += 1
            if tag == "dup_row" and "rc=-1" not in ln:
                bad_dup.append((name, tag, n, s, "rc=-1, VNAERR_MATH (duplicated equations)", ln.strip(), bi))
            elif ln.strip() != b0.strip():
                bad_verdict.append((name, tag, n, s, b0.strip(), ln.strip(), bi))
            elif sing != ("rc=-1" in ln):
                bad_verdict.append((name, tag, n, s, "singular=%s" % sing, ln.strip(), bi))
            continue
        r0, r1 = parse_c_line(b0), parse_c_line(ln)
        # magnitude the outputs are expected to have: base output factor (1 for base)
        f0 = flagged(r0, n, 1.0, 1.0 if name not in ("vnaconv_stozn",) else 50.0)
        f1 = flagged(r1, n, s, (abs(fx) if fx else 1.0) * (1.0 if name not in ("vnaconv_stozn",) else 50.0))
        n_verdict += 1
        # a zero row, a zero column and a duplicated row (bit-identical rows at every scale) are the "exactly zero
        # pivot" cases the property names: they must be flagged at every magnitude.  A duplicated row that is NOT
        # flagged is finding DL90 (the L terms are multiplied by the rounded reciprocal of the pivot, and
        # fl(p * fl(1/p)) != 1 for some p, so the twin row does not eliminate to an exact zero): reported below.
        must_flag = sing and name in (
            "lu", "minverse", "mldivide(sA,sB)", "mldivide(sA,B)", "mrdivide(sB,sA)", "vnaconv_ztoyn", "vnaconv_ytozn")
        # Householder QR on an exactly singular square matrix leaves rounding noise (numerical rank detection is not
        # claimed): its verdict is compared only where the scaling is exact
        cmp_verdict = exact or not (sing and name == "qrsolve(sA,sB)")
        if tag == "dup_row" and must_flag and not f1:
            bad_dup.append((name, tag, n, s, "determinant exactly 0 / non-finite output (duplicated equations)",
                            "finite nonzero determinant %s, output of ordinary size" % (r1.get("det"),), bi))
            continue
        if tag == "dup_row" and not must_flag and not exact:
            continue
        if (cmp_verdict and f0 != f1) or (must_flag and not f1):
            bad_verdict.append((name, tag, n, s, "flagged=%s" % f0, "flagged=%s%s" % (f1, " (exactly singular input)" if must_flag else ""), bi))
            continue
        if sing or f0:
            continue
        if "piv" in r0 and r0.get("piv") != r1.get("piv") and exact:
            bad_eq.append((name, tag, n, s, "pivot rows %s" % r0.get("piv"), "%s" % r1.get("piv"), bi))
            continue
        if "rank" in r0 and r0["rank"] != r1.get("rank"):
            bad_eq.append((name, tag, n, s, "rank %s" % r0["rank"], "rank %s" % r1.get("rank"), bi))
            continue
        pairs = []
        if fx is not None and "x" in r0:
            pairs += [((a * fx, b * fx), v) for (a, b), v in zip(r0["x"], r1.get("x", []))]
        if fd is not None and "det" in r0:
            pairs.append(((r0["det"][0] * fd, r0["det"][1] * fd), r1.get("det", (float("nan"),) * 2)))
        if exact:
            n_bit += 1
            if any(e != v for e, v in pairs):
                e, v = next((e, v) for e, v in pairs if e != v)
                bad_eq.append((name, tag, n, s, "expected %r (bitwise image of the base result)" % (e,), "%r" % (v,), bi))
        else:
            if skeel_cond_float(A, n) > 1e4:
                continue
            n_tol += 1
            mag = max((cabsf(e) for e, v in pairs), default=0.0)
            worst = max((cabsf((e[0] - v[0], e[1] - v[1])) for e, v in pairs), default=0.0)
            if not (worst <= 1e-9 * mag):
                bad_eq.append((name, tag, n, s, "within 1e-9 of the scaled base result", "off by %.3g (relative)" % (worst / mag if mag else worst), bi))
    ctx.obligation("tie:results are scale-equivariant under input scaling 1e-8..1e8 (%d bitwise for powers of two, %d within 1e-9 for powers of ten)"
                   % (n_bit, n_tol), not bad_eq,
                   "; ".join("%s %s n=%d s=%g: %s, got %s" % b[:6] for b in bad_eq[:3]))
    ctx.obligation("tie:singular / nonsingular verdicts identical at every input magnitude (%d calls)" % n_verdict, not bad_verdict,
                   "; ".join("%s %s n=%d s=%g: base %s, scaled %s" % b[:6] for b in bad_verdict[:3]))
    ctx.obligation("tie:duplicated rows are flagged at every input magnitude", not bad_dup,
                   "; ".join("%s n=%d s=%g: expected %s, got %s" % (b[0], b[2], b[3], b[4], b[5]) for b in bad_dup[:3]))
    seen_dup = set()
    for (name, tag, n, s, a, b, bi) in bad_dup:
        if name in seen_dup:
            continue
        seen_dup.add(name)
        violation({"kind": "duplicated-rows-unflagged", "function": name, "entries": "complex",
                   "l_scaling": getattr(ctx, "l_scaling", "?")},
                  "%s on a %dx%d matrix with a duplicated row, scaled by %g: expected %s, observed %s" % (name, n, n, s, a, b),
                  {"function": name, "n": n, "scale": s, "finding": "DL90",
                   "A (unscaled)": [[(str(x), str(y)) for (x, y) in row] for row in bases[bi][2]], "expected": a, "observed": b})
    ctx.extra["magnitude_sweep"] = {"calls": len(all_lines), "bitwise_comparisons": n_bit, "tolerance_comparisons": n_tol,
                                     "verdict_comparisons": n_verdict, "scales": [sc for sc, _ in scales]}
    for kind, lst in (("scale-equivariance", bad_eq), ("scale-verdict", bad_verdict)):
        for (name, tag, n, s, a, b, bi) in lst[:1]:
            violation({"kind": kind, "function": name},
                      "%s on a %s %dx%d input scaled by %g: %s, observed %s" % (name, tag, n, n, s, a, b),
                      {"function": name, "n": n, "kind": tag, "scale": s,
                       "A (unscaled)": [[(str(x), str(y)) for (x, y) in row] for row in bases[bi][2]], "base": a, "scaled": b})
    ctx.traces_validated += len(all_lines)

    # solve / apply through the public API: one-port E12 calibration, every measurement in units of s
    qexe = ctx.build_harness("qr_harness", san=True)
    cals = []
    for _ in range(2 if quick else 6):
        def small():
            return (rng.randint(-8, 8) / 64.0, rng.randint(-8, 8) / 64.0)
        e00, e11 = small(), small()
        e10e01 = (1.0 + rng.randint(-8, 8) / 32.0, rng.randint(-8, 8) / 32.0)
        stds = [(-1.0, 0.0), (1.0, 0.0), (0.0, 0.0), (0.0, 1.0)]
        sdut = (rng.randint(-20, 20) / 32.0, rng.randint(-20, 20) / 32.0)
        cals.append([e00, e10e01, e11] + stds + [sdut])
    clines, cidx = [], []
    for ci, c in enumerate(cals):
        for (s, exact) in [(1.0, True)] + scales:
            clines.append("cal1k %s %s" % (float(s).hex(), " ".join("%s %s" % (a.hex(), b.hex()) for (a, b) in c)))
            cidx.append((ci, s))
    rc, out, err = vplib.sh([qexe], input="\n".join(clines) + "\n", timeout=300, env=ctx.run_env())
    if rc != 0:
        sig = vplib.asan_signature(err) or {"kind": "fault", "error": "exit %d" % rc, "function": None}
        violation(sig, "qr_harness failed in the magnitude sweep: " + err[-300:], {"stderr": err[-3000:]})
        return
    col = out.strip().split("\n")
    bad_cal = []
    base = {}
    for (ci, s), ln in zip(cidx, col):
        okrc = ln.startswith("cal1 solve=0 apply=0 callbacks=0")
        x = parse_c_line(ln).get("x", [(float("nan"), float("nan"))])[0]
        if s == 1.0:
            base[ci] = (okrc, x)
            sd = cals[ci][-1]
            if not okrc or not cabsf((x[0] - sd[0], x[1] - sd[1])) <= 1e-9:
                bad_cal.append((ci, s, "base calibration", ln.strip()))
            continue
        ctx.count(("sweep-cal1", ci, s))
        b_ok, bx = base[ci]
        if okrc != b_ok or (okrc and not cabsf((x[0] - bx[0], x[1] - bx[1])) <= 1e-9):
            bad_cal.append((ci, s, "unit scale: %s" % (bx,), ln.strip()))
    ctx.obligation("tie:one-port E12 solve + apply give the same corrected parameter with the measurements in units of 1e-8..1e8 (%d calls)"
                   % len(clines), len(col) == len(clines) and not bad_cal,
                   "; ".join("cal %d s=%g %s -> %s" % b for b in bad_cal[:3]))
    for (ci, s, a, ln) in bad_cal[:1]:
        violation({"kind": "scale-equivariance", "function": "vnacal_new_solve/vnacal_apply_m"},
                  "one-port E12 calibration with every measurement in units of %g: %s; observed %s" % (s, a, ln),
                  {"scale": s, "e00,e10e01,e11,s0..s3,sdut": [list(v) for v in cals[ci]], "observed": ln,
                   "harness": "harness/qr_harness.c op cal1k"})
    ctx.traces_validated += len(clines)


def parse_luc_line(line):
    """luc stop=<j|none> det= <nan | re im> piv=<..> a= ..."""
    p = line.split()
    out = {"stop": None if p[1] == "stop=none" else int(p[1][5:])}
    i = 3
    if p[3] == "nan":
        out["det"] = None
        i = 4
    else:
        out["det"] = (Fraction(p[3]), Fraction(p[4]))
        i = 5
    out["piv"] = [int(k) for k in p[i][4:].split(",")] if p[i][4:] else []
    vals = [Fraction(c) for c in p[i + 2:]]
    out["a"] = [(vals[k], vals[k + 1]) for k in range(0, len(vals), 2)]
    return out


def parse_mc_line(line):
    """<op>_c det= <nan | re im> sol=none | x= ..."""
    p = line.split()
    out = {}
    if p[2] == "nan":
        out["det"] = None
        i = 3
    else:
        out["det"] = (Fraction(p[2]), Fraction(p[3]))
        i = 4
    if p[i] == "sol=none":
        out["x"] = None
    else:
        vals = [Fraction(c) for c in p[i + 1:]]
        out["x"] = [(vals[k], vals[k + 1]) for k in range(0, len(vals), 2)]
    return out

# ---------------------------------------------------------------------------- least squares
def fgauss_inverse(N):
    """plain floating-point Gauss-Jordan inverse (complex), only to estimate the conditioning."""
    n = len(N)
    a = [list(row) + [1.0 + 0j if i == j else 0j for j in range(n)] for i, row in enumerate(N)]
    for c in range(n):
        p = max(range(c, n), key=lambda i: abs(a[i][c]))
        if a[p][c] == 0:
            return None
        a[c], a[p] = a[p], a[c]
        pv = a[c][c]
        a[c] = [x / pv for x in a[c]]
        for i in range(n):
            if i != c and a[i][c] != 0:
                f = a[i][c]
                a[i] = [x - f * y for x, y in zip(a[i], a[c])]
    return [row[n:] for row in a]


def cdivq(a, b):
    d = b[0] * b[0] + b[1] * b[1]
    return ((a[0] * b[0] + a[1] * b[1]) / d, (a[1] * b[0] - a[0] * b[1]) / d)


def exact_inverse(N):
    """Gauss-Jordan inverse over the Gaussian rationals (pairs of Fractions); None if singular."""
    n = len(N)
    zero, one = (Fraction(0), Fraction(0)), (Fraction(1), Fraction(0))
    a = [list(row) + [one if i == j else zero for j in range(n)] for i, row in enumerate(N)]
    for c in range(n):
        p = next((i for i in range(c, n) if a[i][c] != zero), None)
        if p is None:
            return None
        a[c], a[p] = a[p], a[c]
        pv = a[c][c]
        a[c] = [cdivq(x, pv) for x in a[c]]
        for i in range(n):
            if i != c and a[i][c] != zero:
                f = a[i][c]
                a[i] = [csub(x, cmul(f, y)) for x, y in zip(a[i], a[c])]
    return [row[n:] for row in a]


def kappa_A(A, m, n):
    """Frobenius condition number of A: sqrt(|N|_F |N^-1|_F) with N = A^H A inverted exactly
    (so that the estimate stays meaningful up to cond(A) ~ 1e8 and beyond)."""
    N = [[(Fraction(0), Fraction(0))] * n for _ in range(n)]
    for i in range(n):
        for j in range(n):
            s = (Fraction(0), Fraction(0))
            for k in range(m):
                s = cadd(s, cmul((A[k][i][0], -A[k][i][1]), A[k][j]))
            N[i][j] = s
    G = exact_inverse(N)
    if G is None:
        return float("inf")
    nf = math.sqrt(sum(cabsf(v) ** 2 for row in N for v in row))
    gf = math.sqrt(sum(cabsf(v) ** 2 for row in G for v in row))
    return math.sqrt(nf * gf)


LS_C = 100.0     # constant of the least-squares forward-error bound  LS_C * eps * (cond |x| + cond^2 |r| / |A|);
                 # worst ratio observed on the unchanged code over thousands of systems: about 3


def ls_check(ctx, drv, exe, run_both, violation, quick):
    rng = ctx.rng
    shapes = []
    if quick:
        shapes += [(rng.randint(n + 1, min(40, 3 * n + 3)), n) for n in (1, 2, 3, 4, 5, 6, 8)]
        shapes += [(7, 3), (12, 5), (40, 10), (40, 15)]
    else:
        shapes += [(rng.randint(n + 1, 40), n) for n in range(1, 13) for _ in range(10)]
        shapes += [(40, 15), (40, 15), (30, 15), (16, 15), (40, 14)]
    cases = []
    for (m, n) in shapes:
        for kind in ("inconsistent", "consistent"):
            # the exact elimination over Q[i] runs on Coq's binary integers: keep the numbers of the
            # larger systems short (small integers) so that 40 x 15 stays within seconds
            small = n >= 9
            if small and kind == "consistent" and quick and n >= 14:
                continue
            A = rand_matrix(rng, m, n, 2, 0) if small else rand_matrix(rng, m, n, 12)
            o = rng.randint(1, 2) if n < 9 else 1
            if kind == "consistent":
                X0 = rand_matrix(rng, n, o, 3, 0) if small else rand_matrix(rng, n, o, 6)
                B = [[(Fraction(0), Fraction(0)) for _ in range(o)] for _ in range(m)]
                for i in range(m):
                    for k in range(o):
                        s = (Fraction(0), Fraction(0))
                        for j in range(n):
                            s = cadd(s, cmul(A[i][j], X0[j][k]))
                        B[i][k] = s
            else:
                X0 = None
                B = rand_matrix(rng, m, o, 3, 0) if small else rand_matrix(rng, m, o, 12)
            cases.append(dict(kind=kind, m=m, n=n, o=o, A=A, B=B, X0=X0))
    # very tall systems (m = 4n .. 20n) with graded conditioning: one column is another one plus
    # 2^-p times a small integer vector, so cond(A) ~ 2^p (1e2 .. 1e7); data consistent (zero
    # residual), where a backward-stable least-squares solver has forward error ~ cond * eps while
    # a solution through the normal equations has ~ cond^2 * eps.  Small integers keep the exact
    # model fast.
    ill = []
    for n in range(1, 9):
        ratios = [4, rng.randint(5, 9), rng.randint(10, 20)] if quick else [4, 5, 6, 8, 11, 15, 20]
        for ratio in ratios:
            for p in ([rng.choice([7, 10, 13]), rng.choice([16, 19, 22, 24])] if quick else [7, 10, 13, 16, 19, 22, 24]):
                if n == 1 and p != 7 and quick:
                    continue
                ill.append((ratio * n + rng.randint(0, n - 1 if ratio < 20 else 0), n, p))
    for (m, n, p) in ill:
        A = rand_matrix(rng, m, n, 4, 0)
        if n >= 2:
            j, k = rng.sample(range(n), 2)
            for row in A:
                e = (Fraction(rng.randint(-3, 3)), Fraction(rng.randint(-3, 3)))
                row[k] = cadd(row[j], (e[0] / 2 ** p, e[1] / 2 ** p))
        X0 = rand_matrix(rng, n, 1, 3, 0)
        B = [[(Fraction(0), Fraction(0))] for _ in range(m)]
        for i in range(m):
            s0 = (Fraction(0), Fraction(0))
            for j2 in range(n):
                s0 = cadd(s0, cmul(A[i][j2], X0[j2][0]))
            B[i][0] = s0
        cases.append(dict(kind="consistent", m=m, n=n, o=1, A=A, B=B, X0=X0, graded_p=p))
    # well-conditioned very tall inconsistent systems
    for n in ((1, 2, 3, 5, 8) if quick else range(1, 9)):
        m = rng.randint(4, 20) * n
        cases.append(dict(kind="inconsistent", m=m, n=n, o=1, A=rand_matrix(rng, m, n, 4, 0),
                          B=rand_matrix(rng, m, 1, 4, 0), X0=None))
    # rank-deficient tall systems
    for (m, n) in ([(6, 3), (9, 4), (20, 6)] if quick else [(rng.randint(n + 1, 30), n) for n in range(2, 9) for _ in range(3)]):
        for kind in ("zero_col", "dep_col"):
            A = rand_matrix(rng, m, n, 12)
            k = rng.randrange(n)
            if kind == "zero_col":
                for row in A:
                    row[k] = (Fraction(0), Fraction(0))
            else:
                others = [j for j in range(n) if j != k]
                co = {j: (Fraction(rng.randint(-3, 3)), Fraction(rng.randint(-1, 1))) for j in others}
                for row in A:
                    s = (Fraction(0), Fraction(0))
                    for j in others:
                        s = cadd(s, cmul(co[j], row[j]))
                    row[k] = s
            cases.append(dict(kind=kind, m=m, n=n, o=1, A=A, B=rand_matrix(rng, m, 1, 12), X0=None))
    mlines, clines = [], []
    for c in cases:
        assert exact_in_double(c["A"]) and exact_in_double(c["B"])
        mlines.append("ls %d %d %d %s %s" % (c["m"], c["n"], c["o"], mat_str(c["A"], fs), mat_str(c["B"], fs)))
        for op in ("qrsolve", "qr2"):
            clines.append("%s %d %d %d %s %s" % (op, c["m"], c["n"], c["o"], mat_str(c["A"], hx), mat_str(c["B"], hx)))
    # second oracle (LsSpec.ls_solve, Gauss-Jordan + a posteriori check) on the smaller systems: the two
    # executable specifications must agree exactly (LsLuProofs.ls_lu_agrees_with_ls_solve)
    gj_idx = [i for i, c in enumerate(cases) if c["n"] <= 8 and c["m"] <= 40]
    gj_lines = ["lsgj " + mlines[i][3:] for i in gj_idx]
    ctx.log("least squares: %d cases, largest %s" % (len(cases), max((c["m"], c["n"]) for c in cases)))
    ml_all, cl = run_both(mlines + gj_lines, clines, timeout=1500)
    if ml_all is None:
        return
    ml, gl = ml_all[:len(mlines)], ml_all[len(mlines):]
    gj_bad = [i for i, g in zip(gj_idx, gl) if g.split()[1:] != ml[i].split()[1:]]
    ctx.obligation("tie:the two least-squares oracles agree exactly (LsLu.ls_lu on the LU model vs LsSpec.ls_solve, %d systems)"
                   % len(gj_idx), not gj_bad, "cases %s" % gj_bad[:3])
    for i in gj_bad[:1]:
        violation({"kind": "ls-model", "function": "ls_lu/ls_solve"},
                  "the two exact least-squares oracles disagree on a %dx%d system" % (cases[i]["m"], cases[i]["n"]),
                  {"m": cases[i]["m"], "n": cases[i]["n"], "A": [[[fs(a), fs(b)] for (a, b) in row] for row in cases[i]["A"]],
                   "B": [[[fs(a), fs(b)] for (a, b) in row] for row in cases[i]["B"]]})
    bad_fe, bad_ne, bad_rank, bad_cons, bad_q, bad_def = [], [], [], [], [], []
    hist = {}
    stats = dict(full_rank=0, consistent_exact=0, zero_col_rank_reported=0, dep_col_rank_reported=0, dep_col_huge=0)
    for idx, c in enumerate(cases):
        m, n, o, A, B = c["m"], c["n"], c["o"], c["A"], c["B"]
        mres = parse_m_line(ml[idx])
        cr = [parse_c_line(cl[2 * idx]), parse_c_line(cl[2 * idx + 1])]
        ctx.count(None, 2)
        if c["kind"] in ("zero_col", "dep_col"):
            if not mres.get("none"):
                raise vplib.BuildError("generator: rank-deficient tall input solved by the model")
            amax = max(cabsf(v) for row in A for v in row)
            bmax = max(cabsf(v) for row in B for v in row)
            for name, r in zip(("qrsolve", "qr+qrsolve2"), cr):
                reported = r["rank"] < n
                xs = r["x"]
                nonfin = not all(finite(v) for v in xs)
                big = max((cabsf(v) for v in xs if finite(v)), default=0.0)
                huge = nonfin or big * amax >= HUGE * bmax
                if c["kind"] == "zero_col":
                    if reported:
                        stats["zero_col_rank_reported"] += 1
                        ctx.count(("ls-def", name, idx), 0)
                    else:
                        bad_def.append((idx, name, "missing column but rank=%d of %d" % (r["rank"], n)))
                else:
                    if reported:
                        stats["dep_col_rank_reported"] += 1
                    elif huge:
                        stats["dep_col_huge"] += 1
                    if not (reported or huge):
                        bad_def.append((idx, name, "dependent columns: rank=%d of %d and plausible output (max %.3g)" % (r["rank"], n, big)))
                    else:
                        ctx.count(("ls-def", name, idx), 0)
            continue
        if mres.get("none"):
            continue        # random draw that happens to be rank deficient: nothing asserted
        stats["full_rank"] += 1
        xm = mres["x"]
        if c["kind"] == "consistent":
            x0 = [v for row in c["X0"] for v in row]
            if xm != x0:
                bad_cons.append((idx, "model"))
            else:
                stats["consistent_exact"] += 1
        # conditioning of A (exact inverse of A^H A)
        Af = [[complex(float(a), float(b)) for (a, b) in row] for row in A]
        kappa = kappa_A(A, m, n)
        anorm = math.sqrt(sum(abs(v) ** 2 for row in Af for v in row))
        xnorm = math.sqrt(sum(cabsf(v) ** 2 for v in xm))
        # exact residual of the exact solution
        rs = 0.0
        for i in range(m):
            for k in range(o):
                s = (Fraction(0), Fraction(0))
                for j in range(n):
                    s = cadd(s, cmul(A[i][j], xm[j * o + k]))
                rs += cabsf(csub(s, B[i][k])) ** 2
        rnorm = math.sqrt(rs)
        bnorm = math.sqrt(sum(cabsf(v) ** 2 for row in B for v in row))
        # forward-error bound of a backward-stable least-squares solver (Wedin / Higham 20.1):
        #   |x^ - x*| <~ eps (cond |x*| + cond^2 |r*| / |A|);  solving through the normal equations
        #   gives cond^2 eps |x*| even when r* = 0, which this tolerance does not allow
        base = EPS * (kappa * xnorm + kappa * kappa * rnorm / anorm)
        tol = LS_C * base + 1e-300
        hist_k = ctx.extra.setdefault("ls_log10_cond_hist", {})
        hist_add(hist_k, kappa)
        if m >= 4 * n:
            stats["very_tall(m>=4n)"] = stats.get("very_tall(m>=4n)", 0) + 1
        for name, r in zip(("qrsolve", "qr+qrsolve2"), cr):
            xs = r["x"]
            if r["rank"] != n:
                bad_rank.append((idx, name, r["rank"], n))
                continue
            if not all(finite(v) for v in xs):
                bad_fe.append((idx, name, float("inf"), tol, kappa))
                continue
            err = math.sqrt(sum(cabsf((Fraction(a) - u, Fraction(b) - w)) ** 2 for (a, b), (u, w) in zip(xs, xm)))
            hist_add(hist, err / (xnorm or 1.0))
            if base > 0:
                ctx.extra["ls_worst_err_over_eps(cond|x|+cond^2|r|/|A|)"] = max(
                    ctx.extra.get("ls_worst_err_over_eps(cond|x|+cond^2|r|/|A|)", 0.0), err / base)
            if not err <= tol:
                bad_fe.append((idx, name, err, tol, kappa))
                continue
            # normal equations on the C solution: ||A^H (A x - b)|| <= c eps ||A|| (||A|| ||x|| + ||b||)
            xf = to_fr(xs)
            res = [[(Fraction(0), Fraction(0))] * o for _ in range(m)]
            for i in range(m):
                for k in range(o):
                    s = (Fraction(0), Fraction(0))
                    for j in range(n):
                        s = cadd(s, cmul(A[i][j], xf[j * o + k]))
                    res[i][k] = csub(s, B[i][k])
            ne = 0.0
            for j in range(n):
                for k in range(o):
                    s = (Fraction(0), Fraction(0))
                    for i in range(m):
                        s = cadd(s, cmul((A[i][j][0], -A[i][j][1]), res[i][k]))
                    ne += cabsf(s) ** 2
            ne = math.sqrt(ne)
            nbound = 1e3 * m * EPS * anorm * (anorm * math.sqrt(sum(cabsf(v) ** 2 for v in xs)) + bnorm)
            if not ne <= nbound:
                bad_ne.append((idx, name, ne, nbound))
                continue
            if name != "qrsolve" and not (r["qerr"][0] <= 1e3 * m * EPS and r["qerr"][1] <= 1e3 * m * EPS * anorm):
                bad_q.append((idx, name, r["qerr"]))
                continue
            ctx.count(("ls", name, idx), 0)
        if idx % 9 == 0:
            ctx.sample({"ls": "%dx%d, %d rhs, %s" % (m, n, o, c["kind"]), "cond(A)": kappa,
                        "x_exact_head": [float(xm[0][0]), float(xm[0][1])], "x_qrsolve_head": list(cr[0]["x"][0]),
                        "rank": cr[0]["rank"]})
    ctx.traces_validated += 2 * len(cases)
    ctx.extra["ls_stats"] = stats
    ctx.extra["ls_forward_error_hist"] = hist

    def replay(idx):
        c = cases[idx]
        return {"m": c["m"], "n": c["n"], "o": c["o"], "kind": c["kind"],
                "A": [[[fs(a), fs(b)] for (a, b) in row] for row in c["A"]],
                "B": [[[fs(a), fs(b)] for (a, b) in row] for row in c["B"]]}
    ctx.obligation("tie:LsLu consistent systems return the generating solution exactly (%d)" % stats["consistent_exact"],
                   not bad_cons, str(bad_cons[:3]))
    for idx, _ in bad_cons[:1]:
        violation({"kind": "ls-model", "function": "ls_lu"}, "LsLu.ls_lu does not return the exact solution of a consistent system",
                  replay(idx))
    ctx.obligation("tie:qrsolve / qr+qrsolve2 vs exact normal-equation solution (tolerance %g eps (cond|x| + cond^2|r|/|A|); %d systems, %d with m >= 4n)"
                   % (LS_C, stats["full_rank"], stats.get("very_tall(m>=4n)", 0)), not (bad_fe or bad_rank),
                   "; ".join("case %d %s" % (b[0], b[1]) for b in (bad_fe + bad_rank)[:3]))
    for idx, name, err, tol, kappa in bad_fe[:1]:
        r = replay(idx)
        r.update({"routine": name, "error": err, "tolerance": tol, "kappa": kappa})
        violation({"kind": "least-squares", "function": name},
                  "%s: %dx%d least-squares solution (cond(A) %.3g) differs from the exact least-squares solution by %.3g; "
                  "a backward-stable solver stays within %.3g = %g eps (cond|x| + cond^2|r|/|A|)"
                  % (name, r["m"], r["n"], kappa, err, tol, LS_C), r)
    for idx, name, rank, n in bad_rank[:1]:
        r = replay(idx)
        r.update({"routine": name, "rank": rank})
        violation({"kind": "least-squares-rank", "function": name},
                  "%s: full-rank %dx%d system reported with rank %d" % (name, r["m"], r["n"], rank), r)
    ctx.obligation("support:normal-equation residual of the C solution, Q unitary, Q R = A", not (bad_ne or bad_q),
                   "; ".join("case %d %s" % (b[0], b[1]) for b in (bad_ne + bad_q)[:3]))
    for b in (bad_ne + bad_q)[:1]:
        r = replay(b[0])
        r.update({"routine": b[1], "observed": str(b[2:])})
        violation({"kind": "least-squares-residual", "function": b[1]},
                  "%s: result is not a least-squares minimiser / QR factors inaccurate: %s" % (b[1], str(b[2:])), r)
    ctx.obligation("tie:rank-deficient tall systems are reported (missing column: rank<n %d; dependent columns: rank<n %d, huge %d)"
                   % (stats["zero_col_rank_reported"], stats["dep_col_rank_reported"], stats["dep_col_huge"]),
                   not bad_def, "; ".join("case %d %s %s" % b for b in bad_def[:3]))
    for idx, name, what in bad_def[:1]:
        r = replay(idx)
        r.update({"routine": name, "observed": what})
        violation({"kind": "rank-unreported", "function": name, "class": cases[idx]["kind"]},
                  "%s: rank-deficient %dx%d system (%s): %s" % (name, r["m"], r["n"], cases[idx]["kind"], what), r)


# ---------------------------------------------------------------------------- badly scaled least squares
def scale_cols(m, exps):
    return [[(a * Fraction(2) ** e, b * Fraction(2) ** e) for (a, b), e in zip(row, exps)] for row in m]


def wide_exps(rng, k, lo=-60, hi=60):
    """k exponents in lo..hi, mixed within one vector: with k >= 2 at least one from the lowest and one
    from the highest quarter of the range (a spread of at least (hi - lo) / 2 binary orders)."""
    e = [rng.randint(lo, hi) for _ in range(k)]
    if k >= 2:
        i, j = rng.sample(range(k), 2)
        q = (hi - lo) // 4
        e[i] = rng.randint(lo, lo + q)
        e[j] = rng.randint(hi - q, hi)
    return e


def ls_bound(A, B, xm, m, n, o):
    """forward-error scale of a backward-stable least-squares solver on (A, B) with exact solution xm:
    eps (cond |x*| + cond^2 |r*| / |A|); returns (base, cond, |x*|)."""
    kappa = kappa_A(A, m, n)
    anorm = math.sqrt(sum(cabsf(v) ** 2 for row in A for v in row))
    xnorm = math.sqrt(sum(cabsf(v) ** 2 for v in xm))
    rs = 0.0
    for i in range(m):
        for k in range(o):
            s = (Fraction(0), Fraction(0))
            for j in range(n):
                s = cadd(s, cmul(A[i][j], xm[j * o + k]))
            rs += cabsf(csub(s, B[i][k])) ** 2
    return EPS * (kappa * xnorm + kappa * kappa * math.sqrt(rs) / anorm), kappa, xnorm


def ls_scaled_check(ctx, exe, run_both, violation, quick):
    """Full-column-rank tall systems whose columns (and, separately, rows) are scaled by exact powers
    of two 2^-60 .. 2^60, mixed within one matrix.  The exact rank (LsLu.ls_lu answers iff the column
    rank is full: LsLuProofs.ls_lu_answers_iff_full_rank) does not change under a nonzero scaling, so the
    C routines must report rank n; scaling column j by 2^e multiplies x_j by 2^-e exactly (also in
    binary64: every operation of the Householder sweep commutes with a power-of-two column scaling), so
    the unscaled C solution is held to the forward-error bound of the BASE system.  For row scaling
    (a differently weighted least-squares problem) the exact model runs on the scaled system when it is
    small (n <= 3, m <= 8) and the solution is compared when the bound of the scaled system is meaningful
    (<= 1e-6 |x|); for larger systems the exact rank is that of the base system (a nonzero row scaling does
    not change the kernel) and only the rank is asserted."""
    rng = ctx.rng
    shapes = []
    for n in ((2, 3, 4, 5) if quick else (2, 2, 3, 3, 4, 4, 5, 5, 6, 7, 8)):
        for _ in range(2 if quick else 4):
            shapes.append((n + rng.randint(1, 2 * n + 2), n))
    shapes += [(2, 1), (5, 1), (4, 2), (6, 2), (8, 2), (5, 3), (7, 3)]     # small: row-scaled solution compared too
    cases = []
    for (m, n) in shapes:
        for rel in ("col", "row", "row1"):
            A0 = rand_matrix(rng, m, n, 12)
            o = rng.randint(1, 2)
            consistent = rng.random() < 0.5 or rel != "col"
            if consistent:
                X0 = rand_matrix(rng, n, o, 6)
                B0 = [[(Fraction(0), Fraction(0))] * o for _ in range(m)]
                for i in range(m):
                    B0[i] = [(Fraction(0), Fraction(0))] * o
                    for k in range(o):
                        s = (Fraction(0), Fraction(0))
                        for j in range(n):
                            s = cadd(s, cmul(A0[i][j], X0[j][k]))
                        B0[i][k] = s
            else:
                B0 = rand_matrix(rng, m, o, 12)
            if rel == "col":
                if n < 2:
                    continue
                ex = wide_exps(rng, n)
                A, B = scale_cols(A0, ex), B0
                mA, mB = A0, B0                    # the exact model runs on the base system
            else:
                if rel == "row1":
                    # one equation weighted 2^(2h) times more heavily than the others
                    h = rng.randint(24, 60)
                    ex = [-h] * m
                    ex[rng.randrange(m)] = h
                else:
                    ex = wide_exps(rng, m)
                A, B = scale_rows(A0, ex), scale_rows(B0, ex)
                # small systems: the exact model runs on the scaled system (rationals with 2^+-120 in the
                # normal equations: slow on Coq's binary integers) and the solution is compared when the
                # bound is meaningful; larger ones: a nonzero row scaling does not change the kernel, so
                # the exact rank is the rank of the base system and only the rank is asserted
                if n <= 3 and m <= 8:
                    mA, mB = A, B
                else:
                    mA, mB = A0, B0
            assert exact_in_double(A) and exact_in_double(B)
            cases.append(dict(rel=rel, m=m, n=n, o=o, A=A, B=B, mA=mA, mB=mB, exps=ex, consistent=consistent,
                              rank_only=(rel != "col" and mA is A0)))
    mlines, clines = [], []
    for c in cases:
        mlines.append("ls %d %d %d %s %s" % (c["m"], c["n"], c["o"], mat_str(c["mA"], fs), mat_str(c["mB"], fs)))
        for op in ("qrsolve", "qr2"):
            clines.append("%s %d %d %d %s %s" % (op, c["m"], c["n"], c["o"], mat_str(c["A"], hx), mat_str(c["B"], hx)))
    ctx.log("badly scaled least squares: %d cases" % len(cases))
    ml, cl = run_both(mlines, clines, timeout=900)
    if ml is None:
        return
    ctx.log("badly scaled least squares: model and C done")
    stats = dict(col_scaled=0, row_scaled=0, row_scaled_solution_compared=0, row_scaled_rank_only=0, skipped_rank_deficient=0)
    bad_rank, bad_x = [], []
    worst = 0.0
    for idx, c in enumerate(cases):
        m, n, o = c["m"], c["n"], c["o"]
        mres = parse_m_line(ml[idx])
        cr = [parse_c_line(cl[2 * idx]), parse_c_line(cl[2 * idx + 1])]
        ctx.count(None, 2)
        if mres.get("none"):
            stats["skipped_rank_deficient"] += 1
            continue
        xm = mres["x"]
        base, kappa, xnorm = ls_bound(c["mA"], c["mB"], xm, m, n, o)
        tol = LS_C * base + 1e-300
        stats["col_scaled" if c["rel"] == "col" else "row_scaled"] += 1
        compare = c["rel"] == "col" or (not c["rank_only"] and tol <= 1e-6 * xnorm)
        if c["rel"] != "col":
            stats["row_scaled_solution_compared" if compare else "row_scaled_rank_only"] += 1
        for name, r in zip(("qrsolve", "qr+qrsolve2"), cr):
            if r["rank"] != n:
                bad_rank.append((idx, name, r["rank"]))
                continue
            if not compare:
                ctx.count(("ls-scaled-rank", name, idx), 0)
                continue
            xs = r["x"]
            if not all(finite(v) for v in xs):
                bad_x.append((idx, name, float("inf"), tol, kappa))
                continue
            xf = to_fr(xs)
            if c["rel"] == "col":
                # undo the column scaling exactly: x_j(base) = 2^e_j x_j(scaled)
                xf = [(a * Fraction(2) ** c["exps"][t // o], b * Fraction(2) ** c["exps"][t // o]) for t, (a, b) in enumerate(xf)]
            err = math.sqrt(sum(cabsf((a - u, b - w)) ** 2 for (a, b), (u, w) in zip(xf, xm)))
            if base > 0:
                worst = max(worst, err / base)
            if not err <= tol:
                bad_x.append((idx, name, err, tol, kappa))
            else:
                ctx.count(("ls-scaled", name, idx), 0)
        if idx % 7 == 0:
            ctx.sample({"ls_scaled": "%dx%d %s-scaled, exponents %s" % (m, n, c["rel"], c["exps"]), "rank_qrsolve": cr[0]["rank"],
                        "cond(model system)": kappa, "solution_compared": compare})
    ctx.traces_validated += 2 * len(cases)
    ctx.extra["ls_scaled_stats"] = stats
    ctx.extra["ls_scaled_worst_err_over_eps(cond|x|+cond^2|r|/|A|)"] = worst

    def replay(idx):
        c = cases[idx]
        return {"m": c["m"], "n": c["n"], "o": c["o"], "scaling": {"col": "columns", "row": "rows", "row1": "one heavy row"}[c["rel"]],
                "exponents_of_two": c["exps"],
                "A": [[[fs(a), fs(b)] for (a, b) in row] for row in c["A"]],
                "B": [[[fs(a), fs(b)] for (a, b) in row] for row in c["B"]],
                "harness": "harness/lu_harness.c ops qrsolve / qr2", "exact_rank": c["n"]}
    ctx.obligation("tie:full-rank tall systems with columns / rows scaled by 2^-60..2^60 are reported with rank n and solved "
                   "(%d column-scaled, %d row-scaled of which %d with the solution compared)"
                   % (stats["col_scaled"], stats["row_scaled"], stats["row_scaled_solution_compared"]),
                   not (bad_rank or bad_x),
                   "; ".join("case %d %s" % (b[0], b[1]) for b in (bad_rank + bad_x)[:3]))
    for idx, name, rank in bad_rank[:1]:
        r = replay(idx)
        r.update({"routine": name, "rank_reported": rank})
        violation({"kind": "least-squares-rank", "function": name, "class": "scaled-" + cases[idx]["rel"][:3]},
                  "%s: %dx%d system of exact column rank %d whose %s are scaled by powers of two %s is reported with rank %d "
                  "(callers turn rank < unknowns into EDOM 'singular linear system')"
                  % (name, r["m"], r["n"], r["n"], r["scaling"], cases[idx]["exps"], rank), r)
    for idx, name, err, tol, kappa in bad_x[:1]:
        r = replay(idx)
        r.update({"routine": name, "error": err, "tolerance": tol, "kappa": kappa})
        violation({"kind": "least-squares", "function": name, "class": "scaled-" + cases[idx]["rel"][:3]},
                  "%s: %dx%d system with %s scaled by powers of two: solution differs from the exact least-squares solution by "
                  "%.3g (bound %.3g)" % (name, r["m"], r["n"], r["scaling"], err, tol), r)

    # the same through the public API: an over-determined one-port calibration (4 reflects, 3 error terms)
    # whose measurements are expressed in units of 2^e; the corrected value must not depend on the unit
    qexe = ctx.build_harness("qr_harness", san=True)
    ccases = []
    for _ in range(4 if quick else 24):
        def small():
            return (Fraction(rng.randint(-12, 12), 64), Fraction(rng.randint(-12, 12), 64))
        e00, e11 = small(), small()
        e10e01 = (Fraction(rng.randint(48, 64), 64), Fraction(rng.randint(-12, 12), 64))
        stds = [(Fraction(-1), Fraction(0)), (Fraction(1), Fraction(0)), (Fraction(0), Fraction(0)),
                (Fraction(rng.randint(-16, 16), 32), Fraction(rng.choice([-1, 1]) * rng.randint(8, 24), 32))]
        rng.shuffle(stds)
        sdut = (Fraction(rng.randint(-20, 20), 32), Fraction(rng.randint(-20, 20), 32))
        for e in (0, rng.choice([-1, 1]) * rng.randint(45, 60), rng.randint(-60, 60)):
            ccases.append(dict(e=e, e00=e00, e10e01=e10e01, e11=e11, stds=stds, sdut=sdut))
    lines = ["cal1 %d %s" % (c["e"], " ".join("%s %s" % (hx(a), hx(b)) for (a, b) in [c["e00"], c["e10e01"], c["e11"]] + c["stds"] + [c["sdut"]]))
             for c in ccases]
    rc, out, err = vplib.sh([qexe], input="\n".join(lines) + "\n", timeout=300, env=ctx.run_env())
    if rc != 0:
        sig = vplib.asan_signature(err) or {"kind": "fault", "error": "exit %d" % rc, "function": None}
        violation(sig, "qr_harness failed on the scaled one-port calibrations: " + err[-300:], {"stderr": err[-3000:], "input": lines[:6]})
        return
    outs = out.strip().split("\n")
    bad_cal = []
    ncmp = 0
    control_ok = False
    for c, ln in zip(ccases, outs):
        f = dict(t.split("=") for t in ln.split()[1:5])
        p = ln.split()
        x = parse_c_vals(p[p.index("x=") + 1:p.index("x=") + 3])[0]
        good = f["solve"] == "0" and f["apply"] == "0" and finite(x) and \
            cabsf((Fraction(x[0]) - c["sdut"][0], Fraction(x[1]) - c["sdut"][1])) <= 1e-9
        ctx.count(("cal1", c["e"], len(bad_cal)) if good else None)
        if c["e"] == 0:
            control_ok = good       # ordinary units: if this fails the standards are badly conditioned, nothing asserted
            continue
        if not control_ok:
            continue
        ncmp += 1
        if not good:
            bad_cal.append((c, f, x))
    ctx.traces_validated += len(ccases)
    ctx.obligation("tie:over-determined one-port calibration (vnacal_new_solve, 4 reflects) gives the same corrected value with "
                   "measurements in units of 2^e, e = -60..60 (%d scaled runs)" % ncmp, not bad_cal,
                   "; ".join("e=%d solve=%s" % (b[0]["e"], b[1]["solve"]) for b in bad_cal[:3]))
    for c, f, x in bad_cal[:1]:
        violation({"kind": "least-squares-rank", "function": "vnacal_new_solve", "class": "scaled-units"},
                  "vnacal_new_solve / vnacal_apply_m: one-port E12 calibration from four reflect standards with measurements in units of 2^%d: "
                  "solve rc=%s apply rc=%s category=%s corrected=%s, with ordinary units the same calibration corrects the device to within 1e-9"
                  % (c["e"], f["solve"], f["apply"], f["category"], x),
                  {"unit_exponent": c["e"], "e00": [fs(v) for v in c["e00"]], "e10e01": [fs(v) for v in c["e10e01"]],
                   "e11": [fs(v) for v in c["e11"]], "standards": [[fs(a), fs(b)] for (a, b) in c["stds"]],
                   "dut": [fs(v) for v in c["sdut"]], "harness": "harness/qr_harness.c op cal1", "observed": ln})
