"""C17 - equivalent ways of describing the same calibration give the same result.

Theorems (coq/Properties_C17.v): through = line = mapped matrix and full vs abbreviated on the
structural model AddModel (tied to the library by C01's structural correspondence, repeated here on the
pairs), a/b scaling, order of the equations, port renumbering at matrix level (mathcomp, any n).
Tie / support: pairs of scenarios related by each transformation of the property run through the
public C API (harness/calcore_e2e.c); applied S-parameters compared to 1e-9 relative; for through /
line / mapped and full / abbreviated the structural dumps are compared exactly.  Also: 3-4-port
standards on permuted ports (full vs abbreviated), order on noisy data with m_error, and histories of
the interpolation hint of shared vector parameters (see docs/design_C17.md).
"""
import copy
import os
import random
import concurrent.futures

import vplib
import calcore
from calcore import TYPES, dims_allowed

TOL = 1e-9


def run_script(ctx, exe, text):
    rc, out, err = calcore.run_script(ctx, exe, text)
    return rc, calcore.parse_output(out) if rc == 0 else [], err


def applied(recs, name=None):
    aps = [x for k, x in recs if k == "apply" and "S" in x]
    return aps[-1]["S"] if aps else None


def rel_diff(a, b):
    if a is None or b is None or len(a) != len(b):
        return float("inf")
    w = 0.0
    for fa, fb in zip(a, b):
        sc = max([abs(x) for x in fa] + [1.0])
        if len(fa) != len(fb):
            return float("inf")
        for x, y in zip(fa, fb):
            d = abs(x - y) / sc
            if not d <= w:
                w = d
    return w


def eq_lines(recs):
    """equation / term lines of the dump (E, T, Y), without the measurement lines"""
    d = [x for k, x in recs if k == "dump"]
    if not d:
        return None
    return [l for l in d[0]["body"] if l[:1] in ("E", "T", "Y")]


def all_lines(recs):
    d = [x for k, x in recs if k == "dump"]
    return ([d[0]["line"]] + d[0]["body"]) if d else None


def refinish(rng, sc):
    for st in sc.stds:
        calcore.finish_std(rng, sc, st, sc.fill)


# ----------------------------------------------------------------------------- transformations
def t_entry(rng, sc):
    """through -> line (0,1;1,0) -> mapped matrix: three scenarios, identical structure and result"""
    if not any(st.fn == "th" for st in sc.stds):
        st = calcore.Std("th", rng.sample(range(1, sc.p + 1), 2), calcore.const_over_f(sc.F, [[0j, 1 + 0j], [1 + 0j, 0j]]), scalar=True)
        st.brows, st.bcols, st.form = sc.r, sc.c, "m"
        calcore.finish_std(rng, sc, st, sc.fill)
        sc.stds.append(st)
    out = []
    for fn in ("ln", "mm"):
        s2 = copy.deepcopy(sc)
        for st in s2.stds:
            if st.fn == "th":
                st.fn = fn
        out.append(s2)
    return out, "exact"


def t_full(rng, sc):
    """every standard given with the full measurement matrix"""
    s2 = copy.deepcopy(sc)
    changed = False
    for st in s2.stds:
        if (st.brows, st.bcols) != (sc.r, sc.c):
            st.brows, st.bcols = sc.r, sc.c
            changed = True
    refinish(rng, s2)
    return [s2], "equations" if not calcore.is_16(sc.typ) else "value"


def t_order(rng, sc):
    s2 = copy.deepcopy(sc)
    rng.shuffle(s2.stds)
    return [s2], "value"


def t_scale(rng, sc):
    """common scaling of simultaneous a and b readings"""
    s2 = copy.deepcopy(sc)
    for st in s2.stds:
        if st.form != "ab":
            st.form = "ab"
            st.A = [calcore.rand_a(rng, sc.typ, st.bcols) for _ in range(sc.F)]
    s1 = copy.deepcopy(s2)
    for st in s2.stds:
        for f in range(sc.F):
            if calcore.is_col(sc.typ):
                st.A[f] = [[x * (0.5 + rng.random()) * calcore.unit(rng) for x in st.A[f][0]]]
            else:
                d = calcore.rand_a(rng, sc.typ, st.bcols)
                st.A[f] = calcore.mmul(st.A[f], d)
    return [s1, s2], "value-pair"


def t_e12(rng, sc):
    s2 = copy.deepcopy(sc)
    s2.typ = "E12" if sc.typ == "UE14" else "UE14"
    return [s2], "value"


def t_renumber(rng, sc):
    """consistent renumbering of the VNA ports (square calibrations)"""
    p = sc.p
    perm = list(range(p))
    rng.shuffle(perm)            # old port i -> new port perm[i]

    def conj(m):
        out = calcore.zeros(p, p)
        for i in range(p):
            for j in range(p):
                out[perm[i]][perm[j]] = m[i][j]
        return out
    s2 = copy.deepcopy(sc)
    for f in range(sc.F):
        e = s2.enets[f]
        if e["kind"] == "common":
            for k in ("er", "et", "em", "el"):
                e[k] = conj(e[k])
        else:
            cols = [None] * p
            for c in range(p):
                old = e["cols"][c]
                new = {"et": old["et"]}
                for k in ("er", "em", "el"):
                    v = [0j] * p
                    for i in range(p):
                        v[perm[i]] = old[k][i]
                    new[k] = v
                cols[perm[c]] = new
            e["cols"] = cols
        s2.fill[f] = conj(s2.fill[f])
        s2.dut[f] = conj(s2.dut[f])
    for st in s2.stds:
        st.ports = [perm[q - 1] + 1 for q in st.ports]
        if st.fn == "mm" and not st.mapflag:
            st.mapflag = 1
    refinish(rng, s2)
    s2.perm = perm
    return [s2], "renumber"


def add_multiport(rng, sc, k):
    """a k-port standard on randomly ordered ports, measurement matrix as abbreviated as the type allows"""
    ports = rng.sample(range(1, sc.p + 1), k)
    S = calcore.const_over_f(sc.F, calcore.rand_full_s(rng, k, 1.6))
    st = calcore.Std("mm", ports, S, scalar=True)
    rows, cols = calcore.m_shape_options(sc.typ, sc.r, sc.c, st)
    st.brows, st.bcols = rows[-1], cols[-1]
    st.form = rng.choice(["m", "ab"])
    calcore.finish_std(rng, sc, st, sc.fill)
    sc.stds.insert(rng.randrange(len(sc.stds) + 1), st)


def t_full_multi(rng, sc):
    """full vs abbreviated with 3- and 4-port standards on arbitrarily permuted ports"""
    for _ in range(3):
        if sc.p >= 3:
            add_multiport(rng, sc, rng.randint(3, sc.p) if sc.p > 3 and rng.random() < 0.3 else 3)
    return t_full(rng, sc)


def t_order_noisy(rng, sc):
    """order of the standards on inconsistent (noisy) over-determined data with measurement-error modelling"""
    sc.merror = (1e-3, 1e-3)
    for st in sc.stds:
        for f in range(sc.F):
            for row in st.Mfull[f]:
                for j in range(len(row)):
                    row[j] += complex(rng.uniform(-1, 1), rng.uniform(-1, 1)) * 2e-4
    s2 = copy.deepcopy(sc)
    rng.shuffle(s2.stds)
    s3 = copy.deepcopy(sc)
    s3.stds.reverse()
    return [s2, s3], "value-strict"


TRANSFORMS = [("through=line=mapped", t_entry), ("full=abbreviated", t_full), ("order", t_order),
              ("ab-scaling", t_scale), ("E12=UE14", t_e12), ("renumbering", t_renumber),
              ("full=abbreviated(3-4 ports)", t_full_multi), ("order(noisy,m_error)", t_order_noisy)]


# ----------------------------------------------------------------------------- interpolation-hint histories
class HintScript(calcore.Script):
    """Frequency-dependent standards are given on a 12-point table that does not contain the calibration
    frequencies (values S(f0) exp(j phi (f - f0)/f0): a delay line), so that the library interpolates."""
    def param(self, values, freqs, allow_predef=True):
        import cmath
        if all(v == values[0] for v in values) or values[0] == 0:
            return calcore.Script.param(self, values, freqs, allow_predef)
        f0 = freqs[0]
        phi = cmath.log(values[1] / values[0]).imag / ((freqs[1] - f0) / f0)
        knots = [f0 * (0.2 + 0.35 * j) for j in range(12)]     # calibration points fall into lower halves of inner segments
        vals = [values[0] * cmath.exp(1j * phi * (g - f0) / f0) for g in knots]
        pid = self.npar
        self.npar += 1
        self.lines.append("vector %d %d %s %s" % (pid, len(knots), " ".join(calcore.hx(g) for g in knots),
                                                  " ".join(calcore.cx(v) for v in vals)))
        self.vector_queries.append((pid, knots[-2] + 0.41 * (knots[-1] - knots[-2])))
        return "p%d" % pid


def delay_line_standards(rng, sc):
    """make every frequency-dependent standard a pure phase rotation over frequency"""
    import cmath
    f0 = sc.freqs[0]
    for st in sc.stds:
        if st.scalar:
            continue
        k = len(st.S[0])
        phi = [[rng.uniform(0.3, 1.2) for _ in range(k)] for _ in range(k)]
        base = st.S[0]
        st.S = [[[base[a][b] * cmath.exp(1j * phi[a][b] * (f - f0) / f0) for b in range(k)] for a in range(k)]
                for f in sc.freqs]
    refinish(rng, sc)


def hint_scripts(rng, sc):
    """[(label, text)]: the same calibration after different histories of its vector parameters"""
    s = HintScript()
    calcore.scenario_script(sc, script=s, dump=False)
    s.vector_queries, vq = [], s.vector_queries        # no queries in the base script
    base = [l for l in s.lines if not l.startswith("pvalue ")]
    i = base.index("solve 0")
    out = [("base", "\n".join(base) + "\n")]
    if not vq:
        return out
    q = ["pvalue %d %s" % (pid, calcore.hx(f)) for pid, f in vq]
    out.append(("queried above the band first", "\n".join(base[:i] + q + base[i:]) + "\n"))
    out.append(("second solve", "\n".join(base[:i] + ["solve 0"] + base[i:]) + "\n"))
    # an unrelated 1x1 calibration in a higher band that uses the same kit parameter, solved first
    pid = vq[0][0]
    f0 = sc.freqs[0]
    hi = [f0 * 2.95, f0 * 3.4]
    other = ["scalar 900 %s %s" % (calcore.hx(-0.9), calcore.hx(0.1)), "scalar 901 %s %s" % (calcore.hx(0.8), calcore.hx(-0.2)),
             "new 1 0 1 1 2 %s %s" % (calcore.hx(hi[0]), calcore.hx(hi[1]))]
    for k, tok in enumerate(["p%d" % pid, "p900", "p901"]):
        other.append("add 1 sr m 0 0 1 1 %s %s %s %s %s 1" % (calcore.hx(0.3 + 0.2 * k), calcore.hx(0.1 * k),
                                                             calcore.hx(0.25 + 0.2 * k), calcore.hx(-0.1 * k), tok))
    other += ["solve 1", "addcal 1 hiband"]
    out.append(("unrelated higher-band calibration sharing the parameter first", "\n".join(base[:i] + other + base[i:]) + "\n"))
    return out


def script_of(sc, dump=True):
    return calcore.scenario_script(sc, dump=dump).text()


def run(ctx):
    ctx.level = "proof"
    ctx.trusted_base = [
        "Coq 8.16.1 kernel; vm_compute for the bounded enumeration of full_eq_abbreviated; mathcomp for the matrix theorems",
        "models coq/Cal/AddModel.v, TermsModel.v tied to the library by the structural correspondence of check C01 (and the pair dumps here)",
        "exact field arithmetic in place of binary64; the relations are checked on the C API to 1e-9 (support)",
        "gcc, ASan/UBSan/LSan",
    ]
    ctx.assumptions = ["exact arithmetic stands for binary64", "well-conditioned, model-consistent data"]
    ctx.rule = ("one evaluation = one pair (or triple) of complete calibration scenarios related by one transformation, run "
                "through the public API; distinct non-trivial = pairs in which both sides solved and were compared")
    files = ["Gen/LayoutGen.v", "Cal/TermsModel.v", "Cal/AddModel.v", "Cal/TermsProofs.v", "Cal/C17Proofs.v",
             "Cal/CalAlgebra.v", "Properties_C17.v"]
    # Gen/LayoutGen.v is regenerated by the translator of C01
    import layout as T5
    try:
        text, info = T5.generate(os.path.join(ctx.repo, "src"))
        ctx.write_if_changed(os.path.join(vplib.COQDIR, "Gen", "LayoutGen.v"), text)
        ctx.obligation("T5:translate", True)
    except T5.TranslateError as e:
        ctx.obligation("T5:translate", False, str(e))
    coq_ok, res = ctx.coq_obligations(files)
    if not coq_ok:
        # shared coq/ tree: a build failure must be reproducible to count
        import time
        time.sleep(3)
        n0 = len(ctx.obligations)
        ok2, res2 = ctx.coq_obligations(files)
        if ok2:
            nnew = len(ctx.obligations) - n0
            del ctx.obligations[n0 - nnew:n0]
            coq_ok, res = ok2, res2
        else:
            del ctx.obligations[n0:]

    exe = ctx.build_harness("calcore_e2e", san=True, wrap=True, defines=["CALCORE_WRAP"])
    npairs = 28 if ctx.tier == "quick" else 120
    jobs = []
    for tname, tf in TRANSFORMS:
        for i in range(npairs):
            rng = random.Random(ctx.rng.getrandbits(64))
            while True:
                typ = rng.choice(TYPES)
                if tname == "E12=UE14":
                    typ = rng.choice(["UE14", "E12"])
                r, c = rng.randint(1, 4), rng.randint(1, 4)
                if not dims_allowed(typ, r, c) or not calcore.apply_accepts(r, c):
                    continue
                if tname == "renumbering" and r != c:
                    continue
                if tname in ("through=line=mapped",) and max(r, c) < 2:
                    continue
                if tname == "full=abbreviated(3-4 ports)" and (max(r, c) < 4 or calcore.is_16(typ) and rng.random() < 0.5):
                    continue
                if tname == "order(noisy,m_error)" and (calcore.is_16(typ) or max(r, c) < 2):
                    continue
                if tname == "order(noisy,m_error)" and i % 2 == 0 and not (typ in ("UE14", "E12") and c >= 2):
                    continue
                break
            form = "ab" if tname == "ab-scaling" else None
            sc = calcore.gen_scenario(rng, typ, r, c, rng.randint(1, 3), form=form)
            others, mode = tf(rng, sc)
            group = ([sc] if mode != "value-pair" else []) + others
            jobs.append((tname, mode, group, sc))
    # unrelated calibrations in the same vnacal_t; frequencies together vs one at a time
    special = []
    for i in range(npairs):
        rng = random.Random(ctx.rng.getrandbits(64))
        typ = rng.choice(TYPES)
        while True:
            r, c = rng.randint(1, 3), rng.randint(1, 3)
            if dims_allowed(typ, r, c) and calcore.apply_accepts(r, c):
                break
        sc = calcore.gen_scenario(rng, typ, r, c, rng.randint(2, 3))
        typ2 = rng.choice(TYPES)
        while True:
            r2, c2 = rng.randint(1, 3), rng.randint(1, 3)
            if dims_allowed(typ2, r2, c2):
                break
        other = calcore.gen_scenario(rng, typ2, r2, c2, rng.randint(1, 2))
        other.name = "other"
        special.append((sc, other))

    hint_jobs = []
    for i in range(npairs):
        rng = random.Random(ctx.rng.getrandbits(64))
        typ = rng.choice(TYPES)
        while True:
            r, c = rng.randint(1, 3), rng.randint(1, 3)
            if dims_allowed(typ, r, c) and calcore.apply_accepts(r, c):
                break
        sc = calcore.gen_scenario(rng, typ, r, c, rng.randint(2, 3), vector_prob=0.9)
        delay_line_standards(rng, sc)
        hint_jobs.append((sc, hint_scripts(rng, sc)))

    def run_hint(job):
        sc, scripts = job
        return [(label,) + run_script(ctx, exe, text) for label, text in scripts]

    def run_group(job):
        tname, mode, group, sc = job
        return [run_script(ctx, exe, script_of(g)) for g in group]

    def run_special(pair):
        sc, other = pair
        base = run_script(ctx, exe, script_of(sc, dump=False))
        # (a) another calibration built in slot 1 and added before, and one more after this one is added
        s = calcore.Script()
        calcore.scenario_script(other, slot=1, script=s, do_apply=False)
        calcore.scenario_script(sc, slot=0, script=s, do_apply=False)
        other2 = copy.copy(other)
        other2.name = "other2"
        calcore.scenario_script(other2, slot=2, script=s, do_apply=False)
        mats = [calcore.dut_measurement(sc, f) for f in range(sc.F)]
        s.apply(sc, sc.name, sc.apply_form, mats, sc.apply_A)
        mixed = run_script(ctx, exe, s.text())
        # (b) one frequency at a time
        singles = []
        for f in range(sc.F):
            s1 = copy.deepcopy(sc)
            s1.F = 1
            s1.freqs = [sc.freqs[f]]
            s1.enets = [sc.enets[f]]
            s1.dut = [sc.dut[f]]
            s1.apply_A = [sc.apply_A[f]]
            s1.fill = [sc.fill[f]]
            for st in s1.stds:
                st.S = [st.S[f]]
                st.Sfull = [st.Sfull[f]]
                st.Mfull = [st.Mfull[f]]
                if st.A is not None:
                    st.A = [st.A[f]]
            singles.append(run_script(ctx, exe, script_of(s1, dump=False)))
        return base, mixed, singles

    with concurrent.futures.ThreadPoolExecutor(max_workers=min(8, vplib.NPROC)) as ex:
        gres = list(ex.map(run_group, jobs))
        sres = list(ex.map(run_special, special))
        hres = list(ex.map(run_hint, hint_jobs))

    bad = []
    worst = {}
    used = 0

    def fault(rc, err, what, sc):
        sig = vplib.asan_signature(err) or {"kind": "fault", "error": "exit %d" % rc, "function": None}
        bad.append((sig, "%s (%s %dx%d): harness stopped: %s" % (what, sc.typ, sc.r, sc.c, err.strip().split("\n")[0][:160]), sc))

    for (tname, mode, group, sc), results in zip(jobs, gres):
        ctx.count()
        if any(rc != 0 for rc, _, _ in results):
            rc, _, err = [x for x in results if x[0] != 0][0]
            fault(rc, err, tname, sc)
            continue
        outs = [applied(recs) for _, recs, _ in results]
        if any(o is None for o in outs):
            lines = [[x["line"] for k, x in recs if k in ("solve", "apply") or (k == "add" and x.get("rc") != "0")] for _, recs, _ in results]
            bad.append(({"kind": "pair", "transformation": tname, "class": "one-side-failed", "type": sc.typ},
                        "%s on %s %dx%d: one side failed: %s" % (tname, sc.typ, sc.r, sc.c, lines), sc))
            continue
        ref = outs[0]
        d = 0.0
        for g, o in zip(group[1:], outs[1:]):
            if mode == "renumber":
                perm = g.perm
                p = sc.p
                conj = []
                for fm in ref:
                    m = [0j] * (p * p)
                    for i in range(p):
                        for j in range(p):
                            m[perm[i] * p + perm[j]] = fm[i * p + j]
                    conj.append(m)
                d = max(d, rel_diff(conj, o))
            else:
                d = max(d, rel_diff(ref, o))
        worst[tname] = max(worst.get(tname, 0.0), d)
        problem = None
        if not d <= TOL:
            # ill-conditioned draw? both sides must then also be far from the true DUT matrix
            truth = [[x for row in sc.dut[f] for x in row] for f in range(sc.F)]
            if mode not in ("renumber", "value-strict") and rel_diff(truth, ref) > TOL:
                continue
            problem = "applied S-parameters differ by %.3g relative" % d
        if problem is None and mode == "exact":
            dumps = [all_lines(recs) for _, recs, _ in results]
            if any(x != dumps[0] for x in dumps[1:]):
                problem = "structure dumps of through / line / mapped matrix differ"
            elif any(o != ref for o in outs[1:]):
                problem = "applied S-parameters of through / line / mapped matrix are not bit-identical"
        if problem is None and mode == "equations":
            e = [eq_lines(recs) for _, recs, _ in results]
            if e[0] != e[1]:
                problem = "equations generated from abbreviated and full matrices differ"
        if problem:
            bad.append(({"kind": "pair", "transformation": tname, "class": "differ", "type": sc.typ},
                        "%s on %s %dx%d: %s" % (tname, sc.typ, sc.r, sc.c, problem), sc))
        else:
            used += 1
            ctx.extra.setdefault("pairs_per_transformation", {})
            ctx.extra["pairs_per_transformation"][tname] = ctx.extra["pairs_per_transformation"].get(tname, 0) + 1
            ctx.nontrivial.add((tname, used))
            if used % 11 == 0:
                ctx.sample({"transformation": tname, "scenario": calcore.describe(sc), "relative_difference": d})
    for (sc, other), (base, mixed, singles) in zip(special, sres):
        ctx.count()
        runs = [base, mixed] + singles
        if any(rc != 0 for rc, _, _ in runs):
            rc, _, err = [x for x in runs if x[0] != 0][0]
            fault(rc, err, "unrelated/frequencies", sc)
            continue
        ref = applied(base[1])
        mix = applied(mixed[1])
        if ref is None or mix is None:
            bad.append(({"kind": "pair", "transformation": "unrelated", "class": "one-side-failed", "type": sc.typ},
                        "unrelated calibrations on %s %dx%d: a side failed" % (sc.typ, sc.r, sc.c), sc))
            continue
        if mix != ref:
            bad.append(({"kind": "pair", "transformation": "unrelated", "class": "differ", "type": sc.typ},
                        "adding unrelated calibrations to the same vnacal_t changed the applied S-parameters of %s %dx%d (difference %.3g)"
                        % (sc.typ, sc.r, sc.c, rel_diff(ref, mix)), sc))
            continue
        worst["unrelated"] = 0.0
        one = [applied(recs) for _, recs, _ in singles]
        if any(o is None for o in one):
            bad.append(({"kind": "pair", "transformation": "frequencies", "class": "one-side-failed", "type": sc.typ},
                        "frequencies one at a time on %s %dx%d: a single-frequency run failed" % (sc.typ, sc.r, sc.c), sc))
            continue
        d = rel_diff(ref, [o[0] for o in one])
        worst["frequencies"] = max(worst.get("frequencies", 0.0), d)
        if not d <= TOL:
            truth = [[x for row in sc.dut[f] for x in row] for f in range(sc.F)]
            if rel_diff(truth, ref) > TOL:
                continue
            bad.append(({"kind": "pair", "transformation": "frequencies", "class": "differ", "type": sc.typ},
                        "solving frequencies together vs one at a time differs by %.3g on %s %dx%d" % (d, sc.typ, sc.r, sc.c), sc))
            continue
        used += 2
        ctx.nontrivial.add(("special", used))
    nh = 0
    for (sc, scripts), results in zip(hint_jobs, hres):
        ctx.count()
        if len(results) < 2:
            continue            # no frequency-dependent standard in this draw
        if any(rc != 0 for _, rc, _, _ in results):
            _, rc, _, err = [x for x in results if x[1] != 0][0]
            fault(rc, err, "interpolation-hint history", sc)
            continue
        outs = [(label, applied(recs), [x["E"] for k, x in recs if k == "terms" and "E" in x]) for label, _, recs, _ in results]
        if outs[0][1] is None:
            continue            # base run did not solve (inconsistent draw): nothing to compare
        bad_here = None
        for label, o, e in outs[1:]:
            d = rel_diff(outs[0][1], o)
            if e and outs[0][2]:
                d = max(d, rel_diff(outs[0][2][-1], e[-1]))
            worst["hint-history"] = max(worst.get("hint-history", 0.0), d if d == d else 0.0)
            if not d <= TOL:
                bad_here = (label, d)
                break
        if bad_here:
            bad.append(({"kind": "pair", "transformation": "hint-history", "class": "differ", "type": sc.typ},
                        "%s %dx%d with frequency-dependent standards: result after '%s' differs from the plain run by %.3g "
                        "(the value of a vector parameter depends on where it was evaluated before)" % (
                            sc.typ, sc.r, sc.c, bad_here[0], bad_here[1]), sc))
        else:
            used += 1
            nh += 1
            ctx.nontrivial.add(("hint", nh))
    ctx.extra["hint_history_groups_compared"] = nh
    ctx.traces_validated += used
    ctx.extra["pairs_compared"] = used
    ctx.extra["worst_relative_difference"] = worst
    total = len(jobs) + len(special) + len(hint_jobs)
    ok = not bad and used >= total * 3 // 4
    ctx.obligation("tie:pairs of equivalent descriptions / histories through the C API (11 transformations)", ok,
                   bad[0][1] if bad else ("only %d of %d pairs usable" % (used, total) if not ok else ""))
    seen = set()
    for sig, what, sc in bad:
        k = tuple(sorted((a, str(b)) for a, b in sig.items()))
        if k in seen:
            continue
        seen.add(k)
        ctx.violation(sig, what, {"scenario": calcore.describe(sc), "script_of_first_side": script_of(sc)[:150000]})
    if not coq_ok and not ctx.violations:
        log = getattr(ctx, "_last_coq_log", "")
        ctx.unproved("C17:coq", "Coq development no longer builds: " + log[-400:].replace("\n", " "),
                     "pairs of scenarios for every transformation through the C API")
