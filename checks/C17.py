"""C17 - equivalent ways of describing the same calibration give the same result.

Theorems (coq/Properties_C17.v), on the structural model AddModel: the three entry points through / line /
mapped matrix build the same arguments (by construction); the port-map sort sorts and the B cell -> M cell
map does not depend on the order of the port map (all arguments); bounded sweep full vs abbreviated
(acceptance, where the values are stored, S / connectivity, equations); a permutation of the add calls
permutes the rows of every system (all lists).  Matrix algebra only (mathcomp): a/b scaling, order of the
equations (A^H A), conjugation of the T-form equation.
Ties (white box, exact): (1) the model ENTRY POINTS (extracted add_single_reflect .. add_mapped_matrix) against
the C wrappers on random call sequences - outcome and structure dump including the B cell -> M cell map read
back from vnm_m_matrix (tagged cells); (2) on the C side alone, a full matrix whose cells carry their own
index and its abbreviations (rows / columns of the ports in ascending order): every value must land in the
cell the full call puts it in.
Support: pairs of scenarios related by each transformation of the property run through the public C API
(harness/calcore_e2e.c); applied S-parameters compared to 1e-9 relative; for through / line / mapped and
full / abbreviated the structural dumps are compared exactly, for port renumbering the connectivity
matrices must be renumbered copies.  Also: 3-4-port standards on permuted ports (full vs abbreviated),
4-port standards with non-reciprocal zero patterns (renumbering, order), order on noisy data with m_error,
and histories of the interpolation hint of shared vector parameters (see docs/design_C17.md).
"""
import copy
import os
import random
import concurrent.futures

import vplib
import calcore
from calcore import TYPES, dims_allowed

TOL = 1e-9


def run_script(ctx, exe, text):
    rc, out, err = calcore.run_script(ctx, exe, text)
    return rc, calcore.parse_output(out) if rc == 0 else [], err


def applied(recs, name=None):
    aps = [x for k, x in recs if k == "apply" and "S" in x]
    return aps[-1]["S"] if aps else None


def rel_diff(a, b):
    if a is None or b is None or len(a) != len(b):
        return float("inf")
    w = 0.0
    for fa, fb in zip(a, b):
        sc = max([abs(x) for x in fa] + [1.0])
        if len(fa) != len(fb):
            return float("inf")
        for x, y in zip(fa, fb):
            d = abs(x - y) / sc
            if not d <= w:
                w = d
    return w


def eq_lines(recs):
    """equation / term lines of the dump (E, T, Y), without the measurement lines"""
    d = [x for k, x in recs if k == "dump"]
    if not d:
        return None
    return [l for l in d[0]["body"] if l[:1] in ("E", "T", "Y")]


def all_lines(recs):
    d = [x for k, x in recs if k == "dump"]
    return ([d[0]["line"]] + d[0]["body"]) if d else None


def refinish(rng, sc):
    for st in sc.stds:
        calcore.finish_std(rng, sc, st, sc.fill)


# ----------------------------------------------------------------------------- transformations
def t_entry(rng, sc):
    """through -> line (0,1;1,0) -> mapped matrix: three scenarios, identical structure and result"""
    if not any(st.fn == "th" for st in sc.stds):
        st = calcore.Std("th", rng.sample(range(1, sc.p + 1), 2), calcore.const_over_f(sc.F, [[0j, 1 + 0j], [1 + 0j, 0j]]), scalar=True)
        st.brows, st.bcols, st.form = sc.r, sc.c, "m"
        calcore.finish_std(rng, sc, st, sc.fill)
        sc.stds.append(st)
    out = []
    for fn in ("ln", "mm"):
        s2 = copy.deepcopy(sc)
        for st in s2.stds:
            if st.fn == "th":
                st.fn = fn
        out.append(s2)
    return out, "exact"


def t_full(rng, sc):
    """every standard given with the full measurement matrix"""
    s2 = copy.deepcopy(sc)
    changed = False
    for st in s2.stds:
        if (st.brows, st.bcols) != (sc.r, sc.c):
            st.brows, st.bcols = sc.r, sc.c
            changed = True
    refinish(rng, s2)
    return [s2], "equations" if not calcore.is_16(sc.typ) else "value"


def t_order(rng, sc):
    s2 = copy.deepcopy(sc)
    rng.shuffle(s2.stds)
    return [s2], "value"


def t_scale(rng, sc):
    """common scaling of simultaneous a and b readings"""
    s2 = copy.deepcopy(sc)
    for st in s2.stds:
        if st.form != "ab":
            st.form = "ab"
            st.A = [calcore.rand_a(rng, sc.typ, st.bcols) for _ in range(sc.F)]
    s1 = copy.deepcopy(s2)
    for st in s2.stds:
        for f in range(sc.F):
            if calcore.is_col(sc.typ):
                st.A[f] = [[x * (0.5 + rng.random()) * calcore.unit(rng) for x in st.A[f][0]]]
            else:
                d = calcore.rand_a(rng, sc.typ, st.bcols)
                st.A[f] = calcore.mmul(st.A[f], d)
    # joint scaling of every simultaneous (a, b) reading - of the standards AND of the device reading handed to
    # vnacal_apply - by factors spanning 1e-9 .. 1e9 (powers of two and of ten, both directions).  b is computed from
    # the measurement and a (linear in a), so scaling a scales b by the same factor.  s3: one common factor for the
    # whole run; s4: an independent factor per reading (standard, frequency, device reading).
    s1.apply_form = s2.apply_form = "ab"

    def scaled(base, pick):
        s = copy.deepcopy(base)
        for st in s.stds:
            for f in range(sc.F):
                k = pick()
                st.A[f] = [[x * k for x in row] for row in st.A[f]]
        for f in range(sc.F):
            k = pick()
            s.apply_A[f] = [[x * k for x in row] for row in s.apply_A[f]]
        return s
    k0 = rng.choice(AB_SCALES)
    s3 = scaled(s1, lambda: k0)
    s4 = scaled(s1, lambda: rng.choice(AB_SCALES))
    return [s1, s2, s3, s4], "value-pair"


# factors for the joint scaling of a and b readings: 2^-30 (9.3e-10) .. 2^30 and 1e-9 .. 1e9
AB_SCALES = [2.0 ** e for e in (-30, -27, -23, -20, -13, -10, 10, 13, 20, 23, 27, 30)] + \
            [10.0 ** e for e in (-9, -8, -7, -6, -5, -4, -3, 3, 4, 5, 6, 7, 8, 9)]


def t_e12(rng, sc):
    s2 = copy.deepcopy(sc)
    s2.typ = "E12" if sc.typ == "UE14" else "UE14"
    return [s2], "value"


def t_renumber(rng, sc):
    """consistent renumbering of the VNA ports (square calibrations)"""
    p = sc.p
    perm = list(range(p))
    rng.shuffle(perm)            # old port i -> new port perm[i]

    def conj(m):
        out = calcore.zeros(p, p)
        for i in range(p):
            for j in range(p):
                out[perm[i]][perm[j]] = m[i][j]
        return out
    s2 = copy.deepcopy(sc)
    for f in range(sc.F):
        e = s2.enets[f]
        if e["kind"] == "common":
            for k in ("er", "et", "em", "el"):
                e[k] = conj(e[k])
        else:
            cols = [None] * p
            for c in range(p):
                old = e["cols"][c]
                new = {"et": old["et"]}
                for k in ("er", "em", "el"):
                    v = [0j] * p
                    for i in range(p):
                        v[perm[i]] = old[k][i]
                    new[k] = v
                cols[perm[c]] = new
            e["cols"] = cols
        s2.fill[f] = conj(s2.fill[f])
        s2.dut[f] = conj(s2.dut[f])
    for st in s2.stds:
        st.ports = [perm[q - 1] + 1 for q in st.ports]
        if st.fn == "mm" and not st.mapflag:
            st.mapflag = 1
    refinish(rng, s2)
    s2.perm = perm
    return [s2], "renumber"


def add_multiport(rng, sc, k):
    """a k-port standard on randomly ordered ports, measurement matrix as abbreviated as the type allows"""
    ports = rng.sample(range(1, sc.p + 1), k)
    S = calcore.const_over_f(sc.F, calcore.rand_full_s(rng, k, 1.6))
    st = calcore.Std("mm", ports, S, scalar=True)
    rows, cols = calcore.m_shape_options(sc.typ, sc.r, sc.c, st)
    st.brows, st.bcols = rows[-1], cols[-1]
    st.form = rng.choice(["m", "ab"])
    calcore.finish_std(rng, sc, st, sc.fill)
    sc.stds.insert(rng.randrange(len(sc.stds) + 1), st)


def t_full_multi(rng, sc):
    """full vs abbreviated with 3- and 4-port standards on arbitrarily permuted ports"""
    for _ in range(3):
        if sc.p >= 3:
            add_multiport(rng, sc, rng.randint(3, sc.p) if sc.p > 3 and rng.random() < 0.3 else 3)
    return t_full(rng, sc)


def t_order_noisy(rng, sc):
    """order of the standards on inconsistent (noisy) over-determined data with measurement-error modelling"""
    sc.merror = (1e-3, 1e-3)
    for st in sc.stds:
        for f in range(sc.F):
            for row in st.Mfull[f]:
                for j in range(len(row)):
                    row[j] += complex(rng.uniform(-1, 1), rng.uniform(-1, 1)) * 2e-4
    s2 = copy.deepcopy(sc)
    rng.shuffle(s2.stds)
    s3 = copy.deepcopy(sc)
    s3.stds.reverse()
    return [s2, s3], "value-strict"


uf_depth = calcore.uf_depth


def add_nonreciprocal(rng, sc, n=2):
    """fully known 4-port standards (couplers / isolators) whose pattern of known-zero off-diagonal cells is
    directional; half of them chosen such that the union-find scan of the full S matrix leaves a chain"""
    p = sc.p
    for _ in range(n):
        k = p
        for attempt in range(200):
            ports = rng.sample(range(1, p + 1), k)
            nz = set()
            cells = [(a, b) for a in range(k) for b in range(k) if a != b]
            for cell in rng.sample(cells, rng.randint(3, 4)):
                nz.add(cell)
            full_nz = set((ports[a] - 1, ports[b] - 1) for a, b in nz)
            if attempt >= 100 or rng.random() < 0.3 or uf_depth(p, full_nz) >= 2:
                break
        pat = [[0j] * k for _ in range(k)]
        for a in range(k):
            for b in range(k):
                if a == b:
                    pat[a][b] = calcore.small(rng, 1.6)
                elif (a, b) in nz:
                    pat[a][b] = (0.75 + rng.randint(0, 8) / 32.0) * calcore.unit(rng)
        st = calcore.Std("mm", ports, calcore.const_over_f(sc.F, pat), scalar=True)
        st.first_of = []
        st.brows, st.bcols = sc.r, sc.c
        st.form = rng.choice(["m", "ab"])
        calcore.finish_std(rng, sc, st, sc.fill)
        sc.stds.insert(rng.randrange(len(sc.stds) + 1), st)


def t_renumber_nr(rng, sc):
    """port renumbering with 4-port mapped-matrix standards whose zero pattern is non-reciprocal"""
    add_nonreciprocal(rng, sc)
    return t_renumber(rng, sc)


def t_order_nr(rng, sc):
    add_nonreciprocal(rng, sc)
    s2 = copy.deepcopy(sc)
    rng.shuffle(s2.stds)
    s3 = copy.deepcopy(sc)
    s3.stds.reverse()
    return [s2, s3], "value"


NR_TYPES = ["TE10", "UE10", "UE14", "E12", "TE10", "UE10", "UE14", "E12", "T8", "U8", "T16"]

TRANSFORMS = [("through=line=mapped", t_entry), ("full=abbreviated", t_full), ("order", t_order),
              ("ab-scaling", t_scale), ("E12=UE14", t_e12), ("renumbering", t_renumber),
              ("full=abbreviated(3-4 ports)", t_full_multi), ("order(noisy,m_error)", t_order_noisy),
              ("renumbering(4-port non-reciprocal)", t_renumber_nr), ("order(4-port non-reciprocal)", t_order_nr)]


# ----------------------------------------------------------------------------- interpolation-hint histories
class HintScript(calcore.Script):
    """Frequency-dependent standards are given on a 12-point table that does not contain the calibration
    frequencies (values S(f0) exp(j phi (f - f0)/f0): a delay line), so that the library interpolates."""
    def param(self, values, freqs, allow_predef=True):
        import cmath
        if all(v == values[0] for v in values) or values[0] == 0:
            return calcore.Script.param(self, values, freqs, allow_predef)
        f0 = freqs[0]
        phi = cmath.log(values[1] / values[0]).imag / ((freqs[1] - f0) / f0)
        knots = [f0 * (0.2 + 0.35 * j) for j in range(12)]     # calibration points fall into lower halves of inner segments
        vals = [values[0] * cmath.exp(1j * phi * (g - f0) / f0) for g in knots]
        pid = self.npar
        self.npar += 1
        self.lines.append("vector %d %d %s %s" % (pid, len(knots), " ".join(calcore.hx(g) for g in knots),
                                                  " ".join(calcore.cx(v) for v in vals)))
        self.vector_queries.append((pid, knots[-2] + 0.41 * (knots[-1] - knots[-2])))
        return "p%d" % pid


def delay_line_standards(rng, sc):
    """make every frequency-dependent standard a pure phase rotation over frequency"""
    import cmath
    f0 = sc.freqs[0]
    for st in sc.stds:
        if st.scalar:
            continue
        k = len(st.S[0])
        phi = [[rng.uniform(0.3, 1.2) for _ in range(k)] for _ in range(k)]
        base = st.S[0]
        st.S = [[[base[a][b] * cmath.exp(1j * phi[a][b] * (f - f0) / f0) for b in range(k)] for a in range(k)]
                for f in sc.freqs]
    refinish(rng, sc)


def hint_scripts(rng, sc):
    """[(label, text)]: the same calibration after different histories of its vector parameters"""
    s = HintScript()
    calcore.scenario_script(sc, script=s, dump=False)
    s.vector_queries, vq = [], s.vector_queries        # no queries in the base script
    base = [l for l in s.lines if not l.startswith("pvalue ")]
    i = base.index("solve 0")
    out = [("base", "\n".join(base) + "\n")]
    if not vq:
        return out
    q = ["pvalue %d %s" % (pid, calcore.hx(f)) for pid, f in vq]
    out.append(("queried above the band first", "\n".join(base[:i] + q + base[i:]) + "\n"))
    out.append(("second solve", "\n".join(base[:i] + ["solve 0"] + base[i:]) + "\n"))
    # the only item a solve carries from one frequency to the next outside its own state structure is the segment hint of
    # each vector parameter (the solve visits the frequencies in ascending order): evaluate every table at the calibration
    # frequencies one at a time in DESCENDING order first, and once more between two solves
    qd = ["pvalue %d %s" % (pid, calcore.hx(f)) for f in reversed(sc.freqs) for pid, _ in vq]
    out.append(("each frequency evaluated alone, descending, first", "\n".join(base[:i] + qd + base[i:]) + "\n"))
    out.append(("solve, frequencies evaluated alone descending, solve again",
                "\n".join(base[:i] + ["solve 0"] + qd + base[i:]) + "\n"))
    # an unrelated 1x1 calibration in a higher band that uses the same kit parameter, solved first
    pid = vq[0][0]
    f0 = sc.freqs[0]
    hi = [f0 * 2.95, f0 * 3.4]
    other = ["scalar 900 %s %s" % (calcore.hx(-0.9), calcore.hx(0.1)), "scalar 901 %s %s" % (calcore.hx(0.8), calcore.hx(-0.2)),
             "new 1 0 1 1 2 %s %s" % (calcore.hx(hi[0]), calcore.hx(hi[1]))]
    for k, tok in enumerate(["p%d" % pid, "p900", "p901"]):
        other.append("add 1 sr m 0 0 1 1 %s %s %s %s %s 1" % (calcore.hx(0.3 + 0.2 * k), calcore.hx(0.1 * k),
                                                             calcore.hx(0.25 + 0.2 * k), calcore.hx(-0.1 * k), tok))
    other += ["solve 1", "addcal 1 hiband"]
    out.append(("unrelated higher-band calibration sharing the parameter first", "\n".join(base[:i] + other + base[i:]) + "\n"))
    return out


# ----------------------------------------------------------------------------- white-box ties
def model_fn_line(a, handle):
    """the call as a call of the MODEL ENTRY POINT (extracted AddModel.add_single_reflect .. add_mapped_matrix)"""
    h = [handle[x] for x in a["toks"]]
    head = "addfn %s %d %d %d %d %d" % (a["fn"], 1 if a["ab"] else 0, a["ar"] if a["ab"] else 0,
                                        a["ac"] if a["ab"] else 0, a["br"], a["bc"])
    fn = a["fn"]
    if fn == "sr":
        return "%s %d %d" % (head, h[0], a["ports"][0])
    if fn == "dr":
        return "%s %d %d %d %d" % (head, h[0], h[1], a["ports"][0], a["ports"][1])
    if fn == "th":
        return "%s %d %d" % (head, a["ports"][0], a["ports"][1])
    if fn == "ln":
        return "%s %s %d %d" % (head, " ".join(str(x) for x in h), a["ports"][0], a["ports"][1])
    mp = a["ports"][:max(a["sr"], a["sc"], 0)] if a["mapflag"] else []
    return "%s %d %d %d %s %d %d %s" % (head, a["sr"], a["sc"], len(h), " ".join(str(x) for x in h),
                                        1 if a["mapflag"] else 0, len(mp), " ".join(str(x) for x in mp))


def entry_point_tie(ctx, exe):
    """Model entry points (extracted) against the C wrappers: random call sequences (valid and invalid, permuted
    port maps, abbreviated matrices, m and a/b forms), outcome of every call and the structure dump - given cells,
    B cell -> M cell map (tagged cells), S cells, connectivity, equations and terms - compared exactly."""
    drv = calcore.model_driver(ctx)
    ncase = 160 if ctx.tier == "quick" else 1600
    cases = []
    for i in range(ncase):
        rng = random.Random(ctx.rng.getrandbits(64))
        typ = TYPES[i % len(TYPES)]
        while True:
            r, c = rng.randint(1, 4), rng.randint(1, 4)
            if i % 3 == 0:
                r, c = max(r, 3), max(c, 3)
            if i % 4 == 1:
                # 4..6 ports: room for union-find forests with two levels (chains need >= 4 ports when the
                # zero pattern is directional, >= 5 when it is reciprocal)
                r, c = rng.randint(1, 6), rng.randint(4, 6)
                if not calcore.is_t(typ):
                    r, c = c, r
            if dims_allowed(typ, r, c):
                break
        merr = 1 if rng.random() < 0.15 else 0
        adds, handle, npar = calcore.gen_struct_case(rng, typ, r, c, rng.randint(2, 10) if max(r, c) <= 4 else rng.randint(2, 6),
                                                     npar=rng.randint(4, 20), forest_prob=0.6 if max(r, c) >= 4 else 0.3)
        cases.append({"typ": typ, "r": r, "c": c, "merr": merr, "adds": adds, "handle": handle, "npar": npar})
    lines = []
    for cs in cases:
        code = 7 if cs["typ"] == "E12" else calcore.TYPE_CODE[cs["typ"]]
        lines.append("cfg %d %d %d %d %d" % (code, cs["r"], cs["c"], cs["merr"], 3 + cs["npar"]))
        for a in cs["adds"]:
            lines.append(model_fn_line(a, cs["handle"]))
        lines.append("dump")
    rc, mout, merr_ = vplib.sh([drv], input="\n".join(lines) + "\n", timeout=900)
    if rc != 0:
        raise vplib.BuildError("model driver drv_calcore failed: " + merr_[-400:])
    mlines = mout.split("\n")
    pos = 0
    for cs in cases:
        cs["model_out"] = mlines[pos:pos + len(cs["adds"])]
        pos += len(cs["adds"])
        body = []
        while mlines[pos] != "enddump":
            body.append(mlines[pos])
            pos += 1
        pos += 1
        cs["model_dump"] = body

    def run_c(cs):
        s = ["scalar %d %s %s" % (k, calcore.hx(0.3 + 0.01 * k), calcore.hx(0.125)) for k in range(cs["npar"])]
        s.append("new 0 %d %d %d 1 %s" % (calcore.TYPE_CODE[cs["typ"]], cs["r"], cs["c"], calcore.hx(1e9)))
        if cs["merr"]:
            s.append("merror 0 %s %s" % (calcore.hx(1e-3), calcore.hx(1e-3)))
        for a, mo in zip(cs["adds"], cs["model_out"]):
            if not mo.startswith("add abort"):
                s.append(calcore.struct_c_line(cs["typ"], a))
        s += ["dump 0", "free 0"]
        text = "\n".join(s) + "\n"
        return (text,) + calcore.run_script(ctx, exe, text)
    with concurrent.futures.ThreadPoolExecutor(max_workers=min(8, vplib.NPROC)) as ex:
        results = list(ex.map(run_c, cases))
    bad = []
    nacc = nmaps = nunsorted = 0
    for cs, (text, rc, out, err) in zip(cases, results):
        ctx.count()
        if rc != 0:
            sig = vplib.asan_signature(err) or {"kind": "fault", "error": "exit %d" % rc, "function": None}
            bad.append((sig, "library stopped on an add sequence (%s %dx%d): %s" % (
                cs["typ"], cs["r"], cs["c"], (err.strip().split("\n") or [""])[0][:200]), cs, text))
            continue
        recs = calcore.parse_output(out)
        cadds = [x for k, x in recs if k == "add"]
        mo = [m for m in cs["model_out"] if not m.startswith("add abort")]
        mism = None
        for j, (ca, m) in enumerate(zip(cadds, mo)):
            cacc = ca.get("rc") == "0"
            if cacc != (m == "add rc=0") or (not cacc and ca.get("errno") != "EINVAL"):
                mism = "call #%d: library %s, model entry point %s" % (j, ca["line"], m)
                break
            nacc += cacc
        if mism is None:
            dm = [x for k, x in recs if k == "dump"]
            cbody = ([dm[0]["line"]] + dm[0]["body"]) if dm else []
            if cbody != cs["model_dump"]:
                for a_, b_ in zip(cbody + ["<end>"], cs["model_dump"] + ["<end>"]):
                    if a_ != b_:
                        mism = "structure dumps differ: library %r, model %r" % (a_, b_)
                        break
            nmaps += len([l for l in cbody if l.startswith("B ")])
        if mism is not None:
            bad.append(({"kind": "struct", "class": "entry-point", "type": cs["typ"]},
                        "%s %dx%d: %s" % (cs["typ"], cs["r"], cs["c"], mism), cs, text))
        else:
            ctx.nontrivial.add(("entry", len(ctx.nontrivial)))
            ctx.traces_validated += 1
    ctx.extra["entry_point_cases"] = len(cases)
    ctx.extra["entry_point_cases_with_two_level_forest"] = len([1 for cs in cases if cs["adds"] and cs["adds"][0].get("forest_depth", 0) >= 2])
    ctx.extra["entry_point_cases_5_6_ports"] = len([1 for cs in cases if max(cs["r"], cs["c"]) >= 5])
    ctx.extra["entry_point_calls_accepted"] = nacc
    ctx.extra["entry_point_cell_maps_compared"] = nmaps
    ctx.obligation("tie:model entry points (add_single_reflect .. add_mapped_matrix) and B cell -> M cell map vs the C "
                   "wrappers and vnm_m_matrix (exact)", not bad and nmaps > 0, bad[0][1] if bad else "")
    for sig, what, cs, text in bad[:3]:
        ctx.violation(sig, what, {"case": {k2: v for k2, v in cs.items() if k2 != "model_dump"}, "script": text[:60000],
                                  "model_dump_head": cs.get("model_dump", [])[:30]})
    return bad


def cell_map_tie(ctx, exe):
    """C side alone: one standard entered with the full matrix whose cell (i, j) holds the tag i * cols + j + 1 and
    with every abbreviated shape, the abbreviated matrix being the rows / columns of the standard's VNA ports in
    ASCENDING order of that full matrix (vnacal_new_add_*(3)), ports listed in random order.  Every value of an
    abbreviated matrix must be stored in the cell of vnm_m_matrix in which the full call stores it."""
    ncase = 320 if ctx.tier == "quick" else 3200
    cases = []
    for i in range(ncase):
        rng = random.Random(ctx.rng.getrandbits(64))
        typ = TYPES[i % len(TYPES)]
        while True:
            r, c = rng.randint(1, 4), rng.randint(1, 4)
            if i % 4 != 0:
                r, c = max(r, 3), max(c, 3)
            if i % 8 < 4 and i % 4 != 0:
                r = c = max(r, c)
            if dims_allowed(typ, r, c):
                break
        p = max(r, c)
        k = rng.randint(1, p) if rng.random() < 0.3 else rng.randint(2, max(2, p - 1))
        k = min(k, p)
        ports = rng.sample(range(1, p + 1), k)
        if ports == sorted(ports) and k >= 2 and rng.random() < 0.7:
            ports.reverse()
        fn = "mm"
        if k == 1 and rng.random() < 0.5:
            fn = "sr"
        elif k == 2:
            fn = rng.choice(["dr", "th", "ln", "mm"])
        asc = sorted(ports)
        shapes = [(r, c)]
        if typ == "T16":
            minr, minc = k, c
        elif typ == "U16":
            minr, minc = r, k
        else:
            minr, minc = k, k
        for br in sorted(set([r, minr])):
            for bc in sorted(set([c, minc])):
                if (br, bc) != (r, c) and br <= r and bc <= c and (br == r or all(q <= r for q in ports)) \
                        and (bc == c or all(q <= c for q in ports)):
                    shapes.append((br, bc))
        cases.append({"typ": typ, "r": r, "c": c, "fn": fn, "ports": ports, "asc": asc, "shapes": shapes,
                      "ab": rng.random() < 0.3})

    def script(cs):
        typ, r, c, k = cs["typ"], cs["r"], cs["c"], len(cs["ports"])
        s = ["scalar %d %s %s" % (q, calcore.hx(0.3 + 0.01 * q), calcore.hx(0.125)) for q in range(k * k)]
        s.append("new 0 %d %d %d 1 %s" % (calcore.TYPE_CODE[typ], r, c, calcore.hx(1e9)))
        for br, bc in cs["shapes"]:
            rows = list(range(r)) if br == r else [q - 1 for q in cs["asc"]]
            cols = list(range(c)) if bc == c else [q - 1 for q in cs["asc"]]
            vals = " ".join("%s %s" % (calcore.hx(float(i * c + j + 1)), calcore.hx(0.0)) for i in rows for j in cols)
            if cs["ab"]:
                ar = 1 if calcore.is_col(typ) else bc
                a = " ".join("%s %s" % (calcore.hx(1.0 if (i == j or calcore.is_col(typ)) else 0.0), calcore.hx(0.0))
                             for i in range(ar) for j in range(bc))
                head = "add 0 %s ab %d %d %d %d %s %s" % (cs["fn"], ar, bc, br, bc, a, vals)
            else:
                head = "add 0 %s m 0 0 %d %d %s" % (cs["fn"], br, bc, vals)
            pt = cs["ports"]
            if cs["fn"] == "sr":
                tail = "p0 %d" % pt[0]
            elif cs["fn"] == "dr":
                tail = "p0 p3 %d %d" % (pt[0], pt[1])
            elif cs["fn"] == "th":
                tail = "%d %d" % (pt[0], pt[1])
            elif cs["fn"] == "ln":
                tail = "p0 p1 p2 p3 %d %d" % (pt[0], pt[1])
            else:
                tail = "%d %d %s 1 %s" % (k, k, " ".join("p%d" % q for q in range(k * k)), " ".join(str(q) for q in pt))
            s.append(head + " " + tail)
        s += ["dump 0", "free 0"]
        return "\n".join(s) + "\n"

    def run_c(cs):
        text = script(cs)
        return (text,) + calcore.run_script(ctx, exe, text)
    with concurrent.futures.ThreadPoolExecutor(max_workers=min(8, vplib.NPROC)) as ex:
        results = list(ex.map(run_c, cases))
    bad = []
    ncmp = nuns = 0
    for cs, (text, rc, out, err) in zip(cases, results):
        ctx.count()
        if rc != 0:
            sig = vplib.asan_signature(err) or {"kind": "fault", "error": "exit %d" % rc, "function": None}
            bad.append((sig, "library stopped (%s %dx%d): %s" % (cs["typ"], cs["r"], cs["c"],
                                                                 (err.strip().split("\n") or [""])[0][:200]), cs, text))
            continue
        recs = calcore.parse_output(out)
        cadds = [x for k, x in recs if k == "add"]
        problem = None
        if len(cadds) != len(cs["shapes"]) or any(x.get("rc") != "0" for x in cadds):
            problem = "a documented shape was refused: %s" % [x["line"] for x in cadds if x.get("rc") != "0"][:2]
        else:
            dm = [x for k, x in recs if k == "dump"]
            maps = [l.split("map=", 1)[1] for l in (dm[0]["body"] if dm else []) if l.startswith("B ")]
            if len(maps) != len(cs["shapes"]):
                problem = "%d cell maps in the dump for %d calls" % (len(maps), len(cs["shapes"]))
            else:
                def pairs(m):
                    return [tuple(int(v) for v in x.split(":")) for x in m.split(",") if x]
                full = dict(pairs(maps[0]))
                if full != {q: q + 1 for q in range(cs["r"] * cs["c"])}:
                    problem = "full matrix stored as %s" % maps[0]
                for (br, bc), m in zip(cs["shapes"][1:], maps[1:]):
                    pr = pairs(m)
                    if len(pr) != br * bc or any(full.get(cell) != tag for cell, tag in pr):
                        problem = ("%s ports %s, %d x %d matrix: values stored in vnm_m_matrix as cell:tag %s, the full "
                                   "matrix has cell q in cell q (tag q+1)" % (cs["fn"], cs["ports"], br, bc, m))
                        break
                    ncmp += 1
                    nuns += cs["ports"] != cs["asc"]
        if problem:
            bad.append(({"kind": "struct", "class": "cell-map", "type": cs["typ"]},
                        "%s %dx%d: %s" % (cs["typ"], cs["r"], cs["c"], problem), cs, text))
        else:
            ctx.nontrivial.add(("cellmap", len(ctx.nontrivial)))
            ctx.traces_validated += 1
    ctx.extra["cell_map_abbreviated_calls_compared"] = ncmp
    ctx.extra["cell_map_abbreviated_calls_unsorted_map"] = nuns
    ctx.obligation("tie:abbreviated matrix = rows/columns of the ports in ascending order of the full matrix, in "
                   "vnm_m_matrix (C side, tagged cells)", not bad and nuns > 0, bad[0][1] if bad else "")
    for sig, what, cs, text in bad[:3]:
        ctx.violation(sig, what, {"case": cs, "script": text[:60000]})
    return bad


# ----------------------------------------------------------------------------- renumbering: model records vs library
RENUM_TYPES = ["T8", "TE10", "U8", "UE10", "T16", "U16"]


def _dump_records(body):
    """the measurement records of a structure dump of harness/calcore_e2e.c: index -> dict"""
    ms = {}
    cur = None
    for ln in body:
        q = ln.split()
        if not q:
            continue
        if q[0] == "M":
            cur = int(q[1])
            cells = [int(x) for x in ln.split("cells=", 1)[1].split(",") if x]
            ms[cur] = {"given": cells, "s": [], "conn": None, "eqs": []}
        elif q[0] == "S" and cur is not None:
            ms[cur]["s"] = [x.split(":", 1)[1] for x in q[1:]]
        elif q[0] == "C" and cur is not None:
            ms[cur]["conn"] = None if q[1] == "-" else q[1]
        elif q[0] == "E":
            ms[int(q[2])]["eqs"].append({"row": int(q[3]), "col": int(q[4]), "terms": []})
            last = ms[int(q[2])]["eqs"][-1]
        elif q[0] == "T":
            last["terms"].append([int(x) for x in q[1:6]])
    return [ms[k] for k in sorted(ms)]


def _coq_meas(m, n):
    def z(v):
        return "(%d)%%Z" % v
    def b(v):
        return "true" if v else "false"
    given = "[" + "; ".join(b(i in set(m["given"])) for i in range(n * n)) + "]"
    s = "[" + "; ".join("SNull" if t == "-" else "SZero" if t == "Z" else "SParam %s" % z(int(t)) for t in m["s"]) + "]"
    conn = "None" if m["conn"] is None else "(Some [" + "; ".join(b(ch == "1") for ch in m["conn"]) + "])"
    eqs = "[" + ";\n    ".join(
        "mkEq %d %d [%s]" % (e["row"], e["col"], "; ".join(
            "mkTerm %s %s %s %s %s" % (z(t[0]), b(t[1]), z(t[2]), z(t[3]), z(t[4])) for t in e["terms"]))
        for e in m["eqs"]) + "]"
    return "(mkMeasurement %s\n   %s\n   %s\n   %s [])" % (given, s, conn, eqs)


RENUM_PRELUDE = """Require Import List ZArith Bool Arith.
Require Import LV.Gen.LayoutGen LV.Cal.TermsModel LV.Cal.AddModel LV.Cal.C17Proofs LV.Cal.RenumberModel.
Import ListNotations.
Local Open Scope nat_scope.
Definition bres_is (b : bres) (l : list term) : bool :=
  match b with BOk l' => list_eqb term_eqb l' l | _ => false end.
(* RenumberModel.meas_wf, decided *)
Definition wf_b (ty : caltype) (n : nat) (m : measurement) : bool :=
  forallb (fun e => andb (andb (Nat.ltb (e_row e) n) (Nat.ltb (e_col e) n))
                         (bres_is (build_terms ty (ctx_of_meas n m) (e_row e) (e_col e)) (e_terms e))) (ms_eqs m).
Definition eqs_sub (a b : list equation) : bool := forallb (fun e => existsb (eq_eqb e) b) a.
(* same record up to the order of the equations *)
Definition same_b (a b : measurement) : bool :=
  andb (andb (list_eqb Bool.eqb (ms_m_given a) (ms_m_given b)) (list_eqb scell_eqb (ms_s a) (ms_s b)))
       (andb (conn_eqb (ms_conn a) (ms_conn b))
             (andb (Nat.eqb (length (ms_eqs a)) (length (ms_eqs b)))
                   (andb (eqs_sub (ms_eqs a) (ms_eqs b)) (eqs_sub (ms_eqs b) (ms_eqs a))))).
Definition chk (ty : caltype) (n : nat) (pl ql : list nat) (m m' : measurement) : bool * bool :=
  (wf_b ty n m, same_b (renum_meas ty n (fun i => nth i pl 0) (fun i => nth i ql 0) m) m').
"""


def renumber_structure_tie(ctx, exe):
    """RenumberModel.renum_meas (the hypothesis side of c17_renumbering_permutes_equations_partial) against the
    library: random sequences of add calls on an n x n calibration (T8, TE10, U8, UE10, T16, U16; every entry point,
    permuted port maps, abbreviated matrices, sparse S patterns) are run through the C library twice, as generated
    and with every VNA port number p replaced by sigma(p).  The records the library builds for the original calls
    (given cells, S cells, connectivity, equations with their terms) are handed to Coq, which decides (vm_compute)
    meas_wf of each (the theorem's hypothesis: the terms are what TermsModel.build_terms emits) and that
    renum_meas sigma of it IS the record the library built for the renumbered call (same arrays, same set of
    equations with identical term lists).  Exact."""
    rng = random.Random("C17-renumber-%d" % ctx.seed)
    ncase = 18 if ctx.tier == "quick" else 72
    cases = []
    for i in range(ncase):
        typ = RENUM_TYPES[i % len(RENUM_TYPES)]
        n = rng.randint(2, 3) if calcore.is_16(typ) else rng.randint(2, 4)
        while True:
            sigma = list(range(n))
            rng.shuffle(sigma)
            if sigma != list(range(n)):
                break
        adds, handle, npar = calcore.gen_struct_case(rng, typ, n, n, rng.randint(2, 4), npar=rng.randint(4, 12),
                                                     allow_bad=False, forest_prob=0.5)
        adds = [a for a in adds if a["mapflag"] or (a["sr"] == n and a["sc"] == n)]
        radds = []
        for a in adds:
            b = copy.deepcopy(a)
            ports = a["ports"] if a["mapflag"] else list(range(1, n + 1))
            b["ports"] = [sigma[q - 1] + 1 for q in ports]
            b["mapflag"] = 1
            radds.append(b)
        cases.append({"typ": typ, "n": n, "sigma": sigma, "adds": adds, "radds": radds, "npar": npar})

    def script(cs, adds):
        s = ["scalar %d %s %s" % (k, calcore.hx(0.3 + 0.01 * k), calcore.hx(0.125)) for k in range(cs["npar"])]
        s.append("new 0 %d %d %d 1 %s" % (calcore.TYPE_CODE[cs["typ"]], cs["n"], cs["n"], calcore.hx(1e9)))
        s += [calcore.struct_c_line(cs["typ"], a) for a in adds]
        s += ["dump 0", "free 0"]
        return "\n".join(s) + "\n"

    def run_c(cs):
        out = []
        for adds in (cs["adds"], cs["radds"]):
            text = script(cs, adds)
            out.append((text,) + calcore.run_script(ctx, exe, text))
        return out
    with concurrent.futures.ThreadPoolExecutor(max_workers=min(8, vplib.NPROC)) as ex:
        results = list(ex.map(run_c, cases))
    bad = []
    items = []
    for cs, res in zip(cases, results):
        ctx.count()
        (t0, rc0, out0, err0), (t1, rc1, out1, err1) = res
        cs["scripts"] = [t0, t1]
        if rc0 != 0:
            continue                       # the original sequence stops the library: the entry-point tie's business
        if rc1 != 0:
            sig = vplib.asan_signature(err1) or {"kind": "fault", "error": "exit %d" % rc1, "function": None}
            bad.append((sig, "library stopped on the renumbered add sequence only (%s %dx%d, sigma %s)" % (
                cs["typ"], cs["n"], cs["n"], cs["sigma"]), cs))
            continue
        r0, r1 = calcore.parse_output(out0), calcore.parse_output(out1)
        a0 = [x.get("rc") for k, x in r0 if k == "add"]
        a1 = [x.get("rc") for k, x in r1 if k == "add"]
        if a0 != a1:
            bad.append(({"kind": "struct", "class": "renumbering", "type": cs["typ"]},
                        "%s %dx%d sigma %s: calls accepted %s, renumbered calls accepted %s" % (
                            cs["typ"], cs["n"], cs["n"], cs["sigma"], a0, a1), cs))
            continue
        d0 = [x for k, x in r0 if k == "dump"]
        d1 = [x for k, x in r1 if k == "dump"]
        if not d0 or not d1:
            continue
        m0, m1 = _dump_records(d0[0]["body"]), _dump_records(d1[0]["body"])
        if len(m0) != len(m1):
            bad.append(({"kind": "struct", "class": "renumbering", "type": cs["typ"]},
                        "%s %dx%d: %d records, renumbered %d" % (cs["typ"], cs["n"], cs["n"], len(m0), len(m1)), cs))
            continue
        inv = [0] * cs["n"]
        for i_, v in enumerate(cs["sigma"]):
            inv[v] = i_
        for j, (x, y) in enumerate(zip(m0, m1)):
            items.append((cs, j, "chk %s %d [%s] [%s]\n  %s\n  %s" % (
                cs["typ"], cs["n"], "; ".join(map(str, cs["sigma"])), "; ".join(map(str, inv)),
                _coq_meas(x, cs["n"]), _coq_meas(y, cs["n"]))))
    verdicts = []
    if items:
        src = RENUM_PRELUDE + "Set Printing Depth 1000000.\nEval vm_compute in [\n" + ";\n".join(it[2] for it in items) + "].\n"
        rc, out, err = ctx.coq_eval("c17_renum_cases", src, timeout=600)
        if rc != 0:
            raise vplib.BuildError("coq_eval of the renumbering cases failed: " + (err or out)[-600:])
        import re
        verdicts = re.findall(r"\(\s*(true|false)\s*,\s*(true|false)\s*\)", out)
        if len(verdicts) != len(items):
            raise vplib.BuildError("coq_eval of the renumbering cases: %d verdicts for %d records" % (len(verdicts), len(items)))
    ncmp = neq = 0
    seen_bad = set()
    for (cs, j, _), (wf, same) in zip(items, verdicts):
        ncmp += 1
        if wf == "true" and same == "true":
            ctx.nontrivial.add(("renum", len(ctx.nontrivial)))
            ctx.traces_validated += 1
            neq += 1
            continue
        if id(cs) in seen_bad:
            continue
        seen_bad.add(id(cs))
        what = ("the terms of the library's record are not those TermsModel.build_terms emits (meas_wf)" if wf != "true"
                else "the library's record for the renumbered call is not RenumberModel.renum_meas of the original record")
        bad.append(({"kind": "struct", "class": "renumbering", "type": cs["typ"]},
                    "%s %dx%d sigma %s, standard #%d (%s ports %s): %s" % (
                        cs["typ"], cs["n"], cs["n"], cs["sigma"], j, cs["adds"][j]["fn"] if j < len(cs["adds"]) else "?",
                        cs["adds"][j]["ports"] if j < len(cs["adds"]) else "?", what), cs))
    ctx.extra["renumbering_tie_cases"] = len(cases)
    ctx.extra["renumbering_tie_records_compared"] = ncmp
    ctx.obligation("tie:RenumberModel.renum_meas of the library's records = the library's records for the renumbered "
                   "add calls, and meas_wf of the library's records (Coq vm_compute, exact)",
                   not bad and ncmp >= len(cases), bad[0][1] if bad else "%d records compared" % ncmp)
    for sig, what, cs in bad[:3]:
        ctx.violation(sig, what, {"type": cs["typ"], "n": cs["n"], "sigma": cs["sigma"], "adds": cs["adds"],
                                  "renumbered_adds": cs["radds"], "scripts": [t[:30000] for t in cs.get("scripts", [])]})
    return bad


def script_of(sc, dump=True):
    return calcore.scenario_script(sc, dump=dump).text()


def run(ctx):
    ctx.level = "proof"
    ctx.trusted_base = [
        "Coq 8.16.1 kernel incl. its VM (vm_cast of the bounded sweep abbreviated_agrees_with_full_swept); mathcomp for the matrix identities",
        "models coq/Cal/AddModel.v (incl. the entry points and the B cell -> M cell map), TermsModel.v tied to the library by the "
        "entry-point / structure correspondence here and by the structural correspondence of check C01; extraction to OCaml",
        "the harness reads the B cell -> M cell map back from the values stored in vnm_m_matrix (cells tagged 1, 2, ..; m form or a = identity)",
        "exact field arithmetic in place of binary64; the relations between complete runs are checked on the C API to 1e-9 (support, not proof)",
        "gcc, ASan/UBSan/LSan",
    ]
    ctx.assumptions = ["exact arithmetic stands for binary64", "well-conditioned, model-consistent data"]
    ctx.rule = ("one evaluation = one pair (or triple) of complete calibration scenarios related by one transformation, run "
                "through the public API, or one random call sequence / one standard in all its shapes of the white-box ties; "
                "distinct non-trivial = pairs in which both sides solved and were compared, sequences whose dumps were compared")
    files = ["Gen/LayoutGen.v", "Cal/TermsModel.v", "Cal/AddModel.v", "Cal/TermsProofs.v", "Cal/C17Proofs.v",
             "Cal/ConnProofs.v", "Cal/OrderProofs.v", "Cal/CalAlgebra.v", "Cal/RenumberModel.v", "Cal/RenumberProofs.v", "Cal/RenumberResultsModel.v", "Cal/RenumberResults.v",
             "Cal/RenumberResultsEx.v", "Cal/RenumberE12Ue14.v",
             "Properties_C17.v"]
    # Gen/LayoutGen.v is regenerated by the translator of C01
    import layout as T5
    try:
        text, info = T5.generate(os.path.join(ctx.repo, "src"))
        ctx.write_if_changed(os.path.join(vplib.COQDIR, "Gen", "LayoutGen.v"), text)
        ctx.obligation("T5:translate", True)
    except T5.TranslateError as e:
        ctx.obligation("T5:translate", False, str(e))
    coq_ok, res = ctx.coq_obligations(files)
    trl_order_pairs(ctx)                    # order of through / reflect / line on the analytic TRL path (own RNG)
    if not coq_ok:
        # shared coq/ tree: a build failure must be reproducible to count
        import time
        time.sleep(3)
        n0 = len(ctx.obligations)
        ok2, res2 = ctx.coq_obligations(files)
        if ok2:
            nnew = len(ctx.obligations) - n0
            del ctx.obligations[n0 - nnew:n0]
            coq_ok, res = ok2, res2
        else:
            del ctx.obligations[n0:]

    exe = ctx.build_harness("calcore_e2e", san=True, wrap=True, defines=["CALCORE_WRAP"])
    entry_point_tie(ctx, exe)
    cell_map_tie(ctx, exe)
    renumber_structure_tie(ctx, exe)
    npairs = 28 if ctx.tier == "quick" else 120
    jobs = []
    for tname, tf in TRANSFORMS:
        for i in range(npairs):
            rng = random.Random(ctx.rng.getrandbits(64))
            while True:
                typ = rng.choice(TYPES)
                if tname == "E12=UE14":
                    typ = rng.choice(["UE14", "E12"])
                r, c = rng.randint(1, 4), rng.randint(1, 4)
                if tname.endswith("(4-port non-reciprocal)"):
                    typ = rng.choice(NR_TYPES)
                    r = c = 4
                if not dims_allowed(typ, r, c) or not calcore.apply_accepts(r, c):
                    continue
                if tname == "renumbering" and r != c:
                    continue
                if tname in ("through=line=mapped",) and max(r, c) < 2:
                    continue
                if tname == "full=abbreviated(3-4 ports)" and (max(r, c) < 4 or calcore.is_16(typ) and rng.random() < 0.5):
                    continue
                if tname == "order(noisy,m_error)" and (calcore.is_16(typ) or max(r, c) < 2):
                    continue
                if tname == "order(noisy,m_error)" and i % 2 == 0 and not (typ in ("UE14", "E12") and c >= 2):
                    continue
                break
            form = "ab" if tname == "ab-scaling" else None
            sc = calcore.gen_scenario(rng, typ, r, c, rng.randint(1, 3), form=form)
            others, mode = tf(rng, sc)
            group = ([sc] if mode != "value-pair" else []) + others
            jobs.append((tname, mode, group, sc))
    # unrelated calibrations in the same vnacal_t; frequencies together vs one at a time
    special = []
    for i in range(npairs):
        rng = random.Random(ctx.rng.getrandbits(64))
        typ = rng.choice(TYPES)
        while True:
            r, c = rng.randint(1, 3), rng.randint(1, 3)
            if dims_allowed(typ, r, c) and calcore.apply_accepts(r, c):
                break
        sc = calcore.gen_scenario(rng, typ, r, c, rng.randint(2, 3))
        typ2 = rng.choice(TYPES)
        while True:
            r2, c2 = rng.randint(1, 3), rng.randint(1, 3)
            if dims_allowed(typ2, r2, c2):
                break
        other = calcore.gen_scenario(rng, typ2, r2, c2, rng.randint(1, 2))
        other.name = "other"
        special.append((sc, other))

    hint_jobs = []
    for i in range(npairs):
        rng = random.Random(ctx.rng.getrandbits(64))
        typ = rng.choice(TYPES)
        while True:
            r, c = rng.randint(1, 3), rng.randint(1, 3)
            if dims_allowed(typ, r, c) and calcore.apply_accepts(r, c):
                break
        sc = calcore.gen_scenario(rng, typ, r, c, rng.randint(2, 3), vector_prob=0.9)
        delay_line_standards(rng, sc)
        hint_jobs.append((sc, hint_scripts(rng, sc)))

    def run_hint(job):
        sc, scripts = job
        return [(label,) + run_script(ctx, exe, text) for label, text in scripts]

    def run_group(job):
        tname, mode, group, sc = job
        return [run_script(ctx, exe, script_of(g)) for g in group]

    def run_special(pair):
        sc, other = pair
        base = run_script(ctx, exe, script_of(sc, dump=False))
        # (a) another calibration built in slot 1 and added before, and one more after this one is added
        s = calcore.Script()
        calcore.scenario_script(other, slot=1, script=s, do_apply=False)
        calcore.scenario_script(sc, slot=0, script=s, do_apply=False)
        other2 = copy.copy(other)
        other2.name = "other2"
        calcore.scenario_script(other2, slot=2, script=s, do_apply=False)
        mats = [calcore.dut_measurement(sc, f) for f in range(sc.F)]
        s.apply(sc, sc.name, sc.apply_form, mats, sc.apply_A)
        mixed = run_script(ctx, exe, s.text())
        # (b) one frequency at a time
        singles = []
        for f in range(sc.F):
            s1 = copy.deepcopy(sc)
            s1.F = 1
            s1.freqs = [sc.freqs[f]]
            s1.enets = [sc.enets[f]]
            s1.dut = [sc.dut[f]]
            s1.apply_A = [sc.apply_A[f]]
            s1.fill = [sc.fill[f]]
            for st in s1.stds:
                st.S = [st.S[f]]
                st.Sfull = [st.Sfull[f]]
                st.Mfull = [st.Mfull[f]]
                if st.A is not None:
                    st.A = [st.A[f]]
            singles.append(run_script(ctx, exe, script_of(s1, dump=False)))
        return base, mixed, singles

    with concurrent.futures.ThreadPoolExecutor(max_workers=min(8, vplib.NPROC)) as ex:
        gres = list(ex.map(run_group, jobs))
        sres = list(ex.map(run_special, special))
        hres = list(ex.map(run_hint, hint_jobs))

    bad = []
    worst = {}
    used = 0

    def fault(rc, err, what, sc):
        sig = vplib.asan_signature(err) or {"kind": "fault", "error": "exit %d" % rc, "function": None}
        bad.append((sig, "%s (%s %dx%d): harness stopped: %s" % (what, sc.typ, sc.r, sc.c, err.strip().split("\n")[0][:160]), sc))

    for (tname, mode, group, sc), results in zip(jobs, gres):
        ctx.count()
        if any(rc != 0 for rc, _, _ in results):
            rc, _, err = [x for x in results if x[0] != 0][0]
            fault(rc, err, tname, sc)
            continue
        outs = [applied(recs) for _, recs, _ in results]
        if any(o is None for o in outs):
            lines = [[x["line"] for k, x in recs if k in ("solve", "apply") or (k == "add" and x.get("rc") != "0")] for _, recs, _ in results]
            bad.append(({"kind": "pair", "transformation": tname, "class": "one-side-failed", "type": sc.typ},
                        "%s on %s %dx%d: one side failed: %s" % (tname, sc.typ, sc.r, sc.c, lines), sc))
            continue
        ref = outs[0]
        d = 0.0
        for g, o in zip(group[1:], outs[1:]):
            if mode == "renumber":
                perm = g.perm
                p = sc.p
                conj = []
                for fm in ref:
                    m = [0j] * (p * p)
                    for i in range(p):
                        for j in range(p):
                            m[perm[i] * p + perm[j]] = fm[i * p + j]
                    conj.append(m)
                d = max(d, rel_diff(conj, o))
            else:
                d = max(d, rel_diff(ref, o))
        worst[tname] = max(worst.get(tname, 0.0), d)
        problem = None
        if not d <= TOL:
            # ill-conditioned draw? both sides must then also be far from the true DUT matrix
            truth = [[x for row in sc.dut[f] for x in row] for f in range(sc.F)]
            if mode not in ("renumber", "value-strict") and rel_diff(truth, ref) > TOL:
                continue
            problem = "applied S-parameters differ by %.3g relative" % d
        if problem is None and mode == "renumber":
            # white box: the connectivity matrix of every standard is the renumbered copy
            ca = [l[2:] for l in (all_lines(results[0][1]) or []) if l.startswith("C ")]
            for g, (_, recs, _) in zip(group[1:], results[1:]):
                cb = [l[2:] for l in (all_lines(recs) or []) if l.startswith("C ")]
                p_ = sc.p
                if len(ca) != len(cb) or not ca:
                    problem = "structure dumps of the renumbered run: %d connectivity matrices against %d" % (len(cb), len(ca))
                    break
                for k_, (a_, b_) in enumerate(zip(ca, cb)):
                    if a_ == "-" or b_ == "-":
                        ok_ = a_ == b_
                    else:
                        ok_ = len(a_) == len(b_) == p_ * p_ and all(
                            b_[g.perm[i] * p_ + g.perm[j]] == a_[i * p_ + j] for i in range(p_) for j in range(p_))
                    if not ok_:
                        problem = ("connectivity matrix of standard %d is not the renumbered copy: %s before, %s after "
                                   "renumbering the ports by %s" % (k_, a_, b_, [q + 1 for q in g.perm]))
                        break
                if problem:
                    break
        if problem is None and mode == "exact":
            dumps = [all_lines(recs) for _, recs, _ in results]
            if any(x != dumps[0] for x in dumps[1:]):
                problem = "structure dumps of through / line / mapped matrix differ"
            elif any(o != ref for o in outs[1:]):
                problem = "applied S-parameters of through / line / mapped matrix are not bit-identical"
        if problem is None and mode == "equations":
            e = [eq_lines(recs) for _, recs, _ in results]
            if e[0] != e[1]:
                problem = "equations generated from abbreviated and full matrices differ"
        if problem:
            bad.append(({"kind": "pair", "transformation": tname, "class": "differ", "type": sc.typ},
                        "%s on %s %dx%d: %s" % (tname, sc.typ, sc.r, sc.c, problem), sc))
        else:
            used += 1
            ctx.extra.setdefault("pairs_per_transformation", {})
            ctx.extra["pairs_per_transformation"][tname] = ctx.extra["pairs_per_transformation"].get(tname, 0) + 1
            ctx.nontrivial.add((tname, used))
            if used % 11 == 0:
                ctx.sample({"transformation": tname, "scenario": calcore.describe(sc), "relative_difference": d})
    for (sc, other), (base, mixed, singles) in zip(special, sres):
        ctx.count()
        runs = [base, mixed] + singles
        if any(rc != 0 for rc, _, _ in runs):
            rc, _, err = [x for x in runs if x[0] != 0][0]
            fault(rc, err, "unrelated/frequencies", sc)
            continue
        ref = applied(base[1])
        mix = applied(mixed[1])
        if ref is None or mix is None:
            bad.append(({"kind": "pair", "transformation": "unrelated", "class": "one-side-failed", "type": sc.typ},
                        "unrelated calibrations on %s %dx%d: a side failed" % (sc.typ, sc.r, sc.c), sc))
            continue
        if mix != ref:
            bad.append(({"kind": "pair", "transformation": "unrelated", "class": "differ", "type": sc.typ},
                        "adding unrelated calibrations to the same vnacal_t changed the applied S-parameters of %s %dx%d (difference %.3g)"
                        % (sc.typ, sc.r, sc.c, rel_diff(ref, mix)), sc))
            continue
        worst["unrelated"] = 0.0
        one = [applied(recs) for _, recs, _ in singles]
        if any(o is None for o in one):
            bad.append(({"kind": "pair", "transformation": "frequencies", "class": "one-side-failed", "type": sc.typ},
                        "frequencies one at a time on %s %dx%d: a single-frequency run failed" % (sc.typ, sc.r, sc.c), sc))
            continue
        d = rel_diff(ref, [o[0] for o in one])
        worst["frequencies"] = max(worst.get("frequencies", 0.0), d)
        if not d <= TOL:
            truth = [[x for row in sc.dut[f] for x in row] for f in range(sc.F)]
            if rel_diff(truth, ref) > TOL:
                continue
            bad.append(({"kind": "pair", "transformation": "frequencies", "class": "differ", "type": sc.typ},
                        "solving frequencies together vs one at a time differs by %.3g on %s %dx%d" % (d, sc.typ, sc.r, sc.c), sc))
            continue
        used += 2
        ctx.nontrivial.add(("special", used))
    nh = 0
    for (sc, scripts), results in zip(hint_jobs, hres):
        ctx.count()
        if len(results) < 2:
            continue            # no frequency-dependent standard in this draw
        if any(rc != 0 for _, rc, _, _ in results):
            _, rc, _, err = [x for x in results if x[1] != 0][0]
            fault(rc, err, "interpolation-hint history", sc)
            continue
        outs = [(label, applied(recs), [x["E"] for k, x in recs if k == "terms" and "E" in x]) for label, _, recs, _ in results]
        if outs[0][1] is None:
            continue            # base run did not solve (inconsistent draw): nothing to compare
        bad_here = None
        for label, o, e in outs[1:]:
            d = rel_diff(outs[0][1], o)
            if e and outs[0][2]:
                d = max(d, rel_diff(outs[0][2][-1], e[-1]))
            worst["hint-history"] = max(worst.get("hint-history", 0.0), d if d == d else 0.0)
            if not d <= TOL:
                bad_here = (label, d)
                break
        if bad_here:
            bad.append(({"kind": "pair", "transformation": "hint-history", "class": "differ", "type": sc.typ},
                        "%s %dx%d with frequency-dependent standards: result after '%s' differs from the plain run by %.3g "
                        "(the value of a vector parameter depends on where it was evaluated before)" % (
                            sc.typ, sc.r, sc.c, bad_here[0], bad_here[1]), sc))
        else:
            used += 1
            nh += 1
            ctx.nontrivial.add(("hint", nh))
    ctx.extra["hint_history_groups_compared"] = nh
    ctx.traces_validated += used
    ctx.extra["pairs_compared"] = used
    ctx.extra["worst_relative_difference"] = worst
    total = len(jobs) + len(special) + len(hint_jobs)
    ok = not bad and used >= total * 3 // 4
    ctx.obligation("tie:pairs of equivalent descriptions / histories through the C API (13 transformations)", ok,
                   bad[0][1] if bad else ("only %d of %d pairs usable" % (used, total) if not ok else ""))
    seen = set()
    for sig, what, sc in bad:
        k = tuple(sorted((a, str(b)) for a, b in sig.items()))
        if k in seen:
            continue
        seen.add(k)
        ctx.violation(sig, what, {"scenario": calcore.describe(sc), "script_of_first_side": script_of(sc)[:150000]})
    pkgG_frequencies_with_m_error(ctx)      # package G: V matrices re-initialised at every frequency (m_error on)
    if not coq_ok and not ctx.violations:
        log = getattr(ctx, "_last_coq_log", "")
        ctx.unproved("C17:coq", "Coq development no longer builds: " + log[-400:].replace("\n", " "),
                     "pairs of scenarios for every transformation through the C API")



def trl_order_pairs(ctx):
    """Order of standards on the analytic TRL path (unknown parameters; calcore has none, so this uses the self-calibration
    harness and the physical oracle of lib/selfcal_gen.py): 2x2 T8 / U8 / TE10 / UE10, exactly a through, a double reflect with
    one unknown parameter on both ports and a line with an unknown transmission, no error modelling, entered in ALL SIX orders
    (the unknown parameters are created in the order of their standards).  The same data in another order must give the same
    solve outcome, the same solved parameters and the same applied S (1e-9 relative); a differing pair is excused only if the
    T,R,L run itself misses the true device by more than 1e-9."""
    import itertools
    import random as _random
    import selfcal_gen as G
    quick = ctx.tier == "quick"
    exe = ctx.build_harness("selfcal_harness", san=True)
    own = _random.Random(ctx.seed * 7919 + 1711)      # own stream: the other ties see the same cases as before
    groups = []
    scen = []
    k = 0
    for typ in ("T8", "U8", "TE10", "UE10"):
        for rep in range(2 if quick else 8):
            seed = own.getrandbits(48)
            nf = 1 + rep % 3
            gfrac = [0.15, 0.5, 0.3][rep % 3]
            grp = []
            for order in itertools.permutations("TRL"):
                rng = _random.Random(seed)
                sc = G.build_trl(rng, "trlorder%d" % k, typ, nf=nf, gfrac=gfrac, swap=False)
                k += 1
                head, body = sc.lines[:2], sc.lines[2:]
                blocks, cur = {}, []
                for ln in body:
                    cur.append(ln)
                    w = ln.split()[0]
                    if w in ("through", "double", "line"):
                        blocks[{"through": "T", "double": "R", "line": "L"}[w]] = cur
                        cur = []
                if cur or sorted(blocks) != ["L", "R", "T"]:
                    raise vplib.BuildError("selfcal_gen.build_trl no longer emits through / double / line blocks")
                sc.lines = head + [ln for ch in order for ln in blocks[ch]]
                sc.meta["order"] = "".join(order)
                sc.solve()
                sc.getparams()
                G.add_dut(rng, sc)
                grp.append(sc)
                scen.append(sc)
            groups.append(grp)
    results = G.run_batch(ctx, exe, scen)
    nbad = ncmp = 0
    worst = 0.0
    for grp in groups:
        base = grp[0]
        rb = results.get(base.sid)
        ctx.count(("trl-order", base.typ, base.nf))
        if rb is None or rb.get("crash") or not rb.get("solve"):
            nbad += 1
            ctx.violation(rb.get("crash") if rb and rb.get("crash") else {"kind": "fault", "error": "no result", "function": None},
                          "TRL order pairs: the T,R,L run of %s did not finish" % base.typ, {"scenario": base.text()})
            continue
        base_err = G.dut_error(base, rb)
        for sc in grp[1:]:
            r = results.get(sc.sid)
            ctx.count(None)
            what = None
            if r is None or r.get("crash") or not r.get("solve"):
                what = "the run in the order %s did not finish" % sc.meta["order"]
            elif r["solve"][-1]["rc"] != rb["solve"][-1]["rc"]:
                what = "solve returns %d in the order %s and %d in the order T,R,L" % (
                    r["solve"][-1]["rc"], sc.meta["order"], rb["solve"][-1]["rc"])
            elif rb["solve"][-1]["rc"] == 0:
                d = 0.0
                for f in range(sc.nf):
                    a, b = rb["S"][0].get(f), r["S"][0].get(f) if r["S"] else None
                    if a is None or b is None:
                        d = float("inf")
                        break
                    d = max(d, max(abs(x - y) for x, y in zip(a, b)) / max(1.0, max(abs(x) for x in a)))
                for nm in base.truth:
                    pa, pb = rb["params"].get(nm), r["params"].get(nm)
                    if not pa or not pb:
                        d = float("inf")
                        break
                    d = max(d, G.max_err(pa[0], pb[0]))
                worst = max(worst, d if d == d and d != float("inf") else 0.0)
                if not d <= TOL:
                    if base_err is not None and base_err > TOL:
                        continue        # ill-conditioned draw: the T,R,L run itself is off
                    what = ("applied S / solved parameters in the order %s differ from the order T,R,L by %.3g "
                            "(through, unknown double reflect, unknown line: the analytic TRL path)" % (sc.meta["order"], d))
            if what:
                nbad += 1
                if nbad <= 3:
                    ctx.violation({"kind": "pair", "transformation": "order(TRL)", "class": "differ", "type": sc.typ},
                                  "order of standards on %s 2x2: %s" % (sc.typ, what),
                                  {"how": "harness/selfcal_harness.c < scenario", "scenario": sc.text(), "base": base.text()})
            else:
                ncmp += 1
                ctx.traces_validated += 1
    ctx.extra["trl_order_pairs_compared"] = ncmp
    ctx.extra["trl_order_worst_difference"] = worst
    ctx.obligation("tie:order of through / reflect / line on the analytic TRL path (six orders, applied S and solved parameters)",
                   nbad == 0 and ncmp >= 5 * len(groups) * 3 // 4, "%d pairs compared, worst difference %.2g, %d problems" % (ncmp, worst, nbad))


def pkgG_frequencies_with_m_error(ctx):
    """'Solving frequencies together versus one at a time' with the measurement-error model on: the only
    state _vnacal_new_solve_simple carries from one frequency to the next is the V matrices of the solve
    state; the white-box build (harness/selfcal_wb_vmat.c) dumps them at the start of every frequency and
    they must be what VMatrixModel.init_v_matrices holds (identity), which is what a solve of that
    frequency alone starts from.  Over-determined, three frequencies, standards that couple the ports,
    noisy data."""
    import random as _random
    import c18_gen as VG
    rng = _random.Random(ctx.rng.getrandbits(48))
    n, fails = VG.v_reinit_failures(ctx, rng, 4 if ctx.tier == "quick" else 12)
    ctx.traces_validated += n
    ctx.obligation("tie:V matrices at the start of every frequency (m_error on) vs VMatrixModel.init_v_matrices",
                   not fails and n > 0, fails[0][1] if fails else "%d frequency starts compared" % n)
    for sc, detail in fails[:1]:
        ctx.violation({"kind": "frequencies_together_vs_alone", "model": "m_error", "type": sc.typ}, detail,
                      {"how": "harness/selfcal_wb_vmat.c < scenario", "scenario": sc.text(), "meta": sc.meta})
