"""C09, network-data half: the Touchstone and NPD loaders are total.

Structure-aware mutations (token delete / duplicate / swap, number perturbation, keyword and line
reorder, truncation at every byte, byte flips and insertions) of valid files of every kind, plus random
bytes, go through vnadata_fload under ASan/UBSan/LSan with the allocation interposer:

* the call terminates (timeout = violation);
* failure: -1, errno in {EBADMSG, ENOPROTOOPT, system}, at least one error report, and the destination is
  still usable (dump through the getters, then a load of a good file into it succeeds);
* success: no error report; the object does not depend on what the destination held before (the same
  bytes loaded into a fresh and into a used object give the same digest); dimensions fit the type; every
  cell readable; with >= 1 port and >= 1 frequency it can be saved and re-loaded to the same content;
* no sanitizer report, no library block left allocated.
"""
import math
import re

import vplib
import datafiles as D
import C06
import C08
import tstone as T
import tstone_ties

OK_ERRNO = ("EBADMSG", "ENOPROTOOPT", "ENOMEM")
MAX_PORTS = 40
MAX_FREQS = 5000

NUMS = ["0", "-1", "1", "2", "3", "4", "5", "9", "-0", "1e308", "1e309", "-1e309", "inf", "-inf", "nan", "1e-320", "0x10",
        "010", "1.", ".5", "+.5e-3", "1e", "e5", "--1", "+", "-", ".", "1..2", "1,5", "2147483647", "2147483648",
        "4294967297", "-2147483649", "99999999999999999999", "0x7fffffff", "12_21", "21_12", "1.0", "2.0", "3.0",
        "50", "-50", "0.0", "1e5", "17", "1000", "1001", "PER-FREQUENCY", "j", "5j", "1e2j"]
WORDS = ["[Version]", "[Number of Ports]", "[Two-Port Order]", "[Number of Frequencies]", "[Number of Noise Frequencies]",
         "[Reference]", "[Matrix Format]", "[Mixed-Mode Order]", "[Begin Information]", "[End Information]",
         "[Network Data]", "[Noise Data]", "[End]", "[Bogus]", "[", "]", "[]", "#", "!", "Full", "Upper", "Lower", "R", "S", "Z",
         "Y", "H", "G", "T", "DB", "MA", "RI", "HZ", "KHZ", "MHZ", "GHZ", "THZ", "#:ports", "#:rows", "#:columns",
         "#:frequencies", "#:parameters", "#:z0", "#:version", "#:fprecision", "#:dprecision", "#:bogus", "#:", "#NPD",
         "Sri", "Zma", "SdB", "ZdB", "IL", "RL", "VSWR", "PRC", "Zinri", "Zinma", "Tri", "bogus", ",", "Sri,Zri", "Sri,"]


def seeds(rng, tier):
    """Valid files of every kind: (kind, name, text)."""
    out = []
    k = 0
    want = 24 if tier == "quick" else 90
    while len(out) < want:
        if k % 3 != 2:
            truth = C08.gen_truth_ts(rng, k)
            if truth["ports"] > 4 and rng.random() < 0.6:
                k += 1
                continue
            truth["freqs"] = truth["freqs"][:2]
            truth["mats"] = truth["mats"][:2]
            sp = C08.spellings_ts(rng, truth, 2)[len(out) % 2]
            text = D.gen_touchstone(truth, sp, rng)
            name = "x.s%dp" % truth["ports"] if sp["version"] == 1 else "x.ts"
            out.append(("ts%d" % sp["version"], name, text))
        else:
            truth = C08.gen_truth_npd(rng, k)
            if truth["ports"] > 3:
                k += 1
                continue
            truth["freqs"] = truth["freqs"][:2]
            truth["mats"] = truth["mats"][:2]
            if truth["fz0"] is not None:
                truth["fz0"] = truth["fz0"][:2]
            sp = C08.spellings_npd(rng, truth, 2)[len(out) % 2]
            out.append(("npd", "x.npd", D.gen_npd(truth, sp, rng)))
        k += 1
    return out


def tokens(text):
    return re.findall(r"\[[^\]\n]*\]|\S+|\s+", text)


def mutate(rng, text):
    """One structure-aware mutation; returns (label, text)."""
    toks = tokens(text)
    idx = [i for i, t in enumerate(toks) if not t.isspace()]
    r = rng.random()
    if not idx:
        return "empty", text
    if r < 0.14:
        i = rng.choice(idx)
        del toks[i]
        return "token-delete", "".join(toks)
    if r < 0.26:
        i = rng.choice(idx)
        toks.insert(i, toks[i] + " ")
        return "token-duplicate", "".join(toks)
    if r < 0.38:
        i, j = rng.choice(idx), rng.choice(idx)
        toks[i], toks[j] = toks[j], toks[i]
        return "token-swap", "".join(toks)
    if r < 0.56:
        nums = [i for i in idx if re.match(r"^[+-]?[\d.]", toks[i])]
        i = rng.choice(nums or idx)
        toks[i] = rng.choice(NUMS)
        return "number-perturb", "".join(toks)
    if r < 0.66:
        i = rng.choice(idx)
        toks[i] = rng.choice(WORDS)
        return "word-replace", "".join(toks)
    if r < 0.72:
        i = rng.choice(idx)
        toks.insert(i, rng.choice(WORDS + NUMS) + rng.choice([" ", "\n"]))
        return "word-insert", "".join(toks)
    if r < 0.82:
        lines = text.split("\n")
        i, j = rng.randrange(len(lines)), rng.randrange(len(lines))
        if rng.random() < 0.5:
            lines[i], lines[j] = lines[j], lines[i]
            lab = "line-swap"
        elif rng.random() < 0.5:
            lines.insert(j, lines[i])
            lab = "line-duplicate"
        else:
            del lines[i]
            lab = "line-delete"
        return lab, "\n".join(lines)
    if r < 0.92:
        b = bytearray(text.encode("latin-1"))
        for _ in range(rng.randint(1, 3)):
            if not b:
                break
            k = rng.randrange(len(b))
            c = rng.random()
            if c < 0.4:
                b[k] = rng.randrange(256)
            elif c < 0.7:
                b.insert(k, rng.choice(b"\x00\n\r\t !#[]:,;-+.eEjJxX0123456789\x7f\x80\xff"))
            else:
                del b[k]
        return "byte-noise", b.decode("latin-1")
    a, b2 = mutate(rng, text)
    c, d = mutate(rng, b2)
    return a + "+" + c, d


def resource_heavy(text):
    """True when the input declares a port or frequency count beyond what the run may allocate."""
    up = text.upper()
    for m in re.finditer(r"(#:PORTS|#:ROWS|#:COLUMNS|\[NUMBER OF PORTS\])\s*([+-]?\w+)", up):
        v = _cint(m.group(2))
        if v is not None and v > MAX_PORTS:
            return True
    for m in re.finditer(r"(#:FREQUENCIES|\[NUMBER OF FREQUENCIES\]|\[NUMBER OF NOISE FREQUENCIES\])\s*([+-]?\w+)", up):
        v = _cint(m.group(2))
        if v is not None and v > MAX_FREQS:
            return True
    return False


def _cint(s):
    try:
        v = int(s, 0) if not re.match(r"^[+-]?0\d+$", s) else int(s, 8)
    except ValueError:
        return None
    # strtol saturates at long, then the value is narrowed to int
    v = max(-2 ** 63, min(2 ** 63 - 1, v))
    v &= 0xFFFFFFFF
    return v - 2 ** 32 if v >= 2 ** 31 else v


def huge_ports(text):
    for m in re.finditer(r"(#:PORTS|#:ROWS|#:COLUMNS|\[NUMBER OF PORTS\])\s*([+-]?\w+)", text.upper()):
        v = _cint(m.group(2))
        if v is not None and v >= 46341:
            return True
    return False


GOOD_NPD = "#:ports 1\n#:frequencies 1\n#:parameters Sri\n1e9 0.5 0.25\n"


def case_cmds(name, text):
    hx = text.encode("latin-1").hex() or "-"
    good = GOOD_NPD.encode().hex()
    return ["new 0 -1 0 0 0", "load 0 %s %s" % (name, hx), "dump 0",
            # a destination that already holds something: 1x1 S, two frequencies
            "new 1 1 1 1 2", "freq 1 0 0x1p+20", "freq 1 1 0x1p+21", "mat 1 0 1 0.5 0.25", "mat 1 1 1 0.125 -0.5",
            "load 1 %s %s" % (name, hx), "dump 1",
            # save with the format and precisions the loader left behind (e.g. '#:dprecision 0')
            "save 1 %s" % ("k.npd" if name.endswith("npd") else "k.ts"),
            # re-save what was loaded (default format of the object's type, hexadecimal precision) and re-load
            "format 0 -", "fprec 0 1000", "dprec 0 1000", "save 0 %s" % ("r.npd" if name.endswith("npd") else "r.ts"),
            "new 2 -1 0 0 0", "load 2 %s @" % ("r.npd" if name.endswith("npd") else "r.ts"), "dump 2",
            # the destination of a failed load is still usable
            "load 1 good.npd %s" % good, "dump 1"]


def a_is_ts1(dump):
    o = D.parse_dump(dump)
    return bool(o is not None and o.meta["filetype"] == D.FT_TS1)


def dims_fit(o):
    t = o.type
    if t in ("S", "Z", "Y"):
        return o.rows == o.cols
    if t in D.TWO_PORT_ONLY:
        return o.rows == 2 and o.cols == 2
    if t == "ZIN":
        return o.rows == 1
    return False           # UNDEF: the loader did not say what the data are


def finite(o):
    for m in o.data:
        for x in m:
            if not (math.isfinite(x.real) and math.isfinite(x.imag)):
                return False
    for i in range(len(o.freqs)):
        for z in o.z0_at(i):
            if not (math.isfinite(z.real) and math.isfinite(z.imag)):
                return False
    return all(math.isfinite(f) for f in o.freqs)


def evaluate(kind, label, name, text, lines):
    """None or (sig, what)."""
    loads = [l for l in lines if l.startswith("LOAD")]
    dumps = [l for l in lines if l.startswith("DUMP")]
    saves = [l for l in lines if l.startswith("SAVE")]
    if len(loads) < 4 or len(dumps) < 4:
        return None            # died: reported from the sanitizer output
    first = {}

    def ld(l):
        head, _, msg = l.partition(" # ")
        msg, _, fm = msg.partition(" ## ")
        first[msg] = fm
        h = head.split()
        return int(h[1]), h[2], int(h[3]), int(h[4]), int(h[5]), msg
    rc0, e0, nerr0, nwarn0, cat0, msg0 = ld(loads[0])
    rc1, e1, nerr1, _, _, msg1 = ld(loads[1])
    fam = "npd" if name.endswith("npd") else "touchstone"
    if rc0 != rc1:
        return ({"kind": "outcome_depends_on_destination", "loader": fam},
                "the same bytes load with %d into a fresh object and %d into a used one (%s / %s)" % (rc0, rc1, msg0, msg1))
    if rc0 not in (0, -1):
        return ({"kind": "bad_return", "loader": fam}, "vnadata_fload returned %d" % rc0)
    if kind == "directed" and label in MUST_REFUSE and not (rc0 == -1 and e0 == MUST_REFUSE[label]):
        return ({"kind": "directed_input_not_refused", "loader": fam, "input": label},
                "%s must be refused with %s, vnadata_fload returned %d %s (%s)" % (label, MUST_REFUSE[label], rc0, e0, msg0))
    good = ld(loads[3])
    after_good = D.parse_dump(dumps[3])
    if good[0] != 0 or after_good is None or after_good.type != "S" or after_good.rows != 1 or len(after_good.freqs) != 1 \
            or after_good.data[0][0] != complex(0.5, 0.25):
        return ({"kind": "destination_unusable", "loader": fam, "after": "failure" if rc0 else "success"},
                "after loading the mutated file the destination cannot take a good file: %s" % good[5])
    if rc0 == -1:
        if e0 not in OK_ERRNO:
            return ({"kind": "errno", "loader": fam, "errno": e0,
                     "via_set_format": bool("invalid format specifier" in msg0 or "invalid char" in msg0),
                     "huge_port_count": huge_ports(text)},
                    "load failed with errno %s (%s)" % (e0, msg0))
        if nerr0 != 1:
            fm = first.get(msg0, "")
            return ({"kind": "error_reports", "loader": fam,
                     "first_is_unknown_keyword": bool("unknown keyword" in fm),
                     "first_is_usage_error_of_setter": bool(re.match(r"^vnadata_\w+: ", fm))},
                    "failed load made %d error reports (first: %s; last: %s)" % (nerr0, fm, msg0))
        for d in dumps[:2]:
            o = D.parse_dump(d)
            if o is None or not o.meta["consistent"]:
                return ({"kind": "destination_unusable", "loader": fam, "after": "failure"}, "inconsistent digest after a failed load")
        return None
    # ---- success
    if nerr0 != 0 or nerr1 != 0:
        return ({"kind": "load_reports_error_but_succeeds", "loader": fam, "touchstone_version": 1 if a_is_ts1(dumps[0]) else 2},
                "returned 0 after reporting: %s" % (msg0 or msg1))
    a, b = D.parse_dump(dumps[0]), D.parse_dump(dumps[1])
    if not (a.meta["consistent"] and b.meta["consistent"]):
        return ({"kind": "inconsistent_object", "loader": fam}, "digest inconsistent")
    if not D.obj_equal(a, b) or (a.type, a.rows, a.cols) != (b.type, b.rows, b.cols):
        return ({"kind": "result_depends_on_destination", "loader": fam, "loaded_type": a.type},
                "the same bytes give %s %dx%d/%d frequencies in a fresh object and %s %dx%d/%d in a used one"
                % (a.type, a.rows, a.cols, len(a.freqs), b.type, b.rows, b.cols, len(b.freqs)))
    if not dims_fit(a):
        return ({"kind": "dims_do_not_fit_type", "loader": fam, "loaded_type": a.type},
                "successful load left type %s with %dx%d" % (a.type, a.rows, a.cols))
    if a.cols >= 1 and a.rows >= 1 and len(a.freqs) >= 1 and saves:
        sv = saves[-1].split(" # ")[0].split()
        svmsg = saves[-1].partition(" # ")[2]
        if int(sv[1]) != 0:
            return ({"kind": "loaded_object_not_savable", "loader": fam,
                     "z0_not_positive_real": bool("real and positive" in svmsg)},
                    "the loaded object (%s %dx%d) cannot be saved: %s" % (a.type, a.rows, a.cols, svmsg))
        rc2, e2, nerr2, _, _, msg2 = ld(loads[2])
        if rc2 != 0:
            return ({"kind": "resaved_file_rejected", "loader": fam}, "the re-saved file does not load: %s" % msg2)
        c = D.parse_dump(dumps[2])
        exact = not (a.meta["filetype"] == D.FT_TS1 and a.type != "S")
        if (c.type, c.rows, c.cols, len(c.freqs)) != (a.type, a.rows, a.cols, len(a.freqs)):
            return ({"kind": "resave_changes_content", "loader": fam, "class": "shape"},
                    "re-saved and re-loaded object is %s %dx%d/%d, was %s %dx%d/%d"
                    % (c.type, c.rows, c.cols, len(c.freqs), a.type, a.rows, a.cols, len(a.freqs)))
        if exact and finite(a):
            if fam == "touchstone":
                # Touchstone keeps only the real part of z0 and no per-frequency z0: compare what it can hold
                same = all(D.same_float(x, y) for x, y in zip(a.freqs, c.freqs)) and \
                    all(all(D.same_complex(x, y) for x, y in zip(m1, m2)) for m1, m2 in zip(a.data, c.data))
            else:
                same = D.obj_equal(a, c)
            if not same:
                return ({"kind": "resave_changes_content", "loader": fam, "class": "value"},
                        "re-saved and re-loaded object differs: %s vs %s" % (dumps[0][:300], dumps[2][:300]))
        elif not exact and finite(a):
            R = a.z0[0].real if a.z0 else 50.0
            for m1, m2 in zip(a.data, c.data):
                big = max(abs(x) for x in m1)
                small = min(abs(x) for x in m1)
                moderate = big < 1e3 * max(R, 1 / R, 1) and small > 1e-3 * min(R, 1 / R, 1)
                # the Touchstone 1 writer normalises through S ((Z - z0) / (Z + z0) and back): magnitudes near the ends
                # of the binary64 range overflow / underflow there, which is not a loss "to rounding" of moderate data
                moderate = moderate and 1e-100 < R < 1e100 and big < 1e100 and small > 1e-100
                if moderate and D.mat_relerr(m1, m2) > 1e-6:
                    return ({"kind": "resave_changes_content", "loader": fam, "class": "value"},
                            "re-saved (normalised) and re-loaded values differ: %r vs %r" % (m1, m2))
    return None


# directed inputs the loaders must refuse, with the errno: precisions below 1 (fix DB91; the loader used to store 0, which
# the setters refuse), a NaN reference impedance (fix DB93; "x <= 0.0" let it through), and the look-ahead family
# (the unexpected character after [Network Data] is reported before vnadata_init is called)
MUST_REFUSE = {"npd-dprecision-0": "EBADMSG", "npd-fprecision-0": "EBADMSG", "ts1-r-nan": "EBADMSG", "ts2-reference-nan": "EBADMSG",
               "ts2-many-ports-bad-char": "EBADMSG", "ts2-many-ports-bad-keyword": "EBADMSG"}


def directed():
    """Inputs aimed at the places DESIGN.md section 7 names (D29, D30, D36) and at the loaders' arithmetic."""
    out = []
    out.append(("d30-later-larger-ports", "x.ts",
                "[Version] 2.0\n# Hz S RI R 50\n[Number of Ports] 1\n[Reference] 50\n[Number of Ports] 3\n"
                "[Number of Frequencies] 1\n[Network Data]\n1e9 " + "0.1 0.2 " * 9 + "\n[End]\n"))
    out.append(("d30-repeated-reference", "x.ts",
                "[Version] 2.0\n# Hz S RI R 50\n[Number of Ports] 1\n[Reference] 50\n[Reference] 75\n"
                "[Number of Frequencies] 1\n[Network Data]\n1e9 0.1 0.2\n[End]\n"))
    out.append(("d36-unknown-keyword", "x.ts", "[Version] 2.0\n# Hz S RI R 50\n[Number  of Ports] 1\n"))
    out.append(("d36-unknown-keyword-first", "x.s1p", "[Bogus]\n# Hz S RI R 50\n1e9 0.1 0.2\n"))
    out.append(("d29-ghz-two-frequencies", "x.ts",
                "[Version] 2.0\n# GHz S RI R 50\n[Number of Ports] 1\n[Number of Frequencies] 2\n[Network Data]\n"
                "1 0.1 0.2\n2 0.3 0.4\n[End]\n"))
    out.append(("ts1-noise-only", "x.s2p", "# GHz S RI R 50\n1 2 3 4 5\n2 2 3 4 5\n"))
    out.append(("ts1-noise-only-h", "x.s2p", "# GHz H RI R 5\n1 2 3 4 5\n"))
    out.append(("ts1-trailing-junk", "x.s1p", "# GHz S RI R 50\n1 0.1 0.2\n2 0.3 0.4\nabc\n"))
    out.append(("ts1-descending", "x.s1p", "# GHz S RI R 50\n2 0.1 0.2\n1 0.3 0.4\n"))
    out.append(("ts1-bad-last-line", "x.s1p", "# GHz S RI R 50\n1 0.1 0.2\n2 0.3 0.4 0.5"))
    # a sweep that starts at DC: frequency 0 is legal (only negative frequencies are invalid), in every framing
    out.append(("ts1-dc-start-1port", "x.s1p", "# GHz S RI R 50\n0 0.1 0.2\n1 0.3 0.4\n"))
    out.append(("ts1-dc-start-2port", "x.s2p", "# kHz S RI R 50\n0 0.1 0.2 0.3 0.4 0.5 0.6 0.7 0.8\n2.5 0.1 0.2 0.3 0.4 0.5 0.6 0.7 0.8\n"))
    out.append(("ts1-dc-start-3port", "x.s3p", "# Hz S RI R 50\n0.0 1 2 3 4 5 6\n7 8 9 10 11 12\n13 14 15 16 17 18\n"))
    out.append(("ts1-dc-start-4port", "x.s4p", "# MHz S RI R 50\n0e0 1 2 3 4 5 6 7 8\n1 2 3 4 5 6 7 8\n1 2 3 4 5 6 7 8\n1 2 3 4 5 6 7 8\n"
                                                "1 1 2 3 4 5 6 7 8\n1 2 3 4 5 6 7 8\n1 2 3 4 5 6 7 8\n1 2 3 4 5 6 7 8\n"))
    out.append(("ts1-dc-only", "x.s1p", "# THz Z MA R 75\n-0 0.1 0.2\n"))
    out.append(("ts2-dc-start", "x.ts", "[Version] 2.0\n# GHz S RI R 50\n[Number of Ports] 1\n[Number of Frequencies] 2\n"
                                         "[Network Data]\n0 0.1 0.2\n1 0.3 0.4\n[End]\n"))
    out.append(("npd-dc-start", "x.npd", "#:ports 1\n#:frequencies 2\n#:parameters Sri\n0 0.1 0.2\n1e9 0.3 0.4\n"))
    # a subnormal frequency times the unit: the product of the already coarsely rounded operand (model tie: skipped, not compared)
    out.append(("ts1-subnormal-frequency", "x.s1p", "# kHz S RI R 50\n1e-320 0.1 0.2\n"))
    out.append(("ts2-subnormal-frequency", "x.ts", "[Version] 2.0\n# THz S RI R 50\n[Number of Ports] 1\n[Number of Frequencies] 1\n"
                                                    "[Network Data]\n1e-320 0.1 0.2\n"))
    out.append(("ts1-negative-r", "x.s1p", "# GHz Z RI R -50\n1 0.1 0.2\n"))
    out.append(("ts1-zero-r", "x.s1p", "# GHz Y RI R 0\n1 0.1 0.2\n"))
    out.append(("ts2-negative-reference", "x.ts",
                "[Version] 2.0\n# Hz S RI R 50\n[Number of Ports] 1\n[Reference] -5\n[Number of Frequencies] 1\n"
                "[Network Data]\n1e9 0.1 0.2\n[End]\n"))
    out.append(("ts2-zero-ports", "x.ts", "[Version] 2.0\n# Hz S RI R 50\n[Number of Ports] 0\n[Number of Frequencies] 1\n"
                                         "[Network Data]\n1e9\n[End]\n"))
    out.append(("ts2-many-ports", "x.ts", "[Version] 2.0\n# Hz S RI R 50\n[Number of Ports] 65536\n[Number of Frequencies] 0\n"
                                         "[Network Data]\n[End]\n"))
    out.append(("ts2-negative-frequencies", "x.ts", "[Version] 2.0\n# Hz S RI R 50\n[Number of Ports] 1\n"
                                                   "[Number of Frequencies] -3\n[Network Data]\n[End]\n"))
    out.append(("ts-version-3", "x.ts", "[Version] 3.0\n# Hz S RI R 50\n"))
    out.append(("ts-mixed-mode", "x.ts", "[Version] 2.0\n# Hz S RI R 50\n[Number of Ports] 2\n[Mixed-Mode Order] D1,2 C1,2\n"))
    out.append(("npd-many-ports", "x.npd", "#:ports 46341\n#:frequencies 0\n#:parameters Sri\n"))
    out.append(("npd-many-ports-zin", "x.npd", "#:ports 1073741824\n#:frequencies 0\n#:parameters Zinri\n"))
    out.append(("npd-bad-format", "x.npd", "#:ports 1\n#:frequencies 1\n#:parameters bogus\n1e9 1 2\n"))
    out.append(("npd-no-loadable", "x.npd", "#:ports 2\n#:frequencies 1\n#:parameters IL,RL\n1e9 1 2 3 4\n"))
    out.append(("npd-zero-ports", "x.npd", "#:ports 0\n#:frequencies 1\n#:parameters Sri\n1e9\n"))
    out.append(("npd-zin-zero-ports", "x.npd", "#:ports 0\n#:frequencies 1\n#:parameters Zinri\n1e9\n"))
    out.append(("npd-version-2", "x.npd", "#:version 2.0\n#:ports 1\n#:frequencies 1\n#:parameters Sri\n1e9 1 2\n"))
    out.append(("npd-keyword-midline", "x.npd", "#:ports 1 #:frequencies 1\n#:frequencies 1\n#:parameters Sri\n1e9 1 2\n"))
    out.append(("npd-z0-then-ports", "x.npd", "#:rows 1\n#:columns 1\n#:z0 50 0j\n#:ports 1\n#:frequencies 1\n#:parameters Sri\n1e9 1 2\n"))
    out.append(("npd-high-bytes", "x.npd", "#:ports 1\n#:frequencies 1\n#:parameters S\xe9ri\n1e9 1 2\n"))
    out.append(("npd-dprecision-0", "x.npd", "#:ports 1\n#:frequencies 1\n#:parameters Sri\n#:dprecision 0\n1e9 1 2\n"))
    out.append(("npd-fprecision-0", "x.npd", "#:ports 1\n#:frequencies 1\n#:parameters Sri\n#:fprecision 0\n1e9 1 2\n"))
    out.append(("npd-precision-1", "x.npd", "#:ports 1\n#:frequencies 1\n#:parameters Sri\n#:dprecision 1\n#:fprecision 1\n1e9 1 2\n"))
    out.append(("ts1-r-nan", "x.s2p", "# GHz S RI R nan\n1 1 2 3 4 5 6 7 8\n"))
    out.append(("ts2-reference-nan", "x.ts", "[Version] 2.0\n# Hz S RI R 50\n[Number of Ports] 1\n[Reference] nan\n"
                "[Number of Frequencies] 1\n[Network Data]\n1e9 0.1 0.2\n[End]\n"))
    out.append(("ts2-many-ports-bad-char", "x.ts", "[Version] 2.0\n# Hz S RI R 50\n[Number of Ports] 65536\n[Number of Frequencies] 1\n"
                "[Network Data]\n$\n"))
    out.append(("ts2-many-ports-bad-keyword", "x.ts", "[Version] 2.0\n# Hz S RI R 50\n[Number of Ports] 65536\n[Number of Frequencies] 1\n"
                "[Network Data]\n[Bogus]\n"))
    out.append(("ts2-many-ports-then-data", "x.ts", "[Version] 2.0\n# Hz S RI R 50\n[Number of Ports] 65536\n[Number of Frequencies] 1\n"
                "[Network Data]\n1\n"))
    out.append(("npd-no-newline-eof", "x.npd", "#:ports 1\n#:frequencies 1\n#:parameters Sri\n1e9 1 2"))
    out.append(("empty", "x.npd", ""))
    out.append(("empty-ts", "x.ts", ""))
    out.append(("nul-bytes", "x.s1p", "\x00\x00\x00"))
    return out


def run(ctx):
    H = D.Harness(ctx)
    rng = ctx.rng
    sd = seeds(rng, ctx.tier)
    inputs = []          # (id, kind, label, name, text)
    nmut = 70 if ctx.tier == "quick" else 400
    ntrunc = 6 if ctx.tier == "quick" else len(sd)
    skipped = 0
    for si, (kind, name, text) in enumerate(sd):
        inputs.append(("s%d" % si, kind, "valid", name, text))
        for m in range(nmut):
            lab, t = mutate(rng, text)
            if resource_heavy(t):
                skipped += 1
                continue
            inputs.append(("s%dm%d" % (si, m), kind, lab, name, t))
    # truncation at every byte, for a rotating subset of the seeds in the quick tier
    order = list(range(len(sd)))
    rng.shuffle(order)
    for si in order[:ntrunc]:
        kind, name, text = sd[si]
        for k in range(len(text)):
            t = text[:k]
            if resource_heavy(t):
                skipped += 1
                continue
            inputs.append(("s%dt%d" % (si, k), kind, "truncate", name, t))
    for r in range(150 if ctx.tier == "quick" else 1500):
        n = rng.choice([1, 2, 5, 20, 80, 300])
        alphabet = rng.choice([bytes(range(256)), b" \n\t#![]:.,+-eE0123456789jJxXsSzZrRiImMaAdDbBhHgGkKpP_"])
        t = bytes(rng.choice(alphabet) for _ in range(n)).decode("latin-1")
        if resource_heavy(t):
            continue
        inputs.append(("r%d" % r, "random", "random-bytes", rng.choice(["x.npd", "x.ts", "x.s2p", "x.s4p"]), t))
    for lab, name, text in directed():
        inputs.append(("d-" + lab, "directed", lab, name, text))
    # words, numbers and [keyword] texts of every length around the sizes of the scanner's text buffer (64, 128, 256):
    # through the whole loader under ASan here, and token by token against the model below (tok_buffer_no_overflow)
    longtok = tstone_ties.long_token_inputs(rng, ctx.tier)
    for lab, name, text in longtok:
        inputs.append(("L-" + lab, "directed", "long-token", name, text))
    cases = [(cid, case_cmds(name, text)) for cid, kind, lab, name, text in inputs]
    results, faults = H.run(cases, timeout=240 if ctx.tier == "quick" else 900)
    byid = dict((x[0], x) for x in inputs)
    for f in faults:
        x = byid.get(f["id"])
        if f.get("abandoned"):
            ctx.notes.append(f["stderr"])
            continue
        if f.get("hang"):
            nocomment = re.sub(r"![^\n]*", "", x[4]) if x else ""
            sig = {"kind": "hang", "function": "vnadata_fload",
                   "eof_inside_touchstone_option_line": bool(x and not x[3].endswith("npd") and
                                                             nocomment.rfind("#") > nocomment.rfind("\n"))}
        else:
            sig = vplib.asan_signature(f["stderr"]) or {"kind": "fault", "error": "exit %s" % f["rc"], "function": None}
        ctx.violation(sig, "loader harness died on input %s (%s): %s" % (f["id"], x[2] if x else "?", f["stderr"][-400:]),
                      {"file_hex": x[4].encode("latin-1").hex() if x else None, "filename": x[3] if x else None,
                       "file": x[4] if x else None, "stderr": f["stderr"][-3000:]})
    classes = {}
    outcomes = {"ok": 0, "rejected": 0}
    for cid, kind, lab, name, text in inputs:
        lines = results.get(cid)
        if lines is None or any(l.startswith("FAULT") for l in lines):
            continue
        ctx.count(None)
        v = evaluate(kind, lab, name, text, lines)
        live = [l for l in lines if l.startswith("LIVE")]
        if v is None and live and live[-1] != "LIVE 0":
            v = ({"kind": "leak", "where": "vnadata_fload"}, "library blocks still allocated after the case: %s" % live[-1])
        if v is None:
            l0 = [l for l in lines if l.startswith("LOAD")][0]
            outcomes["ok" if l0.startswith("LOAD 0") else "rejected"] += 1
            ctx.nontrivial.add(cid)
            ctx.traces_validated += 1
            continue
        key = tuple(sorted(v[0].items()))
        classes[key] = classes.get(key, 0) + 1
        if classes[key] <= 2:
            ctx.violation(v[0], "[%s] %s" % (lab, v[1]), {"file": text, "file_hex": text.encode("latin-1").hex(),
                                                        "filename": name, "mutation": lab,
                                                        "harness_output": [l[:1200] for l in lines]})
    ctx.extra["data_inputs"] = len(inputs)
    ctx.extra["data_seed_files"] = len(sd)
    ctx.extra["data_outcomes"] = outcomes
    ctx.extra["data_skipped_resource_heavy"] = skipped
    ctx.extra["data_violation_classes"] = dict((str(dict(k)), v) for k, v in classes.items())
    known = vplib.load_known()
    unknown = [k for k in classes if vplib.match_known(ctx.prop, dict(k), known) is None]
    ctx.obligation("tie:data_loaders_total", not unknown and not faults,
                   "%d violation classes (%d known findings), %d faults" % (len(classes), len(classes) - len(unknown), len(faults)))
    model_ties(ctx, inputs, results)
    return inputs


def model_ties(ctx, inputs, results):
    """The byte-level models behind Properties_C09.v (coq/Files/TsTok.v, TsParse.v, NpdLoad.v), extracted, against the C code
    on the inputs of this run: outcome / errno class / loaded object of every input (tie:loader_model), the token streams
    and the text-buffer allocation of next_token (tie:tokenizer_model) and the field lists of scan_line
    (tie:npd_scanner_model) on the long-token inputs and on a sample of the mutated ones."""
    M = tstone_ties.models(ctx)
    quick = ctx.tier == "quick"
    ctx.log("C09(data): %d inputs through the loaders; comparing with the extracted models" % len(inputs))
    tstone_ties.tie_loads(ctx, M, [(cid, name, text) for cid, kind, lab, name, text in inputs], results, "mutations",
                          timeout=600 if quick else 2400)
    ts = [(cid, text) for cid, kind, lab, name, text in inputs if T.is_touchstone_name(name)]
    npd = [(cid, text) for cid, kind, lab, name, text in inputs if not T.is_touchstone_name(name)]
    lt = [x for x in ts if x[0].startswith("L-")]
    rest = [x for x in ts if not x[0].startswith("L-")]
    ctx.rng.shuffle(rest)
    ctx.rng.shuffle(npd)
    nts, nnpd = (700, 500) if quick else (6000, 4000)
    flagsets = [(0,), (4,), (2,), (1,), (0, 4), (6,), (5,)]
    # the long tokens with every flag set that changes how a word is converted; the others with one or two of them
    tstone_ties.tie_tokens(ctx, M, lt, "long-tokens", flagsets=(0, 1, 2))
    tstone_ties.tie_tokens(ctx, M, rest[:nts], "mutations", pick=lambda cid: flagsets[sum(map(ord, cid)) % len(flagsets)])
    tstone_ties.tie_npd_scan(ctx, M, npd[:nnpd], "mutations")
    ctx.log("C09(data): model ties done")
