"""C18 - measurement-error modelling weights without bias and judges consistency sanely.

1. Coq: coq/SelfCal/{Weight,Lsq,LsqLink,Guard,C18MError,Pvalue}*.v and Properties_C18.v are rebuilt (obligations).
2. Ties (every run, white-box build of the unmodified solve_simple / solve_auto sources):
   * the weight vector returned by _vnacal_new_solve_calc_weights against the extracted
     WeightModel.calc_weights (which equation's measurement every element was computed from);
   * the element each consumer multiplies an equation with, observed by replacing the weights
     with index markers, against WeightModel.simple_index / auto_index;
   * _vnacal_new_solve_calc_pvalue, every input dumped by the white-box tap: the leakage sample count of
     every cell against WeightModel.leak_count (cells with 0, 1 and more samples), the degrees of freedom
     the library used (tapped exp(-chisq/2) + returned p-value; the df < 1 exit) against
     WeightModel.dof_of_standards, the statistic against PvalueModel.calc_stat in exact rationals, the
     returned p-value against PvalueModel.chisq_pvalue, 1 / w^2 against PvalueModel.weight2 with the STORED
     noise model;
   * vnacal_new_set_m_error: histories of 1..4 calls (every ordered pair of call kinds, random longer
     ones): return value and stored vector after every call against the extracted
     C18MErrorModel.run_args / returns (m_error_last_call_wins);
   * GuardModel: which V matrices _vnacal_new_solve_init allocates (shape of every standard's vector)
     against the extracted init_vvec; the unmodified save_v_matrices / restore_v_matrices run on the
     real solve state with markers (buffer of exactly the caller's size, under the sanitizers)
     against the extracted save_v_matrices / restore_v_matrices: absent vectors, absent matrices
     (UE14 / E12 with one over-determined column), all matrices present;
   * exactly determined calibrations with the model on: p-value 1, not rejected
     (exactly_determined_never_rejected).
3. API-level scenarios (independent physical oracle, lib/selfcal_gen.py):
   (a) exact data, over-determined, all standards known: with set_m_error the calibration equals
       the unweighted one (1e-9) and is never rejected; NULL/NULL restores the unweighted
       behaviour; all types, dims 1..3, sigma_nf 1e-6..1e-2, sigma_tr NULL/0/1e-5..1e-1, grids of
       1, 2, N points and the calibration grid;
   (b) noise vectors on their own grid pass through the given points;
   (c) thorough tier, support, fixed seeds, wide bounds: rejection rate under Gaussian noise of the
       declared size; 100-sigma outlier standards are rejected with EDOM.
Not proved (support only): the two rates.
"""
import math
import os
import random
import shutil
from fractions import Fraction

import vplib
import selfcal_gen as G
from C02 import Recorder, check_common, crash_sig

VFILES = ["SelfCal/WeightModel.v", "SelfCal/WeightProofs.v", "SelfCal/LsqModel.v", "SelfCal/LsqProofs.v",
          "SelfCal/LsqLinkModel.v", "SelfCal/LsqLinkProofs.v", "SelfCal/WeightQI.v", "SelfCal/GuardModel.v",
          "SelfCal/GuardProofs.v", "SelfCal/C18MErrorModel.v", "SelfCal/C18MErrorProofs.v", "SelfCal/PvalueModel.v",
          "SelfCal/PvalueProofs.v", "SelfCal/PvalueQI.v", "SelfCal/VMatrixModel.v", "SelfCal/VMatrixQI.v",
          "SelfCal/ExactOverModel.v", "SelfCal/ExactOverProofs.v", "SelfCal/ExactOverExample.v", "SelfCal/VMatrixProofs.v",
          "SelfCal/ExactOverPvalue.v", "SelfCal/ExactOverPhysical.v", "SelfCal/VMatrixNoise.v", "SelfCal/VMatrixNoiseProofs.v",
          "SelfCal/VMatrixNoiseExample.v", "SelfCal/ExactOverSatisfiable.v", "Properties_C18.v"]

SIG_NF = [1e-6, 1e-4, 1e-2]
SIG_TR = [None, 0.0, 1e-5, 1e-3, 1e-1]
GRIDS = ["one", "two", "own", "cal", "two_off", "own_off"]


def merror_cmd(grid, freqs, snf, strk, rng=None, vary=False):
    """set_m_error command for a noise grid; returns (command, expected (nf, tr) per calibration
    frequency).  With vary the two vectors are linear in frequency with different slopes (sigma_nf
    rising, sigma_tr falling): any interpolation "through the given points" reproduces linear data
    linearly, so the expectation is exact at every calibration frequency, on or off the grid.
    Grids: one point; the calibration grid (NULL frequency vector); two / own: knots include the
    calibration frequencies; two_off / own_off: no calibration frequency (except possibly the
    ends) is a knot."""
    nfq = len(freqs)
    if grid == "one":
        cmd = "merror 1 - %s %s" % (G.fnum(snf), "-" if strk is None else G.fnum(strk))
        return cmd, [(snf, strk or 0.0)] * nfq
    if grid == "cal":
        nfv = [snf * (1 + 0.5 * i if vary else 1) for i in range(nfq)]
        trv = None if strk is None else [strk * (1 + 0.25 * i if vary else 1) for i in range(nfq)]
        cmd = "merror %d - %s %s" % (nfq, " ".join(G.fnum(x) for x in nfv),
                                     "-" if trv is None else " ".join(G.fnum(x) for x in trv))
        return cmd, [(nfv[i], trv[i] if trv else 0.0) for i in range(nfq)]
    lo, hi = freqs[0], freqs[-1]
    if grid == "two":
        gf = [lo, hi] if nfq > 1 else [lo * 0.5, lo * 1.5]
    elif grid == "two_off":
        gf = [lo * 0.9, hi * 1.1]
    elif grid == "own":
        gf = sorted(set([lo * 0.75] + list(freqs) + [0.5 * (freqs[i] + freqs[i + 1]) for i in range(nfq - 1)] + [hi * 1.25]))
    else:   # own_off: 3 .. 6 knots, irregular, none of them an interior calibration frequency
        k = (rng.choice([3, 4, 6]) if rng else 4)
        gf = [lo * 0.8 + (hi * 1.2 - lo * 0.8) * (i / float(k - 1)) ** 1.3 for i in range(k)]
    span = gf[-1] - gf[0]

    def nf_of(f):
        return snf * (1.0 + (0.5 * (f - gf[0]) / span if vary else 0.0))

    def tr_of(f):
        return (strk or 0.0) * (2.0 - (0.8 * (f - gf[0]) / span if vary else 0.0))
    nfv = [nf_of(f) for f in gf]
    trv = None if strk is None else [tr_of(f) for f in gf]
    cmd = "merror %d %s %s %s" % (len(gf), " ".join(G.fnum(x) for x in gf), " ".join(G.fnum(x) for x in nfv),
                                  "-" if trv is None else " ".join(G.fnum(x) for x in trv))
    exp = [(nf_of(f), tr_of(f) if strk is not None else 0.0) for f in freqs]
    return cmd, exp


# ------------------------------------------------------------------------------------------ (a), (b)
def part_exact(ctx, rec, exe):
    cases = [(typ, n, snf, strk, grid) for typ in G.TYPES for n in (1, 2, 3) for snf in SIG_NF
             for strk in SIG_TR for grid in GRIDS]
    if ctx.tier == "quick":
        # every type x dimension x grid at least once, sigmas sampled
        chosen = []
        for typ in G.TYPES:
            for n in (1, 2, 3):
                for grid in GRIDS:
                    chosen.append((typ, n, ctx.rng.choice(SIG_NF), ctx.rng.choice(SIG_TR), grid))
        extra = ctx.rng.sample(cases, 60)
        cases = chosen + extra
    scs = []
    for i, (typ, n, snf, strk, grid) in enumerate(cases):
        rng = random.Random(ctx.rng.getrandbits(48))
        nfq = rng.choice([1, 2, 3]) if grid not in ("two", "two_off", "own_off") else rng.choice([2, 3, 4])
        sc = G.build_general(rng, "ex_%d_%s_%d" % (i, typ, n), typ, n, nfq, 0, 0, excess=rng.choice([1, 3, 6]))
        vary = rng.random() < 0.5 or grid in ("two_off", "own_off")
        cmd, exp = merror_cmd(grid, sc.freqs, snf, strk, rng, vary)
        sc.meta.update({"grid": grid, "sigma_nf": snf, "sigma_tr": strk, "vary": vary, "merror": cmd, "expected_vector": exp})
        dut = [G.rand_dut(rng, n) for _ in range(nfq)]
        dm = [sc.em.measure(dut[f], f) for f in range(nfq)]
        sc.solve()
        sc.apply(dm, dut)                    # 0: unweighted
        sc.cmd(cmd)
        sc.cmd("dumpmerror")
        sc.solve()
        sc.apply(dm, dut)                    # 1: weighted
        sc.cmd("merror off")
        sc.cmd("dumpmerror")
        sc.solve()
        sc.apply(dm, dut)                    # 2: disabled again
        scs.append(sc)
    res = G.run_batch(ctx, exe, scs)
    worst = 0.0
    nchecked = 0
    for sc in scs:
        r = res.get(sc.sid)
        if r is None:
            continue
        m = sc.meta
        where = "exact data %s n=%d grid=%s" % (sc.typ, sc.n, m["grid"])
        cs = crash_sig(r)
        if cs is not None:
            check_common(rec, sc, r, where)
            continue
        ctx.count(("exact", sc.typ, sc.n, m["grid"], m["sigma_nf"], m["sigma_tr"], sc.sid))
        ops = [o for o in r["ops"] if o.get("op") == "merror"]
        if len(r["solve"]) != 3 or len(ops) != 2:
            rec.add({"kind": "harness", "where": "exact"}, "unexpected harness output (%d solves)" % len(r["solve"]), sc, r)
            continue
        if ops[0].get("rc") != "0":
            rec.add({"kind": "set_m_error_rejected", "grid": m["grid"]},
                    "vnacal_new_set_m_error rejected a valid noise description: %s" % m["merror"][:120], sc, r)
            continue
        s0, s1, s2 = r["solve"]
        if s0["rc"] != 0:
            # the generator promises a determining set; nothing about weighting can be said
            rec.add({"kind": "generator", "type": sc.typ}, "unweighted solve of the generated standards failed: %s" % s0.get("msg"), sc, r)
            continue
        over = int(s0["maxeq"]) > int(s0["xlen"]) // int(s0["sys"])
        # exact data are never rejected
        if s1["rc"] != 0:
            rec.add({"kind": "exact_data_rejected", "type": sc.typ, "why": s1.get("msg", "")[:60]},
                    "exact over-determined data rejected with measurement-error modelling on (%s, sigma_nf %g, sigma_tr %s, grid %s): %s"
                    % (sc.typ, m["sigma_nf"], m["sigma_tr"], m["grid"], s1.get("msg")), sc, r)
            continue
        if any(p != -1.0 and not (p >= 0.5) for p in s1["pvalues"]):
            rec.add({"kind": "exact_data_pvalue", "type": sc.typ},
                    "p-value %s for data that fit the model exactly" % s1["pvalues"], sc, r)
        # same calibration as without the model
        e = None
        if r["S"][0] and r["S"][1]:
            e = max(G.max_err(r["S"][0][f], r["S"][1][f]) for f in range(sc.nf))
            worst = max(worst, e)
        if e is None or e > 1e-9:
            rec.add({"kind": "exact_data_bias", "type": sc.typ},
                    "weighted and unweighted calibrations of exact data differ by %s on a device" % e, sc, r)
        de = G.dut_error(sc, r, 1)
        if de is None or de > 1e-8:
            rec.add({"kind": "dut_error", "where": "weighted exact", "type": sc.typ},
                    "weighted calibration of exact data does not correct a device: %s" % de, sc, r)
        # NULL/NULL restores the unweighted behaviour: bit-identical to the first run
        mv = r.get("merrorvec", [])
        if ops[1].get("rc") != "0" or s2["rc"] != 0 or len(mv) != 2 or mv[1] is not None or not r["S"][2] or \
                any(r["S"][0][f] != r["S"][2][f] for f in range(sc.nf)) or any(p != -1.0 for p in s2["pvalues"]):
            rec.add({"kind": "disable_not_restored", "type": sc.typ},
                    "after set_m_error(NULL, NULL) the solve differs from the unweighted one", sc, r)
        # (b) the stored per-frequency noise model passes through the given points
        if len(mv) >= 1 and mv[0] is not None:
            for f, expd in enumerate(m["expected_vector"]):
                if expd is None:
                    continue
                got = mv[0][f]
                if abs(got[0] - expd[0]) > 1e-8 * expd[0] or abs(got[1] - expd[1]) > 1e-8 * max(expd[1], expd[0] * 1e-6):
                    rec.add({"kind": "noise_grid", "grid": m["grid"]},
                            "stored noise model at calibration frequency %g is (sigma_nf %.9g, sigma_tr %.9g); the given vectors "
                            "(linear in frequency, through the given points) give (%.9g, %.9g) there (grid %s)"
                            % (sc.freqs[f], got[0], got[1], expd[0], expd[1], m["grid"]), sc, r)
                    break
            nchecked += 1
        else:
            rec.add({"kind": "noise_grid", "grid": m["grid"], "points": "absent"}, "noise vector not stored", sc, r)
    ctx.extra["exact_data"] = {"scenarios": len(scs), "worst_weighted_vs_unweighted": worst, "noise_vectors_checked": nchecked}


# ------------------------------------------------------------------------------------------ weight ties
def model_query(drv, lines):
    rc, out, err = vplib.sh([drv], input="\n".join(lines) + "\n", timeout=300)
    if rc != 0:
        return None
    return [l.split()[1:] for l in out.splitlines() if l]


def part_weight_tie(ctx, rec, wb, drv):
    """w_vector and the indices used by solve_simple / solve_auto vs WeightModel"""
    cases = []
    for typ in G.TYPES:
        for n in ((1, 2, 3) if typ in ("UE14", "E12") else (2,)):
            for nu in (0, 1):
                cases.append((typ, n, nu, None))
    if ctx.tier != "quick":
        cases = cases + [(t, n, nu, None) for t in G.TYPES for n in (1, 3) for nu in (0, 2) if (t, n, nu, None) not in cases]
    # column systems with UNEQUAL equation counts (UE14 / E12: extra[p] further single reflects on
    # port p + 1): both orders (first system larger / smaller than the second), random sizes for 3
    # ports, on both consumers (solve_simple: w_offset advanced by each system's own count;
    # solve_auto: one running counter), sigma_tr != 0 so that the weights differ between equations
    for typ in ("UE14", "E12"):
        cases.append((typ, 2, 0, (1, 0)))
        cases.append((typ, 2, 0, (0, ctx.rng.choice([1, 2, 3]))))
        cases.append((typ, 3, 0, tuple(ctx.rng.sample(range(0, 5), 3))))
        cases.append((typ, ctx.rng.choice([2, 3]), 1, tuple(ctx.rng.sample(range(0, 4), 3))))
        if ctx.tier != "quick":
            for k in range(6):
                cases.append((typ, ctx.rng.choice([2, 3]), ctx.rng.choice([0, 0, 1]), tuple(ctx.rng.sample(range(0, 6), 3))))
    snf, strk = 1e-3, 5e-2
    ok_w, ok_i = True, True
    detail_w = detail_i = ""
    bad_case = None
    form = {"restart": None, "offset": None}
    n_unequal = 0
    for ci, (typ, n, nu, extra) in enumerate(cases):
        seed = ctx.rng.getrandbits(48)
        outs = []
        for mode in (0, 1, 2):
            rng = random.Random(seed)
            if extra is None:
                sc = G.build_general(rng, "wt_%s_%d_%d_%d" % (typ, n, nu, mode), typ, n, 1, nu, 0)
            else:
                sc = G.build_unequal_columns(rng, "wtu%d_%s_%d_%d_%s_%d" % (ci, typ, n, nu, "".join(map(str, extra[:n])), mode),
                                             typ, n, list(extra[:n]), n_unknown=nu)
            sc.cmd("merror 1 - %s %s" % (G.fnum(snf), G.fnum(strk)))
            sc.cmd("ettol 1e9")
            sc.cmd("ptol 1e9")
            sc.cmd("wb %d 0 %d" % (mode, 0 if mode == 0 else 1))
            sc.solve()
            rc, out, err = vplib.sh([wb], input=sc.text(), timeout=120, env=G.run_env(ctx))
            if rc != 0:
                sig = vplib.asan_signature(err) or {"kind": "fault", "error": "exit %d" % rc, "function": None}
                rec.add(sig, "white-box run failed (%s): %s" % (sc.sid, err[-300:]), sc, {"stderr": err})
                outs = None
                break
            outs.append((sc, out))
        if not outs:
            ok_w = ok_i = False
            continue
        ctx.count(("weight_tie", typ, n, nu, extra))
        # ---- the vector itself
        sc, out = outs[0]
        _, weights, eqm, _ = G.parse_wb(out)
        if not weights:
            ok_w = False
            detail_w = "%s: no weight dump" % sc.sid
            continue
        w = weights[0]["w"]
        lens = [len(eqm[0][s]) for s in sorted(eqm[0])]
        flat_m = [m for s in sorted(eqm[0]) for m in eqm[0][s]]
        q = model_query(drv, ["weights 0 %d %s" % (len(lens), " ".join(map(str, lens))),
                              "weights 1 %d %s" % (len(lens), " ".join(map(str, lens))),
                              "sindex 1 %d %s" % (len(lens), " ".join(map(str, lens))),
                              "sindex 0 %d %s" % (len(lens), " ".join(map(str, lens))),
                              "aindex %d %s" % (len(lens), " ".join(map(str, lens))),
                              "sindexloop %d %s" % (len(lens), " ".join(map(str, lens))),
                              "sindexclosed %d %s" % (len(lens), " ".join(map(str, lens)))])
        if q is None or len(q) != 7:
            ok_w = ok_i = False
            detail_w = "model driver failed"
            continue
        if extra is not None:
            if len(set(lens)) > 1:
                n_unequal += 1
            else:
                ok_i = False
                detail_i = detail_i or "%s: the scenario was meant to have unequal column systems, equation counts %s" % (sc.sid, lens)

        def expected(ids):
            out_ = []
            for v in ids:
                v = int(v)
                if v == 0:
                    out_.append(0.0)
                else:
                    m = flat_m[v - 1]
                    out_.append(1.0 / math.sqrt(snf * snf + strk * strk * abs(m) ** 2))
            return out_

        def close(a, b):
            return len(a) == len(b) and all(abs(x - y) <= 1e-12 * max(abs(y), 1e-300) + (0 if y else 0) for x, y in zip(a, b))
        running, restarting = expected(q[0]), expected(q[1])
        ctx.traces_validated += 1
        if close(w, running):
            f = False
        elif close(w, restarting):
            f = True
        else:
            f = None
        if f is not False:
            ok_w = False
            if not detail_w:
                detail_w = ("%s: w_vector %s; model (one running index) %s%s" %
                            (sc.sid, w[:8], running[:8], "; equals the model with k restarting in every system" if f else ""))
                bad_case = (sc, "weights", f)
        if len(lens) > 1:
            form["restart"] = f if form["restart"] is None else form["restart"]
        # ---- the indices the consumer uses: rows of the first coefficient matrix of every
        #      system with all-one weights vs with w[i] = i + 2
        def rows(out_):
            _, _, _, mats = G.parse_wb(out_)
            res_ = []
            pend = None
            for tag, m_, n_, vals in mats:
                if tag == "A":
                    pend = (m_, n_, vals)
                    if nu > 0:
                        res_.append(pend)         # solve_auto: qr(A) only
                elif tag == "b" and pend is not None and nu == 0:
                    res_.append(pend)
            return res_
        a1, a2 = rows(outs[1][1]), rows(outs[2][1])
        used = []
        if nu > 0:
            a1, a2 = a1[:1], a2[:1]                 # first pass of the loop: V is still the identity
        else:
            # one solver call per system (ettol 1e9), but mldivide inside solve for d is not used here
            a1, a2 = a1[:len(lens)], a2[:len(lens)]
        for (m1, n1, v1), (m2_, n2, v2) in zip(a1, a2):
            for rix in range(m1):
                row1 = v1[rix * n1:(rix + 1) * n1]
                row2 = v2[rix * n1:(rix + 1) * n1]
                j = max(range(n1), key=lambda c: abs(row1[c]))
                if abs(row1[j]) == 0:
                    used.append(None)
                else:
                    used.append(int(round((row2[j] / row1[j]).real)) - 2)
        # solve_simple: the loop form (w_offset += equations of each system); it equals the offset
        # form (theorem simple_index_loop_eq), both are asked of the extracted model
        want_fixed = [int(x) for x in (q[4] if nu > 0 else q[5])]
        want_old = [int(x) for x in (q[4] if nu > 0 else q[3])]
        want_closed = [int(x) for x in (q[4] if nu > 0 else q[6])]
        if nu == 0 and q[5] != q[2]:
            ok_i = False
            detail_i = detail_i or "%s: extracted simple_index_loop %s differs from simple_index %s" % (sc.sid, q[5][:12], q[2][:12])
        ctx.traces_validated += 1
        if used != want_fixed:
            ok_i = False
            if not detail_i:
                first = next((i for i, (a, b) in enumerate(zip(used, want_fixed)) if a != b), 0)
                detail_i = "%s: equation counts %s: indices read %s, model %s (first difference at equation %d)%s%s" % (
                    sc.sid, lens, used[first:first + 12], want_fixed[first:first + 12], first,
                    "; equals the model without per-system offset" if used == want_old else "",
                    "; equals the model variant w_offset = sindex * equations" if used == want_closed and want_closed != want_fixed else "")
                bad_case = bad_case or (sc, "indices", used == want_old)
        if nu == 0 and len(lens) > 1:
            form["offset"] = (used == want_fixed)
        ctx.sample({"scenario": sc.sid, "systems": lens, "w_vector_head": w[:4], "indices_read_head": used[:6]})
    ctx.extra["weight_vector_form"] = form
    ctx.extra["weight_tie_unequal_systems"] = n_unequal
    if n_unequal < 4 and ok_i:
        ok_i = False
        detail_i = "only %d scenarios with unequal column systems were compared" % n_unequal
    ctx.obligation("tie:w_vector_vs_WeightModel.calc_weights(running index)", ok_w, detail_w)
    ctx.obligation("tie:consumer_indices_vs_WeightModel.simple_index/auto_index", ok_i, detail_i)
    if (not ok_w or not ok_i) and bad_case:
        sc, which, oldform = bad_case
        rec.add({"kind": "refuted", "theorem": "weights_aligned", "form": "old indexing" if oldform else "other"},
                "the weight multiplying an equation is not the one computed from its own measurement (%s): %s"
                % (which, detail_w or detail_i), sc, None)
    return ok_w and ok_i



# ------------------------------------------------------------------------------------------ set_m_error histories

def _gen_merror_call(r, freqs, kind):
    """lib/selfcal_gen.gen_merror_call plus the exits of the current vnacal_new_set_m_error:
       one_fv_out   frequencies == 1 WITH a frequency vector whose single entry is far outside the calibration
                    range: accepted, element 0 everywhere (the vector is not looked at, fix DC94)
       mindx        own grid, ascending, in range, two knots closer than MIN_DX of the spline: rejected
                    ("frequencies are too close together", before anything is written; fixes DI90 / DI93)
       fv_negative  own grid whose first entry is negative: rejected (fix DC92)"""
    def cmd(c):
        fvt = "-" if c["fv"] is None else " ".join(G.fnum(x) for x in c["fv"])
        return "merror %d %s %s %s" % (c["n"], fvt, " ".join(G.fnum(x) for x in c["nf"]),
                                       "-" if c["tr"] is None else " ".join(G.fnum(x) for x in c["tr"]))
    if kind == "one_fv_out":
        c = G.gen_merror_call(r, freqs, "one_tr")
        c["kind"] = kind
        c["fv"] = [freqs[-1] * r.choice([3.0, 0.01])]
        c["cmd"] = cmd(c)
        return c
    if kind in ("mindx", "fv_negative"):
        c = G.gen_merror_call(r, freqs, "own_tr")
        while len(c["fv"]) < 3:
            c = G.gen_merror_call(r, freqs, "own_tr")
        c["kind"] = kind
        gf = list(c["fv"])
        if kind == "mindx":
            i = r.randrange(1, len(gf) - 1)
            gf[i] = gf[i - 1] + r.choice([2e-5, 5e-5, 9e-5])      # ascending, gap below MIN_DX = 1e-4
        else:
            gf[0] = -1.0
        tab = [(gf, ys, vals) for (_, ys, vals) in c["tab"]]          # never evaluated: the call is rejected
        c["fv"], c["tab"] = gf, tab
        c["cmd"] = cmd(c)
        return c
    return G.gen_merror_call(r, freqs, kind)


def part_merror_histories(ctx, rec, exe, drv):
    """vnacal_new_set_m_error as a state machine (coq/SelfCal/C18MErrorModel.v, Section Args): histories of
    1..4 calls on ONE vnacal_new_t -- one point / calibration grid / own grid, with and without
    sigma_tr_vector, NULL / NULL, and calls that must be rejected -- the return value of every call and
    the stored vector after every call against the extracted run_args / returns over exact rationals."""
    rng = ctx.rng
    kinds = G.MERR_VALID + ["one_fv_out", "invalid"]
    hists = []
    # every ordered pair of kinds (the second call sees the vector the first one left), then random
    # histories of 1, 3 and 4 calls
    for a in kinds:
        for b in kinds:
            hists.append([a, b])
    for a in kinds:
        hists.append([a])
    nrand = 40 if ctx.tier == "quick" else 400
    for _ in range(nrand):
        hists.append([rng.choice(kinds) for _ in range(rng.choice([3, 4]))])
    scs, queries = [], []
    for i, hk in enumerate(hists):
        r = random.Random(rng.getrandbits(48))
        typ = r.choice(G.TYPES)
        n = r.choice([1, 2])
        nfq = r.choice([1, 2, 3, 4])
        freqs = G.default_freqs(nfq)
        calls = [_gen_merror_call(r, freqs, k if k != "invalid" else r.choice(G.MERR_INVALID + ["mindx", "fv_negative"]))
                 for k in hk]
        sc = G.merror_history_scenario("mh%d_%s" % (i, "-".join(c["kind"] for c in calls)), typ, n, freqs, calls)
        sc.calls = calls
        scs.append(sc)
        queries.append(G.merror_model_query(freqs, calls, fresh_seed=i))
    res = G.run_batch(ctx, exe, scs)
    rcq, mout, merr_ = vplib.sh([drv], input="\n".join(queries) + "\n", timeout=600)
    mlines = [l for l in mout.splitlines() if l.startswith("merra")]
    ok, detail = True, ""
    if rcq != 0 or len(mlines) != len(scs):
        ctx.obligation("tie:set_m_error_histories_vs_C18MErrorModel.run_args", False, "model driver failed: %s" % merr_[-300:])
        return False
    ncmp = 0
    seen_pairs = set()
    for sc, ml in zip(scs, mlines):
        r = res.get(sc.sid)
        if r is None:
            continue
        if crash_sig(r) is not None:
            check_common(rec, sc, r, "set_m_error history")
            ok = False
            detail = detail or "%s: harness fault" % sc.sid
            continue
        model = G.parse_merra(ml)
        ops = [o for o in r["ops"] if o.get("op") == "merror"]
        mv = r.get("merrorvec", [])
        if len(ops) != len(sc.calls) or len(mv) != len(sc.calls):
            rec.add({"kind": "harness", "where": "merror history"}, "unexpected harness output", sc, r)
            ok = False
            continue
        ctx.count(("merror_history", sc.sid))
        ctx.traces_validated += 1
        ncmp += 1
        spline_state = False        # the stored vector came out of the interpolation (tolerance 1e-8)
        for k, c in enumerate(sc.calls):
            want_ok, want_vec = model[k]
            got_ok = ops[k].get("rc") == "0"
            if k > 0:
                seen_pairs.add((sc.calls[k - 1]["kind"], c["kind"]))
            if want_ok and c["kind"] != "off":
                spline_state = c["spline"]
            elif want_ok:
                spline_state = False
            what = None
            if got_ok != want_ok:
                what = ("call %d (%s) returned %s, the model of the validation says %s"
                        % (k + 1, c["cmd"][:80], "0" if got_ok else "-1", "0" if want_ok else "-1"))
            else:
                got = mv[k]
                if (got is None) != (want_vec is None):
                    what = ("after call %d (%s) the stored vector is %s, model %s"
                            % (k + 1, c["kind"], "absent" if got is None else "present", "absent" if want_vec is None else "present"))
                elif got is not None:
                    for f, ((gn, gt), (wn, wt_)) in enumerate(zip(got, want_vec)):
                        tol = 1e-8 if spline_state else 0.0
                        bad_n = abs(Fraction(gn) - wn) > Fraction(tol) * abs(wn)
                        bad_t = abs(Fraction(gt) - wt_) > Fraction(tol) * max(abs(wt_), abs(wn) * Fraction(1, 10 ** 6))
                        if bad_n or bad_t:
                            what = ("after call %d of the history %s the stored (sigma_nf, sigma_tr) at calibration frequency %d is "
                                    "(%.9g, %.9g); the last accepted call alone stores (%.9g, %.9g)"
                                    % (k + 1, [x["kind"] for x in sc.calls[:k + 1]], f, gn, gt, float(wn), float(wt_)))
                            break
            if what is not None:
                ok = False
                detail = detail or "%s: %s" % (sc.sid, what)
                rec.add({"kind": "refuted", "theorem": "m_error_last_call_wins", "calls": "->".join(x["kind"] for x in sc.calls[:k + 1])},
                        "vnacal_new_set_m_error, history of %d calls on one vnacal_new_t: %s" % (k + 1, what), sc, r)
                break
        if len(ctx.samples) < 6:
            ctx.sample({"scenario": sc.sid, "calls": [c["kind"] for c in sc.calls], "returns": [m[0] for m in model],
                        "stored_after_last": None if model[-1][1] is None else [(float(a), float(b)) for a, b in model[-1][1]][:2]})
    ctx.extra["merror_histories"] = {"histories": len(scs), "compared": ncmp, "ordered_pairs_of_kinds": len(seen_pairs)}
    if ncmp < len(scs) * 9 // 10 and ok:
        ok, detail = False, "only %d of %d histories were compared" % (ncmp, len(scs))
    ctx.obligation("tie:set_m_error_histories_vs_C18MErrorModel.run_args", ok, detail)
    return ok


# ------------------------------------------------------------------------------------------ p-value ties
def _df_from_p(p, x):
    """invert p = exp(-x) sum_{i<k} x^i / i! for k (df = 2 k); None when not unambiguous"""
    term, acc = 1.0, 0.0
    vals = []
    for k in range(1, 400):
        acc += term
        vals.append(math.exp(-x) * acc)
        term *= x / k
        if term < 1e-18 * acc and k > x:
            break
    hits = [k for k, q in enumerate(vals, 1) if abs(q - p) <= 1e-9 * max(p, 1e-300)]
    if len(hits) != 1:
        return None
    k = hits[0]
    for j in (k - 1, k + 1):
        if 1 <= j <= len(vals) and abs(vals[j - 1] - p) <= 1e-6 * max(p, 1e-300):
            return None                    # the neighbours are too close to tell apart
    return 2 * k


def part_pvalue_tie(ctx, rec, wb, drv):
    """_vnacal_new_solve_calc_pvalue against coq/SelfCal/PvalueModel.v / WeightModel.v on noisy data, every
    input dumped by the white-box tap:
      * vnlt_count of every off-diagonal leakage cell vs WeightModel.leak_count of the per-standard
        (measured, connected) flags -- cells with NO sample (every standard connects the two ports), with
        exactly one, with more;
      * the degrees of freedom the library used (from the tapped exp(-chisq/2) and the returned p-value;
        "no call of exp and p = 1" = the df < 1 exit) vs WeightModel.dof_of_standards;
      * the statistic itself (2 * the tapped argument of exp) vs PvalueModel.calc_stat evaluated in exact
        rationals on the dumped factors of every term, the solved x, the stored (sigma_nf, sigma_tr) and the
        samples of every leakage cell (also vnlt_sum / vnlt_sumsq vs leak_of_samples);
      * the returned p-value vs PvalueModel.chisq_pvalue with exp answered by the library's own value;
      * every element of w_vector vs PvalueModel.weight2 of the equation's own measurement (1 / w^2)."""
    rng = ctx.rng
    LEAK = ("TE10", "UE10", "UE14", "E12")
    cases = []
    for typ in G.TYPES:
        cases.append(("general", typ, 2, None))
    cases += [("general", "UE14", 3, None), ("general", "TE10", 3, None), ("general", "T8", 1, None)]
    for typ in LEAK:
        # every standard connects both ports: NO leakage sample in any cell; then exactly one; then several
        cases.append(("pattern", typ, 2, {"nfull": rng.choice([3, 4, 5]), "pairs": (), "nsep": 0}))
        cases.append(("pattern", typ, 2, {"nfull": rng.choice([3, 4]), "pairs": (), "nsep": 1}))
        cases.append(("pattern", typ, 2, {"nfull": 3, "pairs": (), "nsep": rng.choice([2, 3])}))
        # 3 ports: cells with 0, 1 and 2 samples side by side
        cases.append(("pattern", typ, 3, {"nfull": 3, "pairs": ((1, 2),), "nsep": 0}))
        cases.append(("pattern", typ, 3, {"nfull": 3, "pairs": tuple(rng.sample([(1, 2), (2, 3), (1, 3)], 2)), "nsep": 0}))
        cases.append(("unequal", typ, rng.choice([2, 3]), {"extra": tuple(rng.sample(range(0, 4), 3))}))
    if ctx.tier != "quick":
        for _ in range(40):
            typ = rng.choice(LEAK)
            n = rng.choice([2, 3])
            allp = [(a, b) for a in range(1, n + 1) for b in range(a + 1, n + 1)]
            cases.append(("pattern", typ, n, {"nfull": rng.choice([3, 4]), "pairs": tuple(rng.sample(allp, rng.randrange(0, len(allp) + 1))),
                                              "nsep": rng.choice([0, 0, 1, 2])}))
    oks = {"count": True, "df": True, "stat": True, "pval": True, "w": True}
    det = {k: "" for k in oks}
    seen_counts = set()
    ncmp = {"df": 0, "stat": 0, "pval": 0, "w": 0}
    # ---- phase 1: run the scenarios, collect the dumps and the model queries
    items = []
    nbig = 0
    for ci, (fam, typ, n, arg) in enumerate(cases):
        r = random.Random(rng.getrandbits(48))
        snf, strk = 1e-3, 1e-2
        noise = (snf, strk, random.Random(r.getrandbits(48)))
        if fam == "general":
            sc = G.build_general(r, "pv%d_%s_%d" % (ci, typ, n), typ, n, 1, 0, 0, excess=r.choice([2, 5]), noise=noise)
        elif fam == "unequal":
            sc = G.build_unequal_columns(r, "pvu%d_%s_%d_%s" % (ci, typ, n, "".join(map(str, arg["extra"][:n]))), typ, n,
                                         list(arg["extra"][:n]), noise=noise)
        else:
            sc = G.build_leak_pattern(r, "pvl%d_%s_%d_f%d_p%s_s%d" % (ci, typ, n, arg["nfull"], "".join("%d%d" % p for p in arg["pairs"]) or "0",
                                                                       arg["nsep"]), typ, n, arg["nfull"], arg["pairs"], arg["nsep"], noise=noise)
        # a history: an earlier declaration with another tracking term, then the one that counts
        if r.random() < 0.5:
            sc.cmd("merror 1 - %s %s" % (G.fnum(snf * 3), G.fnum(0.2)))
        sc.cmd("merror 1 - %s %s" % (G.fnum(snf), G.fnum(strk)))
        sc.cmd("pvalue 1e-300")
        sc.cmd("itlimit 100")
        sc.cmd("wb 0 0 2")
        sc.solve()
        rc, out, err = vplib.sh([wb], input=sc.text(), timeout=120, env=G.run_env(ctx))
        if rc != 0:
            sig = vplib.asan_signature(err) or {"kind": "fault", "error": "exit %d" % rc, "function": None}
            rec.add(sig, "white-box run failed (%s): %s" % (sc.sid, err[-300:]), sc, {"stderr": err})
            for k in oks:
                oks[k] = False
                det[k] = det[k] or "%s: white-box run failed" % sc.sid
            continue
        calls = G.parse_pvalue_inputs(out)
        _, weights, eqm, _ = G.parse_wb(out)
        if not calls or calls[-1]["p"] is None:
            continue                        # the solve failed before the consistency test (generator's set not determining)
        call = calls[-1]
        ctx.count(("pvalue_tie", fam, typ, n, str(arg)))
        p = call["p"]
        if call["exp"]:
            x = -call["exp"][-1]
            got_df = _df_from_p(p, x)
        else:
            x = None
            got_df = "<1" if p == 1.0 else None
        q = ["dofstd %d %d %s %d %s" % (call["unknowns"], len(call["eqs"]), " ".join(map(str, call["eqs"])), len(call["cells"]),
                                        " ".join("%d %s" % (len(std), " ".join("%d%d" % (g, c) for g, c in std)) for _, _, std in call["cells"]))]
        # the exact-rational evaluation of the statistic is slow in the extracted arithmetic: in the quick
        # tier at most three of the larger systems (all of them in the thorough tier)
        big = sum(call["eqs"]) > 24
        do_stat = ctx.tier != "quick" or not big or nbig < 3
        if do_stat:
            nbig += 1 if big else 0
            q.append(G.pvstat_query(call))
        do_p = bool(x is not None and call["expval"] and isinstance(got_df, int) and got_df >= 2)
        if do_p:
            q.append("chisqp %d %s %s" % (got_df, G.qstr(2.0 * x), G.qstr(call["expval"][-1])))
        sel, flat_m, w = [], [], []
        if weights and eqm and call["noise"]:
            w = weights[-1]["w"]
            flat_m = [m for s_ in sorted(eqm[-1]) for m in eqm[-1][s_]]
            if len(flat_m) == len(w):
                sel = list(range(len(w)))
                if len(sel) > 12:
                    sel = r.sample(sel, 12)
                q += ["weight2 %s %s %s %s" % (G.qstr(call["noise"][0]), G.qstr(call["noise"][1]),
                                               G.qstr(flat_m[i].real), G.qstr(flat_m[i].imag)) for i in sel]
        items.append({"sc": sc, "call": call, "x": x, "got_df": got_df, "q": q, "do_stat": do_stat, "do_p": do_p,
                      "sel": sel, "flat_m": flat_m, "w": w})
    # ---- phase 2: the extracted model, a few processes side by side
    from concurrent.futures import ThreadPoolExecutor
    with ThreadPoolExecutor(max_workers=4) as pool:
        answers = list(pool.map(lambda it: model_query(drv, it["q"]), items))
    # ---- phase 3: compare
    late_p = []
    for it, ml in zip(items, answers):
        sc, call, x, got_df = it["sc"], it["call"], it["x"], it["got_df"]
        p = call["p"]
        if ml is None or len(ml) != len(it["q"]):
            for k in oks:
                oks[k] = False
                det[k] = det[k] or "%s: model driver failed" % sc.sid
            continue
        ml = list(ml)
        dofl = ml.pop(0)
        want_df = int(dofl[0])
        want_counts = [int(v) for v in dofl[1:]]
        got_counts = [cnt for _, cnt, _ in call["cells"]]
        seen_counts.update(got_counts)
        ctx.traces_validated += 1
        if got_counts != want_counts:
            oks["count"] = False
            if not det["count"]:
                det["count"] = "%s: vnlt_count per cell %s, model leak_count %s" % (sc.sid, got_counts, want_counts)
                rec.add({"kind": "disagreement", "op": "_vnacal_new_solve_start_frequency", "class": "leakage sample count"},
                        "leakage samples: " + det["count"], sc, None)
        # ---- df the library used
        want_df_s = "<1" if want_df < 1 else want_df
        if got_df is not None:
            ncmp["df"] += 1
            ctx.sample({"scenario": sc.sid, "equations": call["eqs"], "unknowns": call["unknowns"], "leak_counts": got_counts,
                        "df_library": got_df, "df_model": want_df, "pvalue": p})
            if got_df != want_df_s:
                oks["df"] = False
                if not det["df"]:
                    det["df"] = ("%s: equation counts %s, %d unknowns per system, leakage sample counts %s: the library judged the "
                                 "statistic against %s degrees of freedom (p = %g%s), the model has %d"
                                 % (sc.sid, call["eqs"], call["unknowns"], got_counts, got_df, p,
                                    "" if x is None else ", chisq = %g" % (2 * x), want_df))
                    rec.add({"kind": "disagreement", "op": "_vnacal_new_solve_calc_pvalue", "class": "degrees of freedom"},
                            "degrees of freedom of the consistency test: " + det["df"], sc, None)
        # ---- the statistic, exact rationals
        if it["do_stat"]:
            st = ml.pop(0)
            m_chisq, m_df = G.qparse(st[0]), int(st[1])
            if m_df != want_df:
                oks["stat"] = False
                det["stat"] = det["stat"] or "%s: calc_stat df %d differs from dof_of_standards %d" % (sc.sid, m_df, want_df)
            lk = st[2:]
            for ci_, (cell, cnt, sm, ssq, _) in enumerate(call["leak"]):
                mc, mre, mim, msq = int(lk[4 * ci_]), float(G.qparse(lk[4 * ci_ + 1])), float(G.qparse(lk[4 * ci_ + 2])), float(G.qparse(lk[4 * ci_ + 3]))
                scale = max(abs(complex(*sm)), math.sqrt(abs(ssq)), 1e-300)
                if mc != cnt or abs(complex(mre, mim) - complex(*sm)) > 1e-12 * scale or abs(msq - ssq) > 1e-12 * max(ssq, 1e-300):
                    oks["stat"] = False
                    if not det["stat"]:
                        det["stat"] = ("%s: leakage cell %s: library (count %d, sum %s, sumsq %.17g), leak_of_samples (%d, %s, %.17g)"
                                       % (sc.sid, cell, cnt, sm, ssq, mc, (mre, mim), msq))
                        rec.add({"kind": "disagreement", "op": "_vnacal_new_solve_start_frequency", "class": "leakage sums"}, det["stat"], sc, None)
            if x is not None:
                lib_chisq = 2.0 * x
                ncmp["stat"] += 1
                if abs(float(m_chisq) - lib_chisq) > 1e-7 * max(lib_chisq, 1e-12):
                    oks["stat"] = False
                    if not det["stat"]:
                        det["stat"] = ("%s: chi-square statistic of the library %.12g, PvalueModel.calc_stat on the same terms, x and "
                                       "noise model %.12g" % (sc.sid, lib_chisq, float(m_chisq)))
                        rec.add({"kind": "disagreement", "op": "_vnacal_new_solve_calc_pvalue", "class": "statistic"}, det["stat"], sc, None)
        # ---- chisq_pvalue with the library's own exp value, at the df the library used (when no df
        #      reproduces the returned p-value: at the model's df, second batch below)
        if not it["do_p"] and x is not None and call["expval"] and want_df >= 2:
            late_p.append((it, want_df))
        if it["do_p"]:
            pm = float(G.qparse(ml.pop(0)[0]))
            ncmp["pval"] += 1
            if abs(pm - p) > 1e-11 * max(p, 1e-300):
                oks["pval"] = False
                if not det["pval"]:
                    det["pval"] = "%s: chisq_pvalue(%d, %.17g) = %.17g, model recurrence %.17g" % (sc.sid, got_df, 2.0 * x, p, pm)
                    rec.add({"kind": "disagreement", "op": "chisq_pvalue", "class": "recurrence"}, det["pval"], sc, None)
        # ---- the weights: 1 / w^2 = weight2 of the equation's own measurement, stored noise model
        if it["sel"]:
            ncmp["w"] += 1
            w, flat_m = it["w"], it["flat_m"]
            for i, row in zip(it["sel"], ml):
                w2 = float(G.qparse(row[0]))
                if w[i] == 0 or abs(1.0 / (w[i] * w[i]) - w2) > 1e-13 * w2:
                    oks["w"] = False
                    if not det["w"]:
                        det["w"] = ("%s: w_vector[%d] = %.17g (1 / w^2 = %.17g); sigma_nf^2 + sigma_tr^2 |m|^2 with the stored "
                                    "(%.9g, %.9g) and m = %s is %.17g" % (sc.sid, i, w[i], 1.0 / (w[i] * w[i]) if w[i] else float("inf"),
                                                                        call["noise"][0], call["noise"][1], flat_m[i], w2))
                        rec.add({"kind": "disagreement", "op": "_vnacal_new_solve_calc_weights", "class": "weight formula"}, det["w"], sc, None)
                    break
    if late_p:
        lp = model_query(drv, ["chisqp %d %s %s" % (wdf, G.qstr(2.0 * it["x"]), G.qstr(it["call"]["expval"][-1])) for it, wdf in late_p])
        for (it, wdf), row in zip(late_p, lp or []):
            pm, p = float(G.qparse(row[0])), it["call"]["p"]
            ncmp["pval"] += 1
            if abs(pm - p) > 1e-11 * max(p, 1e-300):
                oks["pval"] = False
                if not det["pval"]:
                    det["pval"] = ("%s: the library returned p = %.17g for chisq = %.17g (no even number of degrees of freedom reproduces it); "
                                   "the model has %d degrees of freedom and chisq_pvalue gives %.17g" % (it["sc"].sid, p, 2.0 * it["x"], wdf, pm))
                    rec.add({"kind": "disagreement", "op": "chisq_pvalue", "class": "recurrence"}, det["pval"], it["sc"], None)
    ctx.extra["pvalue_tie"] = dict(ncmp, leak_counts_seen=sorted(seen_counts))
    need = {0, 1}
    if not (need <= seen_counts and any(c > 1 for c in seen_counts)):
        for k in ("count", "df"):
            if oks[k]:
                oks[k] = False
                det[k] = "the scenarios did not produce leakage cells with 0, 1 and more samples: %s" % sorted(seen_counts)
    for k, lim in (("df", 20), ("stat", 20), ("pval", 15), ("w", 20)):
        if oks[k] and ncmp[k] < lim:
            oks[k] = False
            det[k] = "only %d comparisons" % ncmp[k]
    ctx.obligation("tie:leakage_sample_counts_vs_WeightModel.leak_count", oks["count"], det["count"])
    ctx.obligation("tie:degrees_of_freedom_vs_WeightModel.dof", oks["df"], det["df"])
    ctx.obligation("tie:chi_square_statistic_vs_PvalueModel.calc_stat", oks["stat"], det["stat"])
    ctx.obligation("tie:chisq_pvalue_vs_PvalueModel.chisq_pvalue", oks["pval"], det["pval"])
    ctx.obligation("tie:weight_formula_vs_PvalueModel.weight2", oks["w"], det["w"])
    return all(oks.values())

# ------------------------------------------------------------------------------------------ V matrices walk
def part_vguard(ctx, rec, wb, drv, nextra):
    """ties init_vvec / save_v_matrices / restore_v_matrices of coq/SelfCal/GuardModel.v to
    _vnacal_new_solve_init and the two static walks of vnacal_new_solve_auto.c"""
    rng = ctx.rng
    scs = []
    for k, typ in enumerate(["T8", "U8", "E12"]):
        scs.append(G.build_correlated_exact(rng, "vg_none_%s" % typ, typ=typ))          # no vector at all
    for typ in ("UE14", "E12"):
        for n in (2, 3):
            scs.append(G.build_unequal_systems(rng, "vg_uneq_%s_%d" % (typ, n), typ, n))  # vector with absent matrices
            # a system with exactly as many equations as unknowns beside an over-determined one
            scs.append(G.build_unequal_systems(rng, "vg_equal_%s_%d" % (typ, n), typ, n, k_first=2 * n + 4, k_other=2 * n - 1))
    scs.append(G.build_unequal_systems(rng, "vg_uneq_nomerr", "UE14", 2, merror=None))  # over-determined, model off
    for k in range(nextra):
        typ = rng.choice(G.TYPES)
        n = rng.choice([1, 2]) if typ in ("T16", "U16") else rng.choice([1, 2, 3])
        sc = G.build_general(rng, "vg_gen_%d" % k, typ, n, 1, rng.choice([0, 1, 2]), 0, excess=rng.choice([0, 1, 4]))
        sc.cmd("merror 1 - 1e-3 1e-2")
        scs.append(sc)
    oks = {"shape": True, "save": True, "restore": True}
    details = {"shape": "", "save": "", "restore": ""}
    tot = {"null_vectors": 0, "null_matrices": 0, "present_matrices": 0}
    for sc in scs:
        g = G.guard_compare(ctx, wb, drv, sc)
        ctx.count(("vguard", sc.sid))
        if g["crash"] is not None:
            cs = g["crash"]
            rec.add({"kind": cs.get("kind", "fault"), "error": cs.get("error"), "function": cs.get("function")},
                    "sanitizer fault in %s while saving / restoring the V matrices of %s: %s" % (cs.get("function"), sc.sid, cs.get("error")),
                    sc, {"stderr": g["stderr"]})
            for k in oks:
                oks[k] = False
                details[k] = details[k] or "%s: fault in %s" % (sc.sid, cs.get("function"))
            continue
        ctx.traces_validated += 1
        for k in tot:
            tot[k] += g["stats"].get(k, 0)
        for k, op in (("shape", "_vnacal_new_solve_init"), ("save", "save_v_matrices"), ("restore", "restore_v_matrices")):
            okk, det = g[k]
            if not okk:
                if oks[k]:
                    rec.add({"kind": "disagreement", "op": op, "class": "V matrices walk"},
                            "%s and its checked-memory model disagree: %s" % (op, det), sc, None)
                oks[k] = False
                details[k] = details[k] or det
    ctx.extra["v_matrices_walk"] = dict(tot, scenarios=len(scs))
    if min(tot.values()) == 0:
        for k in oks:
            oks[k] = False
            details[k] = details[k] or "the scenarios did not exercise absent vectors, absent matrices and present matrices: %s" % tot
    ctx.obligation("tie:v_matrix_allocation_vs_GuardModel.init_vvec", oks["shape"], details["shape"])
    ctx.obligation("tie:save_v_matrices_vs_GuardModel", oks["save"], details["save"])
    ctx.obligation("tie:restore_v_matrices_vs_GuardModel", oks["restore"], details["restore"])
    return all(oks.values())


def part_exactly_determined(ctx, rec, exe):
    """exactly_determined_never_rejected, tied: as many equations as unknowns in every system, the
    model on, the strictest admissible limit (1.0): the solve succeeds with p-value 1"""
    ok, detail = True, ""
    ncases = 0
    for typ in G.TYPES:
        for n in ((1,) if typ in ("T16", "U16") else (1, 2)):
            rng = random.Random(ctx.rng.getrandbits(48))
            sc = G.build_general(rng, "exdet_%s_%d" % (typ, n), typ, n, 1, 0, 0, excess=0)
            sc.cmd("merror 1 - 1e-3 1e-2")
            sc.cmd("pvalue 1.0")
            sc.solve()
            r = G.run_one(ctx, exe, sc)
            s = check_common(rec, sc, r, "exactly determined, m_error on, %s %dx%d" % (typ, n, n))
            if s is None:
                continue
            eqs, unk, nsys = int(s["eqs"]), int(s["xlen"]), int(s["sys"])
            if eqs != unk or int(s["maxeq"]) * nsys != eqs:
                continue            # the generator produced an over-determined system: not this clause
            ctx.count(("exactly_determined", typ, n))
            ctx.traces_validated += 1
            ncases += 1
            if s["rc"] != 0 or s["pvalues"][0] != 1.0:
                ok = False
                detail = detail or "%s: rc=%s msg=%s p-value %s (%d equations, %d unknowns)" % (sc.sid, s["rc"], s.get("msg"), s["pvalues"], eqs, unk)
                rec.add({"kind": "exact_data_rejected", "type": typ, "why": "exactly determined"},
                        "exactly determined %s %dx%d calibration with measurement-error modelling on: rc=%s (%s), p-value %s; "
                        "without degrees of freedom there is nothing to reject" % (typ, n, n, s["rc"], s.get("msg"), s["pvalues"]), sc, r)
    ctx.extra["exactly_determined_cases"] = ncases
    if ncases == 0:
        ok, detail = False, "no exactly determined scenario was generated"
    ctx.obligation("tie:exactly_determined_pvalue_is_1", ok, detail)
    return ok


# ------------------------------------------------------------------------------------------ directed
def part_directed(ctx, rec, exe):
    rng = ctx.rng
    guard = None
    for k in range(3):
        sc = G.build_correlated_exact(rng, "d38_%d" % k, typ=["T8", "U8", "E12"][k])
        sc.solve()
        r = G.run_one(ctx, exe, sc)
        ctx.count(("directed", sc.sid))
        c = r.get("crash")
        faulted = bool(c and c.get("function") in ("save_v_matrices", "restore_v_matrices"))
        guard = (not faulted) if guard is None else (guard and not faulted)
        check_common(rec, sc, r, "correlated unknown, no over-determined system, m_error on")
    # an inconsistent standard at the LAST frequency only: the solve must fail (-1, EDOM)
    for typ in ("E12", "UE14", "T8", "U16"):
        for n in ((2, 3) if typ in ("E12", "UE14") else (2,)):
            r2 = random.Random(rng.getrandbits(48))
            snf, strk = 1e-3, 1e-2
            sc = G.build_general(r2, "late_%s_%d" % (typ, n), typ, n, 3, 0, 0, excess=5,
                                 outlier=(1, 100.0, snf, strk, (2,)))
            sc.cmd("merror 1 - %s %s" % (G.fnum(snf), G.fnum(strk)))
            sc.solve()
            r = G.run_one(ctx, exe, sc)
            ctx.count(("late_outlier", typ, n))
            s = check_common(rec, sc, r, "outlier standard at the last frequency, %s %dx%d" % (typ, n, n))
            if s is not None and s["rc"] == 0:
                rec.add({"kind": "outlier_accepted", "type": typ, "where": "last frequency"},
                        "%s %dx%d: a standard off by 100 sigma at the last of three frequencies: vnacal_new_solve returned 0 "
                        "(callbacks %d, p-values %s)" % (typ, n, n, s["cb"], s["pvalues"]), sc, r)
    ctx.extra["save_v_matrices_no_fault_on_absent_vectors"] = guard
    ctx.obligation("tie:save_v_matrices_directed_scenarios_ran", guard is not None, "")
    # multi-system type with m_error: uninitialised terms of later systems (valgrind, plain build)
    if shutil.which("valgrind"):
        fast = ctx.build_harness("selfcal_harness", san=False)
        for typ, n in (("E12", 2), ("UE14", 3)):
            sc = G.build_general(rng, "uninit_%s" % typ, typ, n, 1, 0, 0)
            sc.cmd("merror 1 - 1e-3 1e-2")
            sc.solve()
            rc, out, err = vplib.sh(["valgrind", "-q", "--error-exitcode=9", fast], input=sc.text(), timeout=300)
            ctx.count(("valgrind", typ))
            if rc == 9 or "uninitialised" in err:
                fn = None
                for line in err.splitlines():
                    if " at 0x" in line or " by 0x" in line:
                        if "vnacal" in line:
                            fn = line.split(":")[-1].split("(")[0].strip()
                            break
                rec.add({"kind": "fault", "error": "uninitialised", "function": fn},
                        "valgrind: use of uninitialised value in %s (%s %dx%d with m_error)" % (fn, typ, n, n), sc, {"stderr": err})
            elif rc != 0:
                ctx.notes.append("valgrind run failed rc=%d: %s" % (rc, err[-200:]))
    else:
        ctx.notes.append("valgrind not available: uninitialised-read scenario skipped")


# ------------------------------------------------------------------------------------------ (c) statistics
def part_statistics(ctx, rec, exe):
    alpha = 0.05
    ntr = 600
    nout = 100
    summary = {}
    for typ in G.TYPES:
        n = 2
        rej = solved = other = 0
        orej = otot = 0
        scs = []
        for k in range(ntr + nout):
            rng = random.Random(ctx.seed * 100003 + hash(typ) % 1000 * 1009 + k)
            rng = random.Random("%d/%s/%d" % (ctx.seed, typ, k))
            snf = rng.choice([1e-4, 1e-3])
            strk = rng.choice([0.0, 1e-3, 3e-2])              # includes tracking-dominated noise
            nrng = random.Random("%d/%s/%d/noise" % (ctx.seed, typ, k))
            outlier = None
            if k >= ntr:
                outlier = (rng.randrange(0, 5), 100.0, snf, strk)
            sc = G.build_general(rng, "st_%s_%d" % (typ, k), typ, n, 1, 0, 0, excess=6,
                                 noise=(snf, strk, nrng), outlier=outlier)
            sc.meta.update({"outlier": outlier is not None})
            sc.cmd("merror 1 - %s %s" % (G.fnum(snf), G.fnum(strk)))
            sc.cmd("pvalue %s" % G.fnum(alpha))
            sc.cmd("itlimit 100")
            sc.solve()
            scs.append(sc)
        res = G.run_batch(ctx, exe, scs)
        for sc in scs:
            r = res.get(sc.sid)
            if r is None:
                continue
            cs = crash_sig(r)
            if cs is not None:
                check_common(rec, sc, r, "noisy data " + typ)
                continue
            s = r["solve"][0] if r["solve"] else None
            if s is None:
                continue
            ctx.count(("stat", sc.sid))
            rejected = s["rc"] != 0 and "inconsistent" in s.get("msg", "")
            if sc.meta["outlier"]:
                otot += 1
                if s["rc"] != 0 and s["errno"] == "EDOM":
                    orej += 1
            else:
                if s["rc"] == 0:
                    solved += 1
                elif rejected:
                    rej += 1
                else:
                    other += 1
        tot = rej + solved
        rate = rej / float(tot) if tot else float("nan")
        orate = orej / float(otot) if otot else float("nan")
        summary[typ] = {"trials": tot, "rejected": rej, "rate": rate, "other_failures": other,
                        "outlier_trials": otot, "outlier_rejected": orej}
        ok_rate = tot >= 50 and alpha / 6.0 <= rate <= 4.0 * alpha
        ctx.obligation("support:rejection_rate_%s in [%.3f, %.3f]" % (typ, alpha / 6.0, 4 * alpha), ok_rate, "rate %.3f of %d" % (rate, tot))
        if not ok_rate:
            rec.add({"kind": "rejection_rate", "type": typ},
                    "%s: %d of %d calibrations with Gaussian noise of exactly the declared size were rejected at significance %.2f (rate %.3f)"
                    % (typ, rej, tot, alpha, rate), None, None, extra=summary[typ])
        ok_out = otot >= 20 and orate >= 0.9
        ctx.obligation("support:outlier_rejection_%s >= 0.9" % typ, ok_out, "rate %.3f of %d" % (orate, otot))
        if not ok_out:
            rec.add({"kind": "outlier_not_rejected", "type": typ},
                    "%s: only %d of %d calibrations containing a standard that is off by 100 sigma were rejected"
                    % (typ, orej, otot), None, None, extra=summary[typ])
    ctx.extra["statistics"] = summary



# ------------------------------------------------------------------------------------------ V-matrix machinery (package G)
import c18_gen as VG


def _vq(drv, lines):
    rc, out, err = vplib.sh([drv], input="\n".join(lines) + "\n", timeout=300)
    if rc != 0:
        raise RuntimeError("drv_vmatrix failed: %s" % err[-300:])
    return [l for l in out.splitlines() if l]


def _vmat_replay(ctx, rec, drv, sc, recs, r, stats, light=False):
    """Replay one solve of the white-box build against VMatrixModel, frequency by frequency.
    Returns a list of (obligation name, detail) failures."""
    fails = []
    tcode = VG.TYPE_CODE[sc.typ]
    for fr in recs:
        where = "%s f%d" % (sc.sid, fr["findex"])
        P = VG.prob_text(fr, tcode)
        nstd = fr["nstd"]
        vinit_c = [fr["vinit"].get(i) for i in range(nstd)]
        lines = ["vinit " + P, "vweights %s %s" % (VG.rsqrt_table(fr), P)]
        out = _vq(drv, lines)
        if len(out) != 2 or not out[0].startswith("vinit ") or not out[1].startswith("vweights"):
            fails.append(("tie:v_init_vs_VMatrixModel.init_v_matrices", "%s: driver answered %r" % (where, out[:2])))
            continue
        st = VG.parse_state(out[0].split()[1:])
        sel = random.Random(hash((sc.sid, fr["findex"])) & 0xffffffff)
        # (1) the V matrices at the start of EVERY frequency: allocation decision + identity
        okv, worst = VG.state_close(vinit_c, st, 0.0)
        stats["vinit"] += 1
        if not okv:
            fails.append(("tie:v_init_vs_VMatrixModel.init_v_matrices",
                          "%s: the V matrices at the start of frequency %d are not the identity matrices the model "
                          "holds (init_v_matrices is called by start_frequency at every frequency); worst cell "
                          "difference %.3g" % (where, fr["findex"], worst)))
        # (2) the weight vector: 1/sqrt(nf^2 + tr^2 |m[vne_row * m_columns + vne_column]|^2), systems in order
        wt = out[1].split()
        if fr["w"] is None or wt[1] == "-":
            fails.append(("tie:w_vector_vs_VMatrixModel.calc_weights", "%s: no weight vector" % where))
        else:
            wm = [Fraction(x) for x in wt[2:]]
            stats["weights"] += len(wm)
            if len(wm) != len(fr["w"]):
                fails.append(("tie:w_vector_vs_VMatrixModel.calc_weights", "%s: %d weights, model %d" % (where, len(fr["w"]), len(wm))))
            else:
                for k, (a, b) in enumerate(zip(fr["w"], wm)):
                    if abs(float(a) - float(b)) > 1e-12 * abs(float(b)):
                        fails.append(("tie:w_vector_vs_VMatrixModel.calc_weights",
                                      "%s: w_vector[%d] = %.17g, the model (own cell vne_row * m_columns + vne_column of a "
                                      "%dx%d calibration) %.17g" % (where, k, float(a), fr["rows"], fr["cols"], float(b))))
                        break
                if len(set(fr["w"])) > 1:
                    stats["weights_distinct"] += 1
        # (3) the no-V thread of every equation = the terms with v_cell % (v_columns + 1) == 0
        vn = fr["cols"] if tcode in (0, 2) else fr["rows"]
        for s in range(fr["nsys"]):
            for (std, row, col, terms), nov in zip(fr["eqs"].get(s, []), fr["nov"].get(s, [])):
                exp = [(t[3], t[4], t[1], t[2]) for t in terms if t[3] % (vn + 1) == 0]
                if exp != nov or any(t[3] < 0 for t in terms):
                    fails.append(("tie:no_v_thread_vs_VMatrixModel.eq_terms", "%s: system %d equation (%d,%d) of standard %d: "
                                  "thread %r, model %r" % (where, s, row, col, std, nov, exp)))
        # (3b) T8 / TE10 / U8 / UE10: the term list of every equation vs build_terms_t8 / build_terms_u8
        if tcode in (0, 1):
            ql, refs = [], []
            for s in range(fr["nsys"]):
                for (std, row, col, terms) in fr["eqs"].get(s, []):
                    cn, sz = fr["conn"].get(std), fr["szero"].get(std)
                    if cn is None or sz is None:
                        continue
                    ql.append("vterms %d %d %d %d %d %d %s %s" % (tcode, fr["rows"], fr["cols"], row, col, len(cn),
                                                                " ".join(map(str, cn)), " ".join(map(str, sz))))
                    refs.append((std, row, col, terms))
            if fr["findex"] == 0 and ql:
                for line, (std, row, col, terms) in zip(_vq(drv, ql), refs):
                    tk = [int(x) for x in line.split()[2:]]
                    mt = [tuple(tk[5 * j2:5 * j2 + 5]) for j2 in range(len(tk) // 5)]
                    stats["termlists"] += 1
                    if mt != list(terms):
                        fails.append(("tie:term_lists_vs_VMatrixModel.build_terms", "%s: standard %d equation (%d,%d): library %r, "
                                      "model %r" % (where, std, row, col, terms, mt)))
                        break
        if light:
            continue
        # (4) passes: rows with the model's V state and the code's weights; V update from the code's x
        ev = fr["events"]
        i = 0
        woff = 0
        wtxt = "-" if fr["w"] is None else "%d %s" % (len(fr["w"]), " ".join(VG.qs(x) for x in fr["w"]))
        u = fr["unknowns"]
        sys_done = 0
        for s in range(fr["nsys"]):
            neq = len(fr["eqs"].get(s, []))
            prev = fr["xinit"][s * u:(s + 1) * u]
            npass = 0
            while True:
                if i >= len(ev) or ev[i]["kind"] != "solve":
                    break
                e = ev[i]
                i += 1
                npass += 1
                pick = sorted(sel.sample(range(neq), min(neq, 3)))
                wsub = "-" if fr["w"] is None else "%d %s" % (len(pick), " ".join(VG.qs(fr["w"][woff + j]) for j in pick))
                q = ["vrows %s %s %d %s 0" % (VG.prob_text(fr, tcode, only={s: pick}), VG.state_text(st), s, wsub),
                     "vhave %s %s %d" % (P, VG.state_text(st), s)]
                o = _vq(drv, q)
                rt = o[0].split()
                vals = [Fraction(x) for x in rt[3:]]
                nr, nu = int(rt[1]), int(rt[2])
                stats["passes"] += 1
                stats["rows"] += nr
                bad = None
                if neq != e["m"] or nu != e["n"] or "A" not in e or nr != len(pick):
                    bad = "shape %dx%d, model %dx%d" % (e["m"], e["n"], neq, nu)
                else:
                    for k2, rr in enumerate(pick):
                        base = k2 * (2 * nu + 2)
                        rowm = [(vals[base + 2 * j], vals[base + 2 * j + 1]) for j in range(nu)]
                        bm = (vals[base + 2 * nu], vals[base + 2 * nu + 1])
                        rowc = e["A"][rr * nu:(rr + 1) * nu]
                        bc = e["b"][rr]
                        scale = max([VG.cabs(z) for z in rowm] + [VG.cabs(bm), 1e-300])
                        d = max([VG.cdiff(a, b) for a, b in zip(rowc, rowm)] + [VG.cdiff(bc, bm)])
                        if d > 1e-8 * scale:
                            bad = "row %d differs by %.3g (scale %.3g)" % (rr, d, scale)
                            break
                if bad:
                    fails.append(("tie:coefficient_rows_vs_VMatrixModel.build_eqs",
                                  "%s: system %d pass %d: %s" % (where, s, npass, bad)))
                have = o[1].split()[1] == "1"
                x = e.get("x")
                nxt = ev[i] if i < len(ev) else None
                has_upd = nxt is not None and nxt["kind"] == "upd"
                solved_ok = ("rank=%d" % u) == e.get("tail") or (e.get("tail", "").startswith("det=") and e["tail"] != "det=0,0")
                if not solved_ok:
                    break
                if have != has_upd:
                    fails.append(("tie:v_loop_vs_VMatrixModel.v_loop", "%s: system %d pass %d: the code %s the V matrices, "
                                  "the model's vs_have_v is %s" % (where, s, npass, "updated" if has_upd else "did not update", have)))
                    break
                if not has_upd:
                    break
                i += 1
                xtxt = " ".join(VG.cx(z) for z in x)
                vis = VG.parse_vvi(_vq(drv, ["vvi %s %d %d %s" % (P, s, u, xtxt)])[0])
                tab = []
                for vi in vis:
                    inv = VG.cinverse(vi, vn)
                    tab.append("%d %s %s" % (len(vi), " ".join(VG.cx(z) for z in vi),
                                             "0" if inv is None else "1 " + " ".join(VG.cx(z) for z in inv)))
                uo = _vq(drv, ["vupdt %s %s %d %d %s %d %s" % (P, VG.state_text(st), s, u, xtxt, len(tab), " ".join(tab))])
                if nxt["rc"] != 0 or uo[0].startswith("vupd singular"):
                    if (nxt["rc"] != 0) != uo[0].startswith("vupd singular"):
                        fails.append(("tie:v_update_vs_VMatrixModel.update_v_matrices",
                                      "%s: system %d pass %d: rc %d, model %s" % (where, s, npass, nxt["rc"], uo[0][:20])))
                    break
                st2 = VG.parse_state(uo[0].split()[1:])
                vc = [nxt["state"].get(k) for k in range(nstd)]
                okv, worst = VG.state_close(vc, st2, 1e-8)
                stats["updates"] += 1
                if not okv:
                    fails.append(("tie:v_update_vs_VMatrixModel.update_v_matrices",
                                  "%s: system %d pass %d: V matrices after the update differ from (Tx S + Tm)^-1 / (Um - S Ux)^-1 "
                                  "of the model by %.3g" % (where, s, npass, worst)))
                st = VG.round_state(st2)
                co = _vq(drv, ["vconv %s %d %d %s %s" % (VG.qs(fr["tol"]), u, u, " ".join(VG.cx(z) for z in x),
                                                              " ".join(VG.cx(z) for z in prev))])
                conv = co[0].split()[1] == "1"
                more = i < len(ev) and ev[i]["kind"] == "solve"
                if conv:
                    break
                if npass >= max(1, fr["limit"]):
                    break
                # the model's test fails and passes remain: the code must solve THIS system again
                again = i < len(ev) and ev[i]["kind"] == "solve" and not (
                    i + 1 < len(ev) and ev[i + 1]["kind"] == "upd" and ev[i + 1]["sindex"] != s)
                if not again and r["solve"] and r["solve"][-1]["rc"] == 0:
                    fails.append(("tie:v_loop_vs_VMatrixModel.v_loop",
                                  "%s: system %d: the code left the loop over V after pass %d although sum |dx|^2 / unknowns > "
                                  "et_tolerance^2 on its own x (the model continues; limit %d)" % (where, s, npass, fr["limit"])))
                    break
                prev = x
            woff += neq
            sys_done += 1
        if i != len(ev) and r["solve"] and r["solve"][-1]["rc"] == 0:
            fails.append(("tie:v_loop_vs_VMatrixModel.v_loop", "%s: the code made %d solver / update calls, the replay of the "
                          "model's loop (convergence test on the code's x) accounts for %d" % (where, len(ev), i)))
    return fails


def part_vmatrix(ctx, rec, exe=None):
    """White-box replay of _vnacal_new_solve_simple with the model on against VMatrixModel: V matrices at the
    start of every frequency, weight vector, no-V threads, coefficient rows of every pass, V update, loop."""
    wbv = VG.build_wbv(ctx)
    drv = ctx.ocaml_driver("drv_vmatrix")
    rng = random.Random(ctx.rng.getrandbits(48))
    cases = []
    k = 0
    sq = [("T8", 2), ("U8", 2), ("TE10", 2), ("UE10", 2), ("UE14", 2), ("E12", 2), ("T16", 2), ("U16", 2), ("T8", 1), ("U8", 1)]
    rect = [("T8", 1, 2), ("T8", 2, 3), ("TE10", 2, 3), ("U8", 2, 1), ("U8", 3, 2), ("UE10", 3, 2), ("UE14", 2, 1), ("UE14", 3, 2),
            ("E12", 3, 2), ("T16", 1, 2), ("U16", 2, 1)]
    exact_every = 1
    if ctx.tier == "quick":
        # rotation over the seeds: every family (square of every type, rectangular T and U shapes, noisy and
        # exact data, 2..3 frequencies) is visited as the seed varies; each run takes a slice
        o = rng.randrange(len(sq))
        sq = [sq[(o + 2 * i) % len(sq)] for i in range(5)]
        o = rng.randrange(len(rect))
        rect = [rect[(o + 3 * i) % len(rect)] for i in range(4)]
        exact_every = 2
    for idx, (typ, n) in enumerate(sq):
        for noisy in ((True, False) if idx % exact_every == 0 else (True,)):
            k += 1
            cases.append(VG.scen_square(rng, "vm%d_%s_%d" % (k, typ, n), typ, n, rng.choice([2, 3]),
                                        rng.choice([1e-4, 1e-3]), rng.choice([1e-3, 1e-2, 5e-2]), noisy))
    for typ, mr, mc in rect:
        k += 1
        cases.append(VG.scen_rect(rng, "vr%d_%s_%dx%d" % (k, typ, mr, mc), typ, mr, mc, 2,
                                  rng.choice([1e-4, 1e-3]), rng.choice([1e-2, 5e-2, 1e-1]), True))
    # column systems that are NOT equally determined (UE14 / E12, 2 and 3 columns), both orientations, exact and
    # noisy: vnss_include_v, the V allocation and the rows are per system, so the replay compares them per system
    ta, tb = rng.sample(["UE14", "E12"], 2)
    o3 = rng.choice([(3, 4, 4), (4, 3, 4), (4, 4, 3), (4, 3, 3), (3, 3, 4), (3, 4, 3)])
    uneq = [(ta, 2, (4, 3), True), (ta, 2, (3, 4), False), (tb, 3, o3, rng.random() < 0.5)]
    if ctx.tier != "quick":
        uneq += [(tb, 2, (4, 3), False), (tb, 2, (3, 4), True), (ta, 3, (3, 4, 4), False), (ta, 3, (4, 3, 3), True)]
    for typ, n, ks, noisy in uneq:
        k += 1
        cases.append(VG.scen_unequal(rng, "vu%d_%s_%d_%s" % (k, typ, n, "".join(map(str, ks))), typ, n, ks, 2,
                                     rng.choice([1e-4, 1e-3]), rng.choice([1e-2, 5e-2]), noisy))
    # light scenarios, every run: frequency starts, weights, no-V threads and term lists only (no replay of the
    # passes) for both diagonal families, square and rectangular, so that these cheap ties never rotate out
    light = set()
    if ctx.tier == "quick":
        for typ, mr, mc in (("T8", 2, 2), ("U8", 2, 2), ("T8", 2, 3), ("U8", 3, 2)):
            k += 1
            if mr == mc:
                sc = VG.scen_square(rng, "vl%d_%s_%d" % (k, typ, mr), typ, mr, 1, 1e-3, 5e-2, True)
            else:
                sc = VG.scen_rect(rng, "vl%d_%s_%dx%d" % (k, typ, mr, mc), typ, mr, mc, 1, 1e-3, 5e-2, True)
            light.add(sc.sid)
            cases.append(sc)
    stats = {"vinit": 0, "weights": 0, "weights_distinct": 0, "passes": 0, "updates": 0, "multi_freq_with_v": 0, "rect": 0, "rows": 0, "termlists": 0,
             "unequal": 0, "unequal_first_null": 0, "unequal_first_present": 0}
    allfails = []
    for sc in cases:
        rc, out, err = vplib.sh([wbv], input=sc.text(), timeout=120, env=G.run_env(ctx, True))
        res, _ = G.parse_output(out)
        r = res.get(sc.sid) or {"solve": [], "ended": False}
        if rc != 0 and not r.get("ended"):
            sig = vplib.asan_signature(err) or {"kind": "fault", "error": "exit %d" % rc, "function": None}
            rec.add(sig, "white-box V-matrix scenario %s died: %s" % (sc.sid, sig.get("error")), sc, None, err[-800:])
            continue
        recs = VG.parse_wbv(out)
        ctx.count(("vmat", sc.typ, sc.meta.get("mr", sc.n), sc.meta.get("mc", sc.n), sc.meta.get("noisy")))
        ctx.traces_validated += 1
        if not recs:
            allfails.append(("tie:v_init_vs_VMatrixModel.init_v_matrices", "%s: no white-box record (solve_simple not reached?)" % sc.sid, sc))
            continue
        if len(recs) >= 2 and any(any(v is not None for v in fr["vinit"].values()) for fr in recs[1:]):
            stats["multi_freq_with_v"] += 1
        if sc.meta.get("family") == "vmat_rect":
            stats["rect"] += 1
        if sc.meta.get("family") == "vmat_unequal":
            shapes = set()
            for fr in recs:
                for vv in fr["vinit"].values():
                    if vv is not None:
                        shapes.add("".join("P" if m_ is not None else "N" for m_ in vv))
            if any("P" in x and "N" in x for x in shapes):
                stats["unequal"] += 1
                stats["unequal_first_null"] += any(x.startswith("N") for x in shapes)
                stats["unequal_first_present"] += any(x.startswith("P") for x in shapes)
        if not sc.meta.get("noisy") and r["solve"] and r["solve"][-1]["rc"] != 0:
            rec.add({"kind": "exact_rejected", "where": "vmatrix", "type": sc.typ},
                    "exact over-determined data with the model on: vnacal_new_solve failed (%s)" % r["solve"][-1].get("msg"), sc, None)
        for name, detail in _vmat_replay(ctx, rec, drv, sc, recs, r, stats, light=sc.sid in light):
            allfails.append((name, detail, sc))
    names = ["tie:v_init_vs_VMatrixModel.init_v_matrices", "tie:w_vector_vs_VMatrixModel.calc_weights",
             "tie:no_v_thread_vs_VMatrixModel.eq_terms", "tie:term_lists_vs_VMatrixModel.build_terms", "tie:coefficient_rows_vs_VMatrixModel.build_eqs",
             "tie:v_update_vs_VMatrixModel.update_v_matrices", "tie:v_loop_vs_VMatrixModel.v_loop"]
    for nm in names:
        mine = [f for f in allfails if f[0] == nm]
        ctx.obligation(nm, not mine, mine[0][1] if mine else
                       "%d scenarios (%d rectangular, %d with V matrices at two or more frequencies): %d frequency starts, %d weights "
                       "(%d vectors with distinct weights), %d passes (%d coefficient rows sampled), %d V updates, "
                       "%d T8/U8 term lists" % (len(cases), stats["rect"], stats["multi_freq_with_v"], stats["vinit"], stats["weights"],
                                               stats["weights_distinct"], stats["passes"], stats["rows"], stats["updates"],
                                               stats["termlists"]))
        for _, detail, sc in mine[:1]:
            rec.add({"kind": "model_code_disagree", "tie": nm, "type": sc.typ}, detail, sc, None)
    cover = (stats["rect"] > 0 and stats["multi_freq_with_v"] > 0 and stats["updates"] > 0 and stats["weights_distinct"] > 0
             and stats["termlists"] > 0 and stats["unequal_first_null"] > 0 and stats["unequal_first_present"] > 0)
    ctx.obligation("tie:vmatrix_coverage", cover, "rectangular %d, multi-frequency with V %d, updates %d, distinct-weight vectors %d, "
                   "unequally determined column systems %d (first column without V matrix %d, first column with %d)"
                   % (stats["rect"], stats["multi_freq_with_v"], stats["updates"], stats["weights_distinct"], stats["unequal"],
                      stats["unequal_first_null"], stats["unequal_first_present"]))
    api_ok = True
    if exe is not None:
        # the exact-data clause through the public API on unequally determined column systems, both orientations
        ascs = []
        for typ in ("UE14", "E12"):
            for n, ks in ((2, (4, 3)), (2, (3, 4)), (3, rng.choice([(3, 4, 4), (4, 3, 3)])), (3, rng.choice([(4, 4, 3), (3, 3, 4)]))):
                k += 1
                ascs.append(VG.scen_unequal(rng, "va%d_%s_%d_%s" % (k, typ, n, "".join(map(str, ks))), typ, n, ks,
                                            rng.choice([1, 2]), rng.choice([1e-4, 1e-3]), rng.choice([1e-3, 5e-2]), False))
        ares = G.run_batch(ctx, exe, ascs)
        for sc in ascs:
            r = ares.get(sc.sid)
            if r is None:
                continue
            ctx.count(("unequal_exact_api", sc.typ, sc.n, tuple(sc.meta["ks"])))
            sres_ = check_common(rec, sc, r, "exact data, unequally determined column systems")
            if sres_ is None:
                api_ok = False
                continue
            if sres_["rc"] != 0 or min(sres_["pvalues"]) < 0.5:
                api_ok = False
                rec.add({"kind": "exact_rejected", "where": "unequal columns", "type": sc.typ},
                        "exact over-determined data, %s %d columns with equation counts differing per column (reflects per port %s), "
                        "model on: vnacal_new_solve rc %d (%s), p-values %s" % (sc.typ, sc.n, list(sc.meta["ks"]), sres_["rc"],
                                                                              sres_.get("msg"), sres_["pvalues"]), sc, r)
        ctx.obligation("exact data on unequally determined column systems are solved and not rejected (API)", api_ok,
                       "%d scenarios (UE14, E12; 2 and 3 columns; both orientations)" % len(ascs))
    return not allfails and cover and api_ok



def part_noise_spline(ctx, rec, exe):
    """Noise vectors on their OWN grid of 3 .. 6 points with curvature, calibration frequencies in every
    segment (first, interior, last, on a knot): the stored vn_m_error_vector against C10's spline model
    (coq/Interp/SplineModel.v, extracted) evaluated in exact rationals."""
    drv = ctx.ocaml_driver("drv_vmatrix")
    rng = random.Random(ctx.rng.getrandbits(48))
    scs = []
    ncase = 7 if ctx.tier == "quick" else 60
    for k in range(ncase):
        npts = [3, 4, 5, 6, 3, 4, 5][k % 7]
        lo, hi = 1.0e9, 2.0e9
        steps = [rng.uniform(0.6, 1.4) for _ in range(npts - 1)]
        tot = sum(steps)
        gf = [lo * 0.9]
        for st_ in steps:
            gf.append(gf[-1] + (hi * 1.1 - lo * 0.9) * st_ / tot)
        gf[-1] = hi * 1.1
        # calibration frequencies: one in every segment (lo / hi bound the usable part) + one knot
        cal = []
        for i in range(npts - 1):
            f = gf[i] + (gf[i + 1] - gf[i]) * rng.uniform(0.15, 0.85)
            if lo <= f <= hi:
                cal.append(f)
        inner = [g for g in gf[1:-1] if lo < g < hi]
        if inner:
            cal.append(rng.choice(inner))
        cal = sorted(set([lo, hi] + cal))
        nfv = [10 ** rng.uniform(-5, -3) for _ in gf]          # curvature: independent values
        trv = [10 ** rng.uniform(-4, -2) for _ in gf]
        typ = rng.choice(["T8", "U8", "UE14"])
        sc = G.Scenario("ns%d" % k, typ, 1, cal)
        sc.cmd("merror %d %s %s %s" % (npts, " ".join(G.fnum(x) for x in gf), " ".join(G.fnum(x) for x in nfv),
                                       " ".join(G.fnum(x) for x in trv)))
        sc.cmd("dumpmerror")
        sc.meta.update({"family": "noise_spline", "grid": gf, "nf": nfv, "tr": trv, "cal": cal})
        scs.append(sc)
    res = G.run_batch(ctx, exe, scs)
    bad = []
    nval = 0
    for sc in scs:
        r = res.get(sc.sid) or {}
        mv = (r.get("merrorvec") or [None])[-1]
        ops = [o for o in r.get("ops", []) if o.get("op") == "merror"]
        if mv is None:
            bad.append((sc, "no stored vector (set_m_error returned %s)" % (ops[-1].get("rc") if ops else "?")))
            continue
        m = sc.meta
        out = _vq(drv, [VG.spline_query(0.0, m["grid"], m["nf"], m["cal"]), VG.spline_query(0.0, m["grid"], m["tr"], m["cal"])])
        if len(out) != 2 or "einval" in out[0] or "einval" in out[1]:
            bad.append((sc, "model: %r" % out))
            continue
        mn = [float(Fraction(x)) for x in out[0].split()[1:]]
        mt = [float(Fraction(x)) for x in out[1].split()[1:]]
        ctx.count(("noise_spline", len(m["grid"]), len(m["cal"])))
        for i, (a, b) in enumerate(mv):
            nval += 2
            scale_n = max(abs(x) for x in m["nf"])
            scale_t = max(abs(x) for x in m["tr"])
            if abs(a - mn[i]) > 1e-9 * scale_n or abs(b - mt[i]) > 1e-9 * scale_t:
                bad.append((sc, "calibration frequency %d (%.6g Hz) on a %d-point noise grid: stored (%.12g, %.12g), cubic "
                                "spline through the given points (%.12g, %.12g)" % (i, m["cal"][i], len(m["grid"]), a, b, mn[i], mt[i])))
                break
    ctx.obligation("tie:noise_vector_vs_SplineModel.spline_interp", not bad,
                   bad[0][1] if bad else "%d noise grids of 3..6 points with curvature, %d stored values compared (1e-9)" % (len(scs), nval))
    for sc, detail in bad[:1]:
        rec.add({"kind": "noise_grid", "where": "own grid with curvature"}, detail, sc, None)
    return not bad


def run(ctx):
    ctx.level = "proof"
    ctx.trusted_base = [
        "Coq 8.16.1 kernel (coqc); vm_compute for the concrete instances; no native_compute",
        "axioms: none (Print Assumptions: Closed under the global context for every theorem of Properties_C18.v)",
        "hand-written models coq/SelfCal/WeightModel.v, LsqLinkModel.v, GuardModel.v, C18MErrorModel.v, PvalueModel.v, tied to the code by "
        "white-box correspondence on every run; LsqModel.v is generic weighted least-squares algebra (not tied)",
        "PvalueModel: 1/sqrt is an abstract function rsqrt (premises where used: rsqrt(a)^2 a = 1 for a > 0; decreasing); exp, erfc, sqrt, pi "
        "of chisq_pvalue are abstract (premise of chisq_even_branch_at_zero: exp 0 = 1; the p-value-1 theorems need none); the real numbers "
        "are exact rationals",
        "C18MErrorModel Section Args: the spline interpolation (C10's subject) and the order relation are abstract Section variables; the "
        "T16/U16 full-S walk is a boolean of the environment; malloc failure is not modelled",
        "the squared modulus N of LsqModel is a parameter (Section variable) with N z >= 0, N z = 0 -> z = 0, N 0 = 0 (proved for Q[i])",
        "the weight function wt of WeightModel / LsqLinkModel is an abstract Section variable (premise: no zero value) in the alignment "
        "theorems; exact_data_*_weight_formula instantiate it with PvalueModel.weight (the premise follows from sigma_nf > 0); the "
        "chi-square tail function is a parameter of WeightModel.pvalue_of and modelled as coded in PvalueModel.chisq_pvalue",
        "the coefficient rows of LsqLinkModel are a parameter; VMatrixModel.v models the rows with their V and weight factors, the V update maps "
        "and the loop over V as coded, with _vnacommon_minverse / _mldivide / _qrsolve and 1/sqrt as Section variables (premise solver_spec: an answer "
        "minimises, full column rank gives an answer); the term lists of the equations are data (white-box dump), build_equation_terms is not modelled",
        "GuardModel: the well-formedness premises of save / restore are those init_vvec_wf proves of the model of _vnacal_new_solve_init "
        "(tied); that the QR solve returns the least-squares minimiser is C19's subject",
        "ofq (VMatrixModel: the conversion double -> double complex) is a Section variable; intended laws ofq 0 = 0, ofq 1 = 1, additive, "
        "multiplicative, |z ofq(a)|^2 = a^2 |z|^2; the theorems assume none (they hold for every ofq), the instance conversion qi_of_Qc has them "
        "(ofq_instance_laws_thm); en_gaps_ok of C18MErrorModel stands for the MIN_DX test of _vnacommon_spline_calc (C10's model; the driver uses "
        "the binary64 value of 0.0001)",
        "OCaml extraction (ExtrOcamlBasic) and ocaml/glue.ml.inc; gcc, ASan/UBSan/LSan, valgrind; the python measurement oracle lib/selfcal_gen.py",
    ]
    ctx.assumptions = ["exact field arithmetic stands for binary64 arithmetic (rounding is outside every theorem)",
                       "not proved: rejection rates under Gaussian noise and for 100-sigma outliers (thorough tier, support only); "
                       "exact_data_fixed_point_thm takes the term lists of the equations as given (premise: every v_cell group sums to zero at the truth), "
                       "full column rank on the reachable V states and a regular V update as premises"]
    ctx.rule = ("one evaluation = one calibration scenario (three solves: unweighted, weighted, disabled again) through the public "
                "API, one white-box weight/index comparison, one white-box p-value comparison, one history of set_m_error calls, or one noisy trial; distinct = distinct (type, dimension, sigma_nf, "
                "sigma_tr, noise grid, seed-derived data)")
    rec = Recorder(ctx)
    ok, res = ctx.coq_obligations(VFILES)
    exe = ctx.build_harness("selfcal_harness", san=True)
    wb = G.build_wb(ctx)
    drv = ctx.ocaml_driver("drv_selfcal")
    ctx.log("built; exact data")
    part_exact(ctx, rec, exe)
    ctx.log("weight tie")
    tie_ok = part_weight_tie(ctx, rec, wb, drv)
    ctx.log("p-value ties (leakage sample counts, degrees of freedom, statistic, chisq_pvalue, weight formula)")
    pv_ok = part_pvalue_tie(ctx, rec, wb, drv)
    ctx.log("set_m_error histories")
    mh_ok = part_merror_histories(ctx, rec, exe, drv)
    ctx.log("directed")
    part_directed(ctx, rec, exe)
    ctx.log("V matrices walk")
    vg_ok = part_vguard(ctx, rec, wb, drv, 8 if ctx.tier == "quick" else 80)
    ctx.log("exactly determined")
    ed_ok = part_exactly_determined(ctx, rec, exe)
    ctx.log("V-matrix machinery of solve_simple vs VMatrixModel")
    vm_ok = part_vmatrix(ctx, rec, exe)
    ctx.log("noise vectors on their own grid vs SplineModel")
    ns_ok = part_noise_spline(ctx, rec, exe)
    if ctx.tier != "quick":
        ctx.log("statistics")
        part_statistics(ctx, rec, exe)
    ctx.log("done")
    if not ok and not ctx.violations:
        log = getattr(ctx, "_last_coq_log", "")
        ctx.unproved("C18:coq", "Coq development of C18 does not build: " + log[-400:],
                     "exact-data scenarios, white-box weight ties and directed scenarios ran without a failing input")
    if not pv_ok and not ctx.violations:
        ctx.unproved("tie:pvalue", "p-value / degrees-of-freedom / statistic comparison failed", "p-value tie scenarios of this run")
    if not mh_ok and not ctx.violations:
        ctx.unproved("tie:set_m_error_histories", "set_m_error history comparison failed", "histories of this run")
    if not tie_ok and not ctx.violations:
        ctx.unproved("tie:weights", "white-box weight comparison failed", "weight tie cases of this run")
    if not vg_ok and not ctx.violations:
        ctx.unproved("tie:v_matrices", "V-matrix walk comparison failed", "V-matrix scenarios of this run")
    if not ns_ok and not ctx.violations:
        ctx.unproved("tie:noise_vector_vs_SplineModel.spline_interp", "stored noise vector differs from the spline model", "noise grids of this run")
    if not vm_ok and not ctx.violations:
        ctx.unproved("tie:vmatrix", "V-matrix replay against VMatrixModel failed", "V-matrix scenarios of this run")
    if not ed_ok and not ctx.violations:
        ctx.unproved("tie:exactly_determined", "exactly determined scenario failed", "exactly determined scenarios of this run")
