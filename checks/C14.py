"""C14 - property trees survive YAML export and import.

1. Coq: PropTree/YamlModel.v (export to / import from an abstract YAML document tree, on the C13
   model), PropTree/YamlProofs.v and Properties_C14.v (round trip for every tree under explicit
   hypotheses about libyaml's emit+parse) are rebuilt.
2. Tie, on generated trees (depth <= 6, keys and scalars from the hostile alphabet of the property):
   a. the library's export -> import (to memory; import_yaml_from_string and _from_file) must give
      back the digest of the original tree (this is the property itself, no model involved);
   b. the same line must equal the model's prediction (yaml_import (ideal_rt (yaml_export t)));
   c. the document the library emits, parsed with libyaml alone, must be the model's abstract
      export tree up to the freedom the Section hypotheses leave (kind, order, bytes equal; style
      plain <-> plain only where allowed): this tests the hypotheses about libyaml on every run;
   d. the same trees embedded as global / per-calibration properties through vnacal_save / vnacal_load.
3. Sanitizer reports (e.g. the yaml_parser_t leak D28) and disagreements are shrunk and reported.
"""
import hashlib
import os
import re

import vplib
import prop_lib as pl
import C13 as c13

VFILES = ["PropTree/YamlModel.v", "PropTree/RebuildProofs.v", "PropTree/YamlProofs.v", "Properties_C14.v"]

# the hostile alphabet of the property text (all valid UTF-8)
ATOMS = [b"a", b"B", b"9", b"_", b"-", b" ", b"  ", b".", b",", b":", b": ", b"- ", b"#", b" #", b"'", b'"', b"\\",
         b"[", b"]", b"{", b"}", b"=", b"+", b"~", b"null", b"Null", b"NULL", b"true", b"0x1", b"1e3", b"\t", b"\n",
         b"\n\n", b"|", b">", b"&a", b"*a", b"!", b"%", b"@", b"`", b"?", b"? ", b"\x01", b"\x1b", b"\x7f",
         "é".encode(), "中".encode(), "\u0085".encode(), " ".encode(), " ".encode(), "﻿".encode(),
         "😀".encode(), b"---", b"...", b"<<", b"\r", b"\r\n", b"\x0b", b"\x0c", b"\x1f", "\u00a0".encode(),
         "\ufffd".encode(), "\ud7ff".encode(), "\ue000".encode()]
WHOLE = [b"~", b"null", b"Null", b"NULL", b"true", b"false", b"0x1", b"", b" ", b"  ", b"\n", b" \n", b"\n ", b"a\n",
         b"a\n\n", b"\na", b" a", b"a ", b"- a", b"a: b", b"a #b", b"#a", b"'a'", b'"a"', b"[a]", b"{a: b}", b"&x y",
         b"*x", b"!t v", b"|", b">", b"1", b"-1", b"1.5", b".inf", b"yes", b"no", b"2001-01-01", b"a\tb", b"\ta",
         b"a\\nb", b"line1\nline2", b"l1\n  l2\n", b"  l1\nl2", b"x\n\n\ny\n\n", "﻿bom".encode(), b"k: v\n- i\n", b"a\rb", b"a\rb\nc", b"a\r\nb", "a\u0085b\nc".encode(),
         "a\u2028b\nc".encode(), b"\r", b"trail \nx", b"x\n trail ", b"a\n\tb"]


def gen_text(rng, allow_empty=True):
    r = rng.random()
    if r < 0.25:
        t = rng.choice(WHOLE)
    else:
        t = b"".join(rng.choice(ATOMS) for _ in range(rng.randint(1, 5)))
    if not t and not allow_empty:
        t = b"k"
    return t


def gen_tree(rng, depth):
    r = rng.random()
    if depth <= 0 or r < 0.3:
        return ("s", gen_text(rng)) if rng.random() < 0.85 else ("n",)
    if r < 0.7:
        n = rng.choice([0, 1, 1, 2, 3, 5]) if rng.random() < 0.95 else 25
        keys = []
        for _ in range(n):
            k = gen_text(rng, allow_empty=False)
            if k not in keys:
                keys.append(k)
        return ("m", [(k, gen_tree(rng, depth - 1)) for k in keys])
    n = rng.choice([0, 1, 2, 3, 4]) if rng.random() < 0.95 else 9
    return ("l", [gen_tree(rng, depth - 1) for _ in range(n)])


def tree_ops(tree, path=b""):
    """set / setsub ops that build the tree at the given descriptor prefix."""
    kind = tree[0]
    here = path if path else b"."
    if kind == "n":
        return [("set", here + b"#")]
    if kind == "s":
        return [("set", here + b"=" + tree[1])]
    if kind == "m":
        ops = [("setsub", path + b"{}")]
        for k, v in tree[1]:
            q = pl.py_quote_key(k)
            ops += tree_ops(v, (path + b"." + q) if path else q)
        return ops
    ops = [("setsub", path + b"[]")]
    for i, v in enumerate(tree[1]):
        ops += tree_ops(v, path + b"[%d]" % i)
    return ops


def tree_depth(t):
    if t[0] in ("n", "s"):
        return 0
    kids = [v for _, v in t[1]] if t[0] == "m" else t[1]
    return 1 + max([tree_depth(k) for k in kids] or [0])


def strip_alloc(d):
    return re.sub(r"L\d+\[", "L[", d)


def parse_y(s):
    """ydigest -> nested tuples; s<style><hex> | m{k=v;...} | q[...;...]"""
    pos = [0]

    def node():
        c = s[pos[0]]
        if c == "s":
            st = s[pos[0] + 1]
            j = pos[0] + 2
            while j < len(s) and s[j] in "0123456789abcdef":
                j += 1
            h = s[pos[0] + 2:j]
            pos[0] = j
            return ("s", st, h)
        if c == "m":
            pos[0] += 2
            items = []
            while s[pos[0]] != "}":
                k = node()
                assert s[pos[0]] == "="
                pos[0] += 1
                v = node()
                items.append((k, v))
                if s[pos[0]] == ";":
                    pos[0] += 1
            pos[0] += 1
            return ("m", items)
        if c == "q":
            pos[0] += 2
            items = []
            while s[pos[0]] != "]":
                items.append(node())
                if s[pos[0]] == ";":
                    pos[0] += 1
            pos[0] += 1
            return ("q", items)
        raise ValueError("bad ydigest at %d: %s" % (pos[0], s[pos[0]:pos[0] + 20]))
    return node()


def y_compatible(model, real, path="root"):
    """None if the parsed document is what the hypotheses allow for the exported tree, else a reason."""
    if model[0] != real[0]:
        return "%s: kind %s exported, %s parsed" % (path, model[0], real[0])
    if model[0] == "s":
        if model[2] != real[2]:
            return "%s: scalar bytes %s exported, %s parsed" % (path, model[2], real[2])
        ms, rs = model[1], real[1]
        if ms == "p" and rs != "p":
            return "%s: plain scalar %s parsed with style %s" % (path, model[2], rs)
        if ms in ("d", "l") and rs == "p":
            return "%s: scalar %s exported with style %s came back plain" % (path, model[2], ms)
        return None
    if len(model[1]) != len(real[1]):
        return "%s: %d children exported, %d parsed" % (path, len(model[1]), len(real[1]))
    for i, (a, b) in enumerate(zip(model[1], real[1])):
        if model[0] == "m":
            r = y_compatible(a[0], b[0], path + ".key%d" % i) or y_compatible(a[1], b[1], path + ".val%d" % i)
        else:
            r = y_compatible(a, b, path + "[%d]" % i)
        if r:
            return r
    return None


def run(ctx):
    ctx.level = "proof"
    ctx.trusted_base = [
        "Coq 8.16.1 kernel (coqc); vm_compute for the example; no native_compute",
        "axioms: none (Print Assumptions: Closed under the global context for every theorem of Properties_C14.v)",
        "libyaml's emitter followed by its parser: hypotheses rt_scalar / rt_mapping / rt_sequence of c14_yaml_roundtrip "
        "(kind, order and bytes kept; plain read-back only for plain/any emitted scalars); tested on every run on the "
        "emitted documents, not proved",
        "hand-written models coq/PropTree/PropModel.v and YamlModel.v tied by correspondence; extraction; OCaml glue; "
        "harness/prop_harness.c; gcc ASan/UBSan/LSan",
    ]
    ctx.assumptions = ["scalars and keys are valid UTF-8 without NUL (other byte strings only have to fail cleanly: C09)",
                       "trees are those the API builds: non-empty distinct keys, lists shorter than 2^31-1",
                       "import into an empty root (the importer merges into existing content; not part of C14)"]
    ctx.rule = ("evaluation = one generated tree exported and re-imported by the library (string and file importers) "
                "and compared with the original and with the model; distinct non-trivial = distinct trees with at "
                "least one map or list")
    thorough = ctx.tier == "thorough"

    ok, res = ctx.coq_obligations(VFILES)
    exe = ctx.build_harness("prop_harness", san=True)
    drv = ctx.ocaml_driver("drv_prop")
    env = ctx.run_env(leak=True)
    env["ASAN_OPTIONS"] += ":max_allocation_size_mb=2048"
    env["PROP_TMP"] = ctx.tmp
    c_cmd, m_cmd = [exe], [drv]
    seen = set()
    nviol0 = len(ctx.violations)

    # ------------------------------------------------------------------ trees
    trees = [("m", [(k, ("s", v)) for k, v in zip([w for w in WHOLE if w][:40], WHOLE[:40])]),
             ("l", [("s", w) for w in WHOLE]),
             ("m", [(a, ("s", a)) for a in ATOMS]),
             ("m", []), ("l", []), ("n",), ("s", b"~"), ("s", b""), ("l", [("n",), ("m", []), ("l", [])]),
             ("m", [(b"null", ("n",)), (b"~", ("s", b"null")), (b"a.b ", ("m", [(b" ", ("l", [("s", b"x\ny")]))]))])]
    n = 400 if not thorough else 5000
    for i in range(n):
        trees.append(gen_tree(ctx.rng, ctx.rng.randint(1, 6)))
    deep = ("s", b"leaf: ~")
    for i in range(6):
        deep = ("m", [(b"k%d: " % i, deep)]) if i % 2 else ("l", [("n",), deep])
    trees.append(deep)
    ctx.extra["max_depth"] = max(tree_depth(t) for t in trees)
    # aux holds an unrelated tree before the import: the importers must replace it (DP2)
    prefill = [("set", b"old.k=v"), ("set", b"old.l[1]=w"), ("copyout", b"."), ("del", b".")]
    TAIL = [("yamlrt",), ("yamlrtf",), ("yamltree",), ("yamlinto",), ("yamlintof",)]
    scripts = [prefill + tree_ops(t) + TAIL for t in trees]
    ctx.sample({"tree_ops": [pl.op_show(o) for o in scripts[len(scripts) // 2]][:8]})

    # corpus first: fixed scripts ending in yamlrt / yamlrtf / yamltree
    for name, script in c13.load_corpus("C14"):
        d1, f1 = pl.find_failures(c_cmd, m_cmd, [script], env, nfields=_norm_c14, max_found=1)
        for d in f1:
            c13.report(ctx, d, "corpus/" + name, c_cmd, m_cmd, env, seen, _norm_c14)
        ctx.obligation("tie:corpus/" + name, not f1, "")
        ctx.traces_validated += 1

    # ------------------------------------------------------------------ a + b: library vs original, library vs model
    rc, cres, cerr = pl.run_batch_parallel(c_cmd, scripts, env=env, nproc=min(8, vplib.NPROC))
    _, mres, merr = pl.run_batch_parallel(m_cmd, scripts, nproc=min(8, vplib.NPROC))
    if any(len(m) < len(s) for m, s in zip(mres, scripts)):
        raise RuntimeError("model driver failed: " + merr[-500:])
    found = pl.compare_results(scripts, cres, mres, _norm_c14)
    for d in found[:6]:
        if d.crashed():                     # re-run alone to get the sanitizer report of this script
            d = pl.compare_one(c_cmd, m_cmd, d.script, env, _norm_c14) or d
        c13.report(ctx, d, "yaml-roundtrip", c_cmd, m_cmd, env, seen, _norm_c14)
    if rc != 0 and not found:               # e.g. a leak report at exit
        d = pl.Diff(scripts[-1], len(scripts[-1]) - 1, None, None, cerr, rc)
        for s1 in scripts[:3]:
            d1 = pl.compare_one(c_cmd, m_cmd, s1, env, _norm_c14)
            if d1 is not None:
                d = d1
                break
        c13.report(ctx, d, "yaml-roundtrip", c_cmd, m_cmd, env, seen, _norm_c14)
        found = [d]
    ctx.obligation("tie:yaml-roundtrip-vs-model", not found, "%d trees, %d failures" % (len(scripts), len(found)))
    prop_fail = hyp_fail = 0
    for t, s, lines, mlines in zip(trees, scripts, cres, mres):
        if len(lines) < len(s):
            continue                    # crash: reported above
        ctx.count(hashlib.sha1(pl.script_text(s).encode()).hexdigest() if t[0] in ("m", "l") else None)
        ctx.traces_validated += 1
        for j in (-5, -4, -2, -1):      # yamlrt, yamlrtf, yamlinto, yamlintof
            f = lines[j].split(" ")
            orig = strip_alloc(f[3])
            if j >= -2:
                back = strip_alloc(f[4])                                  # aux after the import
            else:
                back = strip_alloc(f[2][2:]) if f[2].startswith("T:") else None
            if f[0] != "0" or back != orig:
                prop_fail += 1
                if prop_fail <= 2:
                    d = pl.Diff(s, len(s) + j, lines[j], "0 0 T:%s ..." % orig)
                    sm = _shrink_tree(c_cmd, env, t, j)
                    ctx.violation({"kind": "roundtrip", "op": s[j][0], "class": _text_class(sm)},
                                  "export -> import does not reproduce the tree (%s): %s" % (s[j][0], _describe(sm))[:500],
                                  {"tree": repr(sm), "script": [pl.op_text(o) for o in prefill + tree_ops(sm)] + [s[j][0]],
                                   "c_line": lines[j]})
        # c: hypotheses about libyaml
        fy = lines[-3].split(" ")
        my = mlines[-3].split(" ")
        if fy[2].startswith("Y:") and my[2].startswith("Y:"):
            why = y_compatible(parse_y(my[2][2:]), parse_y(fy[2][2:]))
            if why:
                hyp_fail += 1
                if hyp_fail <= 2:
                    ctx.violation({"kind": "hypothesis", "op": "yamltree", "class": why.split(":")[1].strip()[:40]},
                                  "libyaml emit+parse breaks a hypothesis of c14_yaml_roundtrip: " + why[:300],
                                  {"script": [pl.op_text(o) for o in s], "emitted_hex": fy[5] if len(fy) > 5 else ""})
    ctx.obligation("tie:export-import-reproduces-tree", prop_fail == 0, "%d failures" % prop_fail)
    ctx.obligation("tie:libyaml-hypotheses", hyp_fail == 0, "%d failures" % hyp_fail)

    # ------------------------------------------------------------------ d: through vnacal_save / vnacal_load
    env_noleak = ctx.run_env(leak=False)        # vnacal_free / vnacal_load leaks belong to C03/C07 (D28, D37)
    env_noleak["PROP_TMP"] = ctx.tmp
    ncal = 60 if not thorough else 600
    cal_fail = 0
    for mode in ("global", "cal"):
        sub = [tree_ops(t) + [("calrt",)] for t in trees[:ncal]]
        rc, cres, cerr = pl.run_batch_parallel([exe, mode], sub, env=env_noleak, timeout=900, nproc=min(4, vplib.NPROC))
        for t, s, lines in zip(trees, sub, cres):
            if len(lines) < len(s):
                sig = vplib.asan_signature(cerr) or {"kind": "fault", "error": "exit %s" % rc, "function": None}
                ctx.violation(sig, "vnacal_save/vnacal_load of properties crashed (%s root): %s" % (mode, cerr[-200:]),
                              {"script": [pl.op_text(o) for o in s], "stderr": cerr[-3000:]})
                cal_fail += 1
                break
            f = lines[-1].split(" ")
            orig = strip_alloc(f[3])
            back = strip_alloc(f[2][2:]) if f[2].startswith("T:") else ""
            got = back.split("|")[-1] if mode == "cal" else back.split("|")[0]
            ctx.count(None)
            ctx.traces_validated += 1
            if f[0] != "0" or got != orig:
                cal_fail += 1
                if cal_fail <= 2:
                    ctx.violation({"kind": "roundtrip", "op": "calrt-" + mode, "class": _text_class(t)},
                                  "properties (%s root) do not survive vnacal_save/vnacal_load: %s" % (mode, _describe(t))[:500],
                                  {"script": [pl.op_text(o) for o in s], "c_line": lines[-1]})
    ctx.obligation("tie:calfile-properties-roundtrip", cal_fail == 0, "%d failures" % cal_fail)

    if not ok and len(ctx.violations) == nviol0:
        broken = [k for k, v in res.items() if not v]
        ctx.unproved(",".join(broken), "Coq development of C14 no longer compiles: " + getattr(ctx, "_last_coq_log", "")[-400:],
                     "%d generated trees: export/import reproduces every tree, model and library agree, libyaml "
                     "hypotheses hold on the emitted documents" % len(trees))


def _norm_c14(line):
    f = line.split(" ")[:5]
    if len(f) > 2 and f[2].startswith("Y:"):
        f[2] = "Y"                      # the parsed style is compared by y_compatible, not literally
    return " ".join(f)


def _leaf_texts(t):
    if t[0] == "s":
        return [t[1]]
    if t[0] == "n":
        return []
    out = []
    for x in t[1]:
        if t[0] == "m":
            out.append(x[0])
            out += _leaf_texts(x[1])
        else:
            out += _leaf_texts(x)
    return out


def _text_class(t):
    txt = b"".join(_leaf_texts(t))
    cls = []
    for name, pat in (("cr", b"\r"), ("nel", "\u0085".encode()), ("ls", " ".encode()), ("ps", " ".encode()),
                      ("bom", "﻿".encode()), ("newline", b"\n"), ("tab", b"\t")):
        if pat in txt:
            cls.append(name)
    if any(c < 32 and c not in (9, 10, 13) for c in txt) or 127 in txt:
        cls.append("control")
    return ",".join(cls) or "plain"


def _describe(t):
    return repr(t)[:300]


def _fails(c_cmd, env, t, j):
    op = {-5: "yamlrt", -4: "yamlrtf", -2: "yamlinto", -1: "yamlintof"}[j]
    s = [("set", b"old.k=v"), ("set", b"old.l[1]=w"), ("copyout", b"."), ("del", b".")] + tree_ops(t) + [(op,)]
    rc, res, err = pl.run_batch(c_cmd, [s], env=env, timeout=60)
    lines = res[0]
    if len(lines) < len(s):
        return True
    f = lines[-1].split(" ")
    if j >= -2:
        return f[0] != "0" or strip_alloc(f[4]) != strip_alloc(f[3])
    return f[0] != "0" or not f[2].startswith("T:") or strip_alloc(f[2][2:]) != strip_alloc(f[3])


def _shrink_tree(c_cmd, env, t, j, budget=120):
    """Smallest sub-tree / shortest texts that still fail to round-trip."""
    runs = [0]

    def fails(x):
        runs[0] += 1
        return runs[0] <= budget and _fails(c_cmd, env, x, j)
    changed = True
    while changed and runs[0] < budget:
        changed = False
        if t[0] in ("m", "l"):
            if t[1] and fails((t[0], [])):                  # the empty collection
                t, changed = (t[0], []), True
                continue
            kids = [v for _, v in t[1]] if t[0] == "m" else list(t[1])
            for k in kids:                                  # a child alone
                if fails(k):
                    t, changed = k, True
                    break
            if changed:
                continue
            for i in range(len(t[1])):                      # drop one member
                cand = (t[0], t[1][:i] + t[1][i + 1:])
                if fails(cand):
                    t, changed = cand, True
                    break
            if changed:
                continue
            if t[0] == "m":
                for i, (k, v) in enumerate(t[1]):           # plain value / plain key
                    for cand in ((t[0], t[1][:i] + [(k, ("s", b"v"))] + t[1][i + 1:]) if v != ("s", b"v") else None,
                                 (t[0], t[1][:i] + [(b"k", v)] + t[1][i + 1:]) if k != b"k" and all(kk != b"k" for kk, _ in t[1]) else None):
                        if cand is not None and fails(cand):
                            t, changed = cand, True
                            break
                    if changed:
                        break
        elif t[0] == "s" and len(t[1]) > 1:
            b = t[1]
            for cand in (b[:len(b) // 2], b[len(b) // 2:], b[1:], b[:-1]):
                if cand != b and fails(("s", cand)):
                    t, changed = ("s", cand), True
                    break
    return t
