"""C15 / C06 / C11: the parameter-format language of vnadata (vnadata_set_format, vnadata_get_format,
_vnadata_update_format_string, _vnadata_format_to_name, _vnadata_set_simple_format).

Model: coq/Data/FormatModel.v (parser of format strings as coded, printer, the setters on the format
state with the allocation requests in program order, the grammar of vnadata(3)).  Theorems:
coq/Data/FormatProofs.v, examples coq/Data/FormatExamples.v, property file coq/Properties_C15f.v.

Tie (run_part): the extracted model (ocaml/drv_format.ml) and the library (harness/format_harness.c,
linked with the allocation interposer) execute the same script on one object that lives through the
whole script; the outcome lines - return value, errno class, number of error callbacks, class of the
message and the text of the refused specifier, the string vnadata_get_format returns, the descriptor
vector and its count read through vnadata_internal.h, the number of live blocks - are compared exactly.
  (a) every string over a small alphabet up to a length bound (exhaustive),
  (b) generated valid lists with random case, white space (all six isspace bytes, also inside a
      specifier), optional "ri", interleaved with set_format(NULL), _vnadata_set_simple_format,
      fresh objects of every type, and with an allocation failure injected at each of the requests,
  (c) mutations of valid strings (deleted / inserted / replaced bytes incl. NUL, 0x7f, bytes >= 0x80,
      control characters, doubled and dangling commas).
Before that the C text is read for the facts the model takes from it: the comparison of the copy loop
(signed or unsigned char: model variant), MAX_FORMAT, the enum orders.

run_part(ctx) is called by checks/C15.py; run(ctx) allows `bin/check c15_format` on its own.
"""
import os
import re

import vplib

LETTERS = "SsTtUuZzYyHhGgAaBb"
PNAMES = ["", "S", "T", "U", "Z", "Y", "H", "G", "A", "B", "Zin"]
FORMS = ["DB", "MA", "RI", "PRC", "PRL", "SRC", "SRL", "IL", "RL", "VSWR"]
COORD = {0: "dB", 1: "ma", 2: "ri"}
SPACES = [0x20, 0x09, 0x0a, 0x0b, 0x0c, 0x0d]


def producible():
    out = []
    for p in range(11):
        for f in range(10):
            if f in (7, 8, 9):
                ok = p == 1
            elif f in (3, 4, 5, 6):
                ok = p == 10
            elif f == 0:
                ok = p != 10
            else:
                ok = True
            if ok:
                out.append((p, f))
    return out


def spellings(p, f):
    """the lower/mixed-case words that denote descriptor (p, f)"""
    if f >= 3:
        return [FORMS[f]]
    w = [PNAMES[p] + COORD[f]]
    if f == 2 and p != 0:
        w.append(PNAMES[p])
    return w


def hexs(bs):
    return "".join("%02x" % b for b in bs) if bs else "-"


def read_c_facts(ctx):
    """-> (sgn, facts dict); raises ValueError when the C text no longer has the accepted shape"""
    src = open(os.path.join(ctx.repo, "src", "vnadata_set_format.c")).read()
    if re.search(r"if\s*\(\s*\*cp\s*>\s*0x7e\s*\)", src):
        sgn = 1
    elif re.search(r"if\s*\(\s*\(unsigned char\)\s*\*cp\s*>\s*0x7e\s*\)", src) or (
            re.search(r"unsigned char c = \(unsigned char\)\*cp;", src) and re.search(r"if\s*\(\s*c\s*>\s*0x7e\s*\)", src)
            and not re.search(r"is(space|upper)\(\*cp\)", src)):
        sgn = 0
    else:
        raise ValueError("vnadata_set_format.c: the test of the copy loop is neither `*cp > 0x7e` nor `(unsigned char)*cp > 0x7e`")
    upd = open(os.path.join(ctx.repo, "src", "vnadata_update_format_string.c")).read()
    m = re.search(r"#define\s+MAX_FORMAT\s+(\d+)", upd)
    if not m:
        raise ValueError("vnadata_update_format_string.c: MAX_FORMAT not found")
    maxf = int(m.group(1))
    if not re.search(r"malloc\(\s*vdip->vdi_format_count\s*\*\s*\(MAX_FORMAT \+ 1\)\)", upd):
        raise ValueError("vnadata_update_format_string.c: the size of the string buffer is not count * (MAX_FORMAT + 1)")
    ih = open(os.path.join(ctx.repo, "src", "vnadata_internal.h")).read()
    m = re.search(r"typedef enum vnadata_format\s*\{(.*?)\}", ih, re.S)
    if not m:
        raise ValueError("vnadata_internal.h: enum vnadata_format not found")
    body = re.sub(r"/\*.*?\*/", "", m.group(1), flags=re.S)
    forms = [x.strip().split("=")[0].strip() for x in body.split(",") if x.strip()]
    want = ["VNADATA_FORMAT_DB_ANGLE", "VNADATA_FORMAT_MAG_ANGLE", "VNADATA_FORMAT_REAL_IMAG", "VNADATA_FORMAT_PRC",
            "VNADATA_FORMAT_PRL", "VNADATA_FORMAT_SRC", "VNADATA_FORMAT_SRL", "VNADATA_FORMAT_IL", "VNADATA_FORMAT_RL",
            "VNADATA_FORMAT_VSWR"]
    if forms != want or "=" in body:
        raise ValueError("vnadata_internal.h: enum vnadata_format is not the order of NpdScan.form: %r" % forms)
    h = open(os.path.join(ctx.repo, "src", "vnadata.h")).read()
    vals = dict((k, int(v)) for k, v in re.findall(r"\b(VPT_[A-Z]+)\s*=\s*(\d+)", h))
    wantp = {"VPT_UNDEF": 0, "VPT_S": 1, "VPT_T": 2, "VPT_U": 3, "VPT_Z": 4, "VPT_Y": 5, "VPT_H": 6, "VPT_G": 7, "VPT_A": 8,
             "VPT_B": 9, "VPT_ZIN": 10}
    for k, v in wantp.items():
        if vals.get(k) != v:
            raise ValueError("vnadata.h: %s is not %d" % (k, v))
    return sgn, {"copy_loop_compares": "char (signed)" if sgn else "unsigned char", "MAX_FORMAT": maxf}


def decorate(rng, word):
    out = []
    for c in word:
        if rng.random() < 0.15:
            out += [rng.choice(SPACES) for _ in range(rng.choice([1, 1, 2]))]
        r = rng.random()
        out.append(ord(c.upper() if r < 0.4 else c.lower() if r < 0.8 else c))
    if rng.random() < 0.2:
        out += [rng.choice(SPACES)]
    return out


def valid_string(rng, maxn=8):
    prod = producible()
    n = rng.choice([1, 1, 1, 2, 2, 3, 4, rng.randint(1, maxn)])
    ds = [rng.choice(prod) for _ in range(n)]
    bs = []
    for i, (p, f) in enumerate(ds):
        if i:
            bs.append(0x2c)
        bs += decorate(rng, rng.choice(spellings(p, f)))
    if rng.random() < 0.2:
        bs = [rng.choice(SPACES)] + bs
    return bs


JUNK = [0x00, 0x01, 0x08, 0x0e, 0x1f, 0x21, 0x22, 0x25, 0x2c, 0x2c, 0x2c, 0x5c, 0x7e, 0x7f, 0x80, 0x85, 0xa0, 0xc3, 0xfe, 0xff,
        0x40, 0x5b, 0x60, 0x7b, 0x30, 0x39]


def mutate(rng, bs):
    bs = list(bs)
    for _ in range(rng.choice([1, 1, 2])):
        k = rng.randrange(6)
        pos = rng.randrange(len(bs) + 1)
        pool = JUNK + [ord(c) for c in "abdghilmnprstuvwyzcABDZINQX"]
        if k == 0 and bs:
            del bs[min(pos, len(bs) - 1)]
        elif k == 1:
            bs.insert(pos, rng.choice(pool))
        elif k == 2 and bs:
            bs[min(pos, len(bs) - 1)] = rng.choice(pool)
        elif k == 3:
            bs.insert(pos, 0x2c)
        elif k == 4:
            bs = bs + [0x2c] if rng.random() < 0.5 else [0x2c] + bs
        else:
            w = rng.choice(["zindb", "zin db", "vswrri", "ilri", "prcma", "sr", "zi", "d", "m", "r", "db ", "i", "p", "v", "sdbb",
                            "zinn", "srcc", "dbri", "mari", "rll", "sdb,", "", " ", "ri ri"])
            bs = bs[:pos] + [ord(c) for c in w] + bs[pos:]
    return bs


def build_script(ctx, quick):
    rng = ctx.rng
    lines = []
    # (a) exhaustive: all strings up to the bounds
    full = "sSrimadbBlzZncptvw, \t,"
    a3 = sorted(set(ord(c) for c in "abdghilmnprstuvwyzcSZ, \t") | {0x7f, 0x80})
    a4 = sorted(set(ord(c) for c in "sridbmalzncpSZ, "))
    a5 = sorted(set(ord(c) for c in "sridblzn, "))
    a6 = sorted(set(ord(c) for c in "zindbma"))
    enums = [(3, a3), (4, a4), (5, a5)] if quick else [(3, a3), (4, sorted(set(a3) | set(a4))), (5, a4), (6, a5), (7, a6)]
    nenum = 0
    for maxlen, alpha in enums:
        lines.append("enum %d %s" % (maxlen, hexs(alpha)))
        nenum += sum(len(alpha) ** k for k in range(maxlen + 1))
    # (b) valid lists with decoration, interleaved with the other setters and with failed allocations
    nvalid = 1500 if quick else 20000
    for i in range(nvalid):
        r = rng.random()
        if r < 0.04:
            t = rng.choice([-1] + list(range(11)))
            dims = {0: (2, 2), 1: (2, 2), 4: (3, 3), 5: (1, 1), 10: (1, 3)}.get(t, (2, 2))
            lines.append("new %d %d %d" % (t, dims[0], dims[1]))
        elif r < 0.10:
            lines.append("null %d" % rng.choice([0, 0, 1]))
        elif r < 0.18:
            p, f = rng.choice(producible())
            lines.append("simple %d %d %d" % (rng.choice([0, 0, 1, 2, 3]), p, f))
        else:
            bs = valid_string(rng)
            # a failed request: only on strings the parser accepts (the error report of a refused string
            # makes allocation requests of its own, which the model does not number)
            lines.append("set %d %s" % (rng.choice([0, 0, 0, 1, 2, 3, 4]), hexs(bs)))
    # (c) invalid by mutation (no injected failure, except the first request)
    ninvalid = 2500 if quick else 40000
    for i in range(ninvalid):
        if rng.random() < 0.1:
            lines.append("set 0 %s" % hexs(valid_string(rng)))      # something to lose
        bs = mutate(rng, valid_string(rng, 4))
        lines.append("set %d %s" % (rng.choice([0, 0, 0, 0, 1]), hexs(bs)))
    # long lists (the string buffer is count * (MAX_FORMAT + 1): the longest names back to back)
    for n in (1, 2, 7, 64, 500):
        lines.append("set 0 %s" % hexs([ord(c) for c in ",".join(["zinma", "ZINRI"][i % 2] for i in range(n))]))
        lines.append("set 3 %s" % hexs([ord(c) for c in ",".join("Zinri" for i in range(n))]))
    return lines, {"enumerated_strings": nenum, "enumerations": [[m, len(a)] for m, a in enums], "valid_ops": nvalid,
                   "mutated_strings": ninvalid}


def field(line, key):
    m = re.search(r"\b%s=(\S+)" % key, line)
    return m.group(1) if m else None


def classify(cl, ml):
    for k in ("rc", "errno", "cb", "why", "str", "vec", "count", "live"):
        if field(cl, k) != field(ml, k):
            return k
    return "line"


def run_pair(ctx, exe, drv, sgn, script, timeout):
    text = "\n".join(script) + "\n"
    rc, out, err = vplib.sh([exe], input=text, timeout=timeout, env=ctx.run_env(leak=True))
    rc2, out2, err2 = vplib.sh([drv, str(sgn)], input=text, timeout=timeout)
    return rc, out, err, rc2, out2, err2


def run_part(ctx):
    quick = ctx.tier == "quick"
    ok, _ = ctx.coq_obligations(["Data/FormatProofs.v", "Data/FormatExamples.v", "Properties_C15f.v"])
    try:
        sgn, facts = read_c_facts(ctx)
        ctx.obligation("translator:format facts of the C text (copy-loop comparison, MAX_FORMAT = 5, enum orders)",
                       facts["MAX_FORMAT"] == 5, "MAX_FORMAT = %d, the model and print_fits assume 5" % facts["MAX_FORMAT"])
    except ValueError as e:
        ctx.obligation("translator:format facts of the C text (copy-loop comparison, MAX_FORMAT = 5, enum orders)", False, str(e))
        ctx.unproved("format model facts", str(e), "the C text is not of the shape the model was written for; no tie was run")
        return {}
    if facts["MAX_FORMAT"] != 5:
        # the model's buffer theorem is about 6 bytes per descriptor: show the consequence on the library below
        pass
    exe = ctx.build_harness("format_harness", san=True, wrap=True)
    drv = ctx.ocaml_driver("drv_format")
    script, stats = build_script(ctx, quick)
    rc, out, err, rc2, out2, err2 = run_pair(ctx, exe, drv, sgn, script, 900 if quick else 3000)
    stats.update(facts)
    cl = out.split("\n")
    ml = out2.split("\n")
    if rc != 0 and cl and not cl[-1].endswith("live=0"):
        cl = [x for x in cl if x]           # the harness died: its last complete line precedes the fatal call
    bad = None
    if rc2 != 0:
        ctx.obligation("tie:format model driver runs", False, (err2 or "")[-300:])
        ctx.unproved("format tie", "the extracted model driver failed", "none")
        return stats
    n = min(len(cl), len(ml))
    compared = 0
    classes = {}
    for i in range(n):
        if cl[i] != ml[i]:
            bad = i
            break
        if cl[i]:
            compared += 1
            w = field(cl[i], "why")
            if w:
                w = w.split(":")[0]
                classes[w] = classes.get(w, 0) + 1
    if bad is None and len(cl) != len(ml):
        bad = n
    sig = vplib.asan_signature(err) if rc != 0 else None
    stats["compared_calls"] = compared
    stats["outcome_classes"] = classes
    ctx.traces_validated += compared
    for k in classes:
        ctx.count(("format_outcome", k), classes[k])
    for s in [x for x in cl if " rc=0 " in x][:3] + [x for x in cl if "why=spec" in x][:2] + [x for x in cl if "why=char" in x][:1]:
        ctx.sample(s[:200])
    if bad is not None or rc != 0:
        # find the call: the ops are deterministic given the state, replay the single op on a fresh object
        c_line = cl[bad] if bad is not None and bad < len(cl) else "(no output: the harness died in this call, exit status %d)" % rc
        m_line = ml[bad] if bad is not None and bad < len(ml) else "(no output)"
        arg = (c_line.split(" ")[0] if c_line and not c_line.startswith("(") else m_line.split(" ")[0])
        what_field = classify(c_line, m_line)
        prev = cl[bad - 1] if bad else ""
        replay = {"how": "harness/format_harness.c < script (one object through the script); model: ocaml/_build/drv_format %d" % sgn,
                  "call_argument_hex": arg, "library": c_line[:400], "model": m_line[:400], "previous_call": prev[:400],
                  "line": bad}
        single = None
        if re.fullmatch(r"[0-9a-f]+|-", arg or ""):
            r1 = run_pair(ctx, exe, drv, sgn, ["set 0 " + arg], 60)
            if r1[1].split("\n")[0] != r1[4].split("\n")[0] or r1[0] != 0:
                single = {"script": "set 0 " + arg, "library": r1[1].split("\n")[0][:400], "model": r1[4].split("\n")[0][:400]}
                if r1[0] != 0:
                    single["fault"] = vplib.asan_signature(r1[2])
        if single:
            replay["single_call_on_a_fresh_object"] = single
        if sig:
            ctx.violation({"kind": sig.get("kind", "fault"), "error": sig.get("error"), "function": sig.get("function")},
                          "memory fault in %s during the format script: %s" % (sig.get("function"), sig.get("error")), replay)
        elif c_line.startswith("(no output"):
            ctx.violation({"kind": "format_tie", "class": "process died"},
                          "the library did not return from the call with argument %s (harness exit status %d: abort() or a signal); the model predicts `%s`"
                          % (arg, rc, m_line[:200]), replay)
        elif rc != 0 and bad is None:
            ctx.violation({"kind": "format_tie", "class": "harness exit %d" % rc}, "format harness exit status %d: %s" % (rc, (err or "")[-200:]), replay)
        else:
            ctx.violation({"kind": "format_tie", "class": what_field},
                          "vnadata_set_format / vnadata_get_format disagree with the format-language model in `%s` on argument %s: library `%s`, model `%s`"
                          % (what_field, arg, c_line[:160], m_line[:160]), replay)
    ctx.obligation("tie:format language: library == model on %d calls (%d exhaustively enumerated strings, valid lists with decoration, mutations, failed allocations)"
                   % (compared, stats["enumerated_strings"]), bad is None and rc == 0,
                   "" if bad is None and rc == 0 else "first difference at call %s" % bad)
    ctx.obligation("tie:format script reaches every outcome class (accepted, refused specifier, refused byte, failed allocation)",
                   all(classes.get(k, 0) > 0 for k in ("none", "spec", "char", "nomem")), str(classes))
    ctx.extra["format_language"] = stats
    return stats


def run(ctx):
    ctx.level = "proof"
    ctx.rule = "format-language model == library on generated scripts; theorems of Properties_C15f.v"
    ctx.trusted_base = ["Coq kernel", "extraction (ExtrOcamlBasic)", "ocaml/drv_format.ml", "harness/format_harness.c", "harness/allocwrap.c"]
    run_part(ctx)
