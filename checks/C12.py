"""C12 - any single allocation failure yields a clean ENOMEM failure, nothing worse.

1. Coq: coq/Mem/*.v fault-monad models and coq/Properties_C12.v (forall-k theorems) are rebuilt.
2. Tie: the extracted models run with fail_at = k against the white-box C ops with the k-th
   tracked request failing (lib/mem_tie.py).
3. Support / search: for each scripted history the harness first counts the tracked allocation
   requests of every op (fault-free run), then every (op, k) is replayed in a fresh process with the
   k-th request of that op failing.  Checked: no crash / sanitizer report; the op still succeeds
   with the fault-free result or fails with its failure value and errno ENOMEM; the repeat of the
   op gives the fault-free result; every later op of the history (the usability suffix) gives the
   fault-free result; the final live count equals the fault-free one (0).
"""
import concurrent.futures
import glob
import os
import zlib

import vplib
import mem_gen
import mem_tie

CORPUS = os.path.join(vplib.VERIF, "corpus", "C12")

# ops that are several library calls in the harness: never the op under test
COMPOSITE = {"pdig", "ddig", "cgets", "dfminmax", "dgetprec", "pcopysub"} | mem_gen.ALIAS_COMPOSITE

# ops that set a value in a property tree through an expression (vnaproperty_vset / _vset_subtree) or import one
PROP_EXPR_SETTERS = {"pset", "psetsub", "cpset", "cpsetsub"}
PROP_SETTERS = PROP_EXPR_SETTERS | {"pimport", "pimports", "pimportf"}

SOL1 = ["nsr 0 1 1 0 0 2 1 -1 0", "nsr 0 1 1 0 0 1 1 1 0", "nsr 0 1 1 0 0 0 1 0 0"]
SOLT2 = ["nsr 0 2 2 0 0 %d %d %s 0" % (s, p, g) for p in (1, 2) for s, g in ((2, "-1"), (1, "1"), (0, "0"))] + ["nthru 0 2 2 0 0 1 2"]

DIRECTED = {
    "prop_basic": ["pset 0 a.b=hello", "pset 0 l[+]=x", "pset 0 l[0+]=y", "pset 0 m.k1=v", "pget 0 a.b", "pkeys 0 m", "pcount 0 l", "ptype 0 a",
                   "pgetsub 0 m", "psetsub 0 n.e -", "pdel 0 m.k1", "pdel 0 l[0]", "pquote 0 with%20space", "pcopy 1 0", "pdig 0", "pdig 1"],
    # every way a set can land on a cell that already holds something: scalar over scalar, scalar over a map / a list, over a list
    # element, null over a scalar, in a map and in a list, at the root; then the tree is read back and deleted
    "prop_overwrite": ["pset 0 k=v1", "pset 0 k=v2", "pset 0 m.a=1", "pset 0 m.b.c=2", "pset 0 m.b=flat", "pset 0 m=scalar", "pset 0 l[0]=x", "pset 0 l[1].k=y",
                       "pset 0 l[1]=z", "pset 0 l[0]#", "pset 0 l[0]=again", "pset 0 l=s", "pset 0 k#", "pset 0 k=v3", "pdig 0", "pset 1 .=root", "pset 1 .=root2", "pset 1 a.b=1",
                       "pdig 1", "pdel 0 .", "pdel 1 ."],
    # DM80: the YAML importers replace the content of a tree that is not empty (a null document, a scalar, a map, a list over a map);
    # the vnaproperty_delete(rootptr, ".") inside them allocates too
    "prop_import_over_content": ["pset 1 a.b=hello", "pset 1 l[+]=x", "pimports 1 %7E%0A 0", "pdig 1", "pset 1 k=v", "pimports 1 a:%201%0A 1", "pdig 1",
                                 "pimports 1 [1,%202]%0A 1", "pdig 1", "pimports 1 other:%20{x:%20y}%0A 0", "pdig 1", "pexport 1 0 1", "pset 2 old=content",
                                 "pimport 2 0 1", "pdig 2", "pset 3 old.er=content", "pimportf 3 0 1", "pdig 3", "pdel 1 ."],
    "prop_list_growth": ["pset 0 l[+]=%d" % i for i in range(9)] + ["pset 0 l[20]=z", "pset 0 l[3+]=ins", "pdel 0 l[2]", "pdig 0"],
    "prop_map_growth": ["pset 0 k%d=%d" % (i, i) for i in range(7)] + ["pdel 0 k3", "pset 0 k3.x=1", "pkeys 0 .", "pdig 0"],
    "prop_yaml": ["pset 0 a.b=1", "pset 0 l[+]=x", "pset 0 l[+]=~", "pexport 0 0 1", "pimport 1 0 1", "pimportf 2 0 1", "pimports 3 a:%20[1,%20{b:%20c}]%0A 1", "pdig 1", "pdig 2", "pdig 3"],
    "data_basic": ["dalloc 0 1", "dinit 0 1 2 2 2", "dsetfv 0 0", "dsetm 0 0 1.5", "dsetm 0 1 2.5", "dsetz0 0 1 75 0", "dresize 0 1 3 3 4", "daddf 0 5e9",
                   "dsetfz0 0 1 0 40 1", "dresize 0 1 3 3 6", "dsetallz0 0 50 0", "dsetz0v 0 0 60", "dsetfz0v 0 1 0 30", "dresize 0 0 4 2 8", "ddig 0"],
    "data_convert_save": ["dalloc 0 1", "dinit 0 1 2 2 2", "dsetfv 0 0", "dsetm 0 0 0.1", "dsetm 0 1 0.2", "dalloc 1 1", "dconv 0 1 4", "dconv 0 1 10", "dconv 0 0 5",
                          "dsetfmt 0 Yri,Sdb", "dsave 0 0 x.npd", "dload 1 0 x.npd", "dsetfmt 1 Sma", "dsave 1 1 x.s2p", "dload 0 1 x.s2p", "dsetft 0 2", "dsave 0 2 x.ts", "dload 1 2 x.ts", "ddig 0", "ddig 1"],
    "cal_params": ["ccreate 0 1", "cscalar 0 0.5 0", "cvector 0 3 0", "cunknown 0 3", "ccorr 0 4 2 0", "ccorr 0 3 1 0", "cpval 0 4 1e9", "cpval 0 6 1e9", "cpdel 0 3", "cscalar 0 1 0",
                   "cscalar 0 1 0", "cscalar 0 1 0", "cscalar 0 1 0", "cpdel 0 8", "cscalar 0 2 0", "cpval 0 8 1e9", "cpset 0 -1 a.b=1", "cpget 0 -1 a.b", "cfree 0", "ccreate 0 0", "cscalar 0 0.5 0"],
    "cal_new_1x1": ["ccreate 0 1", "nalloc 0 0 0 1 1 2", "nsetfv 0 0"] + SOL1 + ["nsolve 0", "caddcal 0 cal0 0", "cgets 0 0", "cpset 0 0 k=v", "dalloc 0 1",
                                                                                  "capply 0 0 0 2 1 1 0 0", "csave 0 0", "cload 1 0 1", "cgets 1 0", "cpget 1 0 k"],
    "cal_new_2x2_te10": ["ccreate 0 1", "nalloc 0 0 2 2 2 1", "nsetfv 0 0"] + SOLT2 + ["nsolve 0", "caddcal 0 cal0 0", "caddcal 0 cal0 0", "nalloc 1 0 1 2 2 1", "nsetfv 1 0",
                                                                                        "nsr 1 2 2 1 0 2 1 -1 0", "ndr 1 2 2 0 0 1 2 1 2 1 0 -1 0", "nline 1 2 2 0 0 0 1 1 0 1 2 0 0 1 1 0", "nmm 1 2 2 0 0 2 2 0 0 1 1 0 0 1 1 0", "nmerr 1 1 1", "nfree 1", "cgets 0 0"],
    "cal_new_e12_unknown": ["ccreate 0 1", "cunknown 0 2", "nalloc 0 0 8 2 2 1", "nsetfv 0 0"] + SOLT2 + ["nsr 0 2 2 0 0 3 1 -1 0", "nmerr 0 1 1", "nsolve 0", "caddcal 0 cal1 0", "cpval 0 3 1e9", "cgets 0 0"],
    # >= 8 distinct parameters in one vnacal_new_t (the parameter hash grows at the 8th), then the same
    # object keeps being used: adds, solve, add_calibration, free
    "cal_param_hash_growth": ["ccreate 0 1"] + ["cscalar 0 0.%d 0" % i for i in range(1, 8)] +
                             ["nalloc 0 0 0 1 1 1", "nsetfv 0 0", "nsr 0 1 1 0 0 2 1 -1 0", "nsr 0 1 1 0 0 1 1 1 0"] +
                             ["nsr 0 1 1 0 0 %d 1 0.%d 0" % (p, p - 2) for p in range(3, 10)] +
                             ["nsr 0 1 1 0 0 0 1 0 0", "nsr 0 1 1 0 0 9 1 0.7 0", "nsr 0 1 1 0 0 4 1 0.2 0", "nsolve 0", "caddcal 0 cal0 0", "cgets 0 0", "nfree 0", "cfree 0"],
    # add_calibration replacing an existing name (solve twice, add twice), then look-ups and free
    "cal_replace_same_name": ["ccreate 0 1", "nalloc 0 0 0 1 1 2", "nsetfv 0 0"] + SOL1 +
                             ["nsolve 0", "caddcal 0 cal0 0", "cpset 0 0 k=v", "nsolve 0", "caddcal 0 cal0 0", "cfind 0 cal0", "cgets 0 0", "cpget 0 0 k",
                              "nsolve 0", "caddcal 0 other 0", "nsolve 0", "caddcal 0 cal0 0", "cgets 0 0", "cgets 0 1", "cfree 0"],
    "cal_two_cals": ["ccreate 0 1", "nalloc 0 0 0 1 1 1", "nsetfv 0 0"] + SOL1 + ["nsolve 0", "caddcal 0 cal0 0", "nalloc 1 0 1 1 1 1", "nsetfv 1 0"] +
                    [s.replace("nsr 0", "nsr 1") for s in SOL1] + ["nsolve 1", "caddcal 0 cal1 1", "cfind 0 cal1", "cdelcal 0 0", "cgets 0 1", "csave 0 1", "cload 1 1 0", "cgets 1 1"],
    # vector <- unknown <- correlated with sigma_frequency_vector NULL (frequencies borrowed from the vector at the end of the
    # chain); delete the correlated parameter, evaluate the vector, make a second one, delete everything, free (checks/C03.py D43)
    "cal_corr_borrowed_f_chain": ["ccreate 0 1", "cvector 0 4 0", "cunknown 0 3", "ccorr 0 4 4 1", "cpdel 0 5", "cpval 0 3 1.2e9", "ccorr 0 4 4 1",
                                  "cpdel 0 5", "cpdel 0 4", "cpdel 0 3", "cpdel 0 3", "cfree 0"],
    # an unknown parameter solved repeatedly with the same number of frequencies: three times by one vnacal_new_t ...
    "cal_resolve_unknown": ["ccreate 0 1", "cscalar 0 0.45 0.25", "cunknown 0 3", "nalloc 0 0 8 1 1 2", "nsetfv 0 0"] + SOL1 +
                           ["nsr 0 1 1 0 0 4 1 0.5 0.3", "nsolve 0", "cpval 0 4 1.5e9", "nptol 0 1e-9 0", "nsolve 0", "cpval 0 4 1.5e9", "caddcal 0 cal0 0",
                            "nsolve 0", "cpval 0 4 1.5e9", "nfree 0", "cpdel 0 4", "cpdel 0 3", "cdelcal 0 0", "cfree 0"],
    # ... and by two vnacal_new_t of equal frequency count that share it
    "cal_unknown_two_news": ["ccreate 0 1", "cscalar 0 0.45 0.25", "cunknown 0 3", "nalloc 0 0 8 1 1 2", "nsetfv 0 0", "nalloc 1 0 0 1 1 2", "nsetfv 1 0"] +
                            SOL1 + [s.replace("nsr 0", "nsr 1") for s in SOL1] +
                            ["nsr 0 1 1 0 0 4 1 0.5 0.3", "nsr 1 1 1 0 0 4 1 0.5 0.3", "nsolve 0", "nsolve 1", "cpval 0 4 1.5e9", "nsolve 0", "cpval 0 4 1.5e9",
                             "caddcal 0 cal0 0", "nfree 0", "cpdel 0 4", "cpdel 0 3", "nsolve 1", "nfree 1", "cfree 0"],
    # ---- self-aliasing family (checks/C03.py, docs/design_C03.md): the pointer a getter returns handed to a mutator of the same object, every
    # allocation of the mutator failing once.  vnacal_save to the name the object reports (D70: a failed strdup must keep the old name)
    "cal_save_own_filename": ["ccreate 0 1", "nalloc 0 0 0 1 1 2", "nsetfv 0 0"] + SOL1 + ["nsolve 0", "caddcal 0 cal0 0", "csave 0 0", "csave 0 0", "casave 0 0", "cload 1 0 1", "casave 1 1", "csave 1 0",
                              "cgets 1 0", "casave 0 1", "cfree 1", "caload 1 0 0", "cgets 0 0"],
    "alias_prop": ["pset 0 a.b=hello", "pset 0 a.c=world", "pset 0 k=v", "pset 0 y={a:%20[1,%202]}", "paset 0 0 k k %00", "paset 0 0 k k _a_longer_suffix_so_that_the_value_is_reallocated",
                   "paset 0 0 a.b l[+] %00", "pacopy 1 0 a", "pacopy 0 0 a", "pset 0 y={a:%20[1,%202]}", "paimports 0 0 y 1", "pdig 0", "pdig 1"],
    "alias_data": ["dalloc 0 1", "dinit 0 1 2 2 3", "dsetfv 0 0", "dsetm 0 0 1.5", "dsetfmt 0 Sri,Zma", "dasetfmt 0 0", "dasetfv 0 0", "dasetm 0 1 0 0", "dasetv 0 0 1 0 1", "dasetz0v 0 0 0 0",
                   "dsetft 0 3", "dasavefmt 0 0 1", "dasetfz0v 0 1 0 0 0", "dasetfz0v 0 2 0 1 1", "dasetz0v 0 0 1 2", "ddig 0"],
    "alias_cal": ["ccreate 0 1", "nalloc 0 0 0 1 1 2", "nsetfv 0 0"] + SOL1 + ["nsolve 0", "caddcal 0 cal0 0", "cpset 0 0 k=v", "capset 0 0 0 0 k k _suffix", "capset 0 -1 0 0 k g.y %00",
                  "capexport 0 0 . 1", "cafind 0 0 0", "nsolve 0", "caaddcal 0 0 0 0", "cavector 0 0 0", "cacorr 0 0 0 3", "nalloc 1 0 0 1 1 2", "nasetfv 1 0 0", "namerr 1 0 0",
                  "dalloc 0 1", "caapply 0 0 1 0 1 1 0 0 0", "dinit 0 1 1 1 2", "dsetfv 0 0", "caapply 0 0 0 0 1 1 1 0 0", "cgets 0 0", "pdig 1"],
    # ---- neighbourhoods of D68 / D69: zero frequencies with an unknown and a correlated parameter through add / solve / add_calibration / apply / save;
    # the TRL path (2x2 T8, three standards, two unknowns), well formed and with partial S matrices
    "cal_zero_freq_unknown": ["ccreate 0 1", "cscalar 0 0.45 0.25", "cunknown 0 3", "ccorr 0 4 1 1", "nalloc 0 0 8 1 1 0", "nsetfv 0 0"] + SOL1 +
                             ["nsr 0 1 1 0 0 4 1 0.5 0.3", "nsr 0 1 1 0 0 5 1 0.5 0.3", "nsolve 0", "caddcal 0 cal0 0", "dalloc 0 1", "capply 0 0 0 0 1 1 0 0", "csave 0 0", "cload 1 0 1", "cend 1 0"],
    "cal_trl": ["ccreate 0 1", "cscalar 0 -0.9 0.1", "cunknown 0 3", "cscalar 0 0 -0.8", "cunknown 0 5", "nalloc 0 0 0 2 2 1", "nsetfv 0 0", "nthru 0 2 2 0 0 1 2",
                "nline 0 2 2 0 0 4 0 0 4 1 2 0 -0.6 0 0 -0.6", "nline 0 2 2 0 0 0 6 6 0 1 2 0 0 0.7 0.7 0", "nsolve 0", "cpval 0 4 1e9", "caddcal 0 cal0 0",
                "nalloc 1 0 0 2 2 1", "nsetfv 1 0", "nsr 1 2 2 0 0 4 2 -1 0", "nsr 1 2 2 0 0 6 1 1 0", "nthru 1 2 2 0 0 1 2", "nsolve 1", "cgets 0 0"],
}


def failed(l):
    return l["ret"] in ("-1", "NULL") or l["ret"].startswith("inf")


def cmp_key(l):
    # errno is meaningful only when the call failed
    return (l["op"], l["ret"], l["errno"] if failed(l) else "", l["val"])


class FaultEnum(object):
    def __init__(self, ctx, exe):
        self.ctx = ctx
        self.exe = exe
        self.seen = {}
        self.jobs_run = 0
        self.injected = 0
        self.outcomes = {"still-succeeds": 0, "enomem": 0, "other": 0}
        self.per_op = {}
        self.norepeat_run = 0
        self.norepeat_judged = 0
        self.asbefore_other = {}

    def record(self, sig, what, ops, i, k, err, norepeat=False):
        key = tuple(sorted((a, str(b)) for a, b in sig.items()))
        if key in self.seen:
            return
        self.seen[key] = (sig, what, {"script": ops, "op_index": i, "k": k,
                                      "how": "harness/mem_harness.c <script> <workdir> %d %d%s" % (k, i, " 1   (no repeat of the failed call)" if norepeat else ""),
                                      "stderr": err[-2500:]})

    def sanitize(self, ops, label):
        """drop ops on which the fault-free run itself faults (those are C03's findings)"""
        ops = list(ops)
        for _ in range(10):
            r = mem_gen.run_script(self.ctx, self.exe, ops)
            if r.fault is None:
                return ops, r
            if r.fault_index is None:
                return None, r
            del ops[r.fault_index]
        return None, r

    def check_one(self, ops, r0, i, k):
        # LeakSanitizer's end-of-process scan costs ten times the replay itself and its report is only used to NAME the allocating
        # function when the harness's own final live count differs from the fault-free one: run without it first, and again with
        # it only in that case (crashes / sanitizer reports / assertion failures are detected either way)
        r = mem_gen.run_script(self.ctx, self.exe, ops, k=k, opindex=i, leak=False)
        if r.fault is None and r.completed and r.end != r0.end:
            r = mem_gen.run_script(self.ctx, self.exe, ops, k=k, opindex=i, leak=True)
        return (i, k, r)

    def judge(self, ops, r0, i, k, r, label):
        base = {l["idx"]: l for l in r0.lines}
        opname = ops[i].split(" ")[0]
        where = "op %d `%s` with its allocation request %d failing (history %s)" % (i, ops[i][:60], k, label)
        if r.fault is not None:
            sig = dict(r.fault)
            sig["op"] = opname
            sig["phase"] = "alloc-fault"
            self.record(sig, "%s in %s: %s" % (sig["error"], sig.get("function"), where), ops, i, k, r.err)
            return
        if not r.completed:
            self.record({"kind": "fault", "error": "no-END", "function": None, "op": opname, "phase": "alloc-fault"}, "harness died rc=%d: %s" % (r.rc, where), ops, i, k, r.err)
            return
        if r.fline is None or not r.fline["injected"]:
            return
        self.injected += 1
        first = [l for l in r.lines if l["idx"] == i and not l["rep"]]
        rep = [l for l in r.lines if l["idx"] == i and l["rep"]]
        b = base[i]
        f = first[0]
        self.per_op.setdefault(opname, [0, 0])
        if cmp_key(f) == cmp_key(b):
            self.outcomes["still-succeeds"] += 1
            self.per_op[opname][0] += 1
        else:
            failed_now = bool(r.fline["failed"])
            base_failed = failed(b)
            if not failed_now:
                self.record({"kind": "c12-result", "op": opname},
                            "call neither failed nor gave the fault-free result (%s/%s/%s vs %s/%s/%s): %s" % (
                                f["ret"], f["errno"], f["val"], b["ret"], b["errno"], b["val"], where), ops, i, k, r.err)
            elif f["errno"] != "ENOMEM" and not (base_failed and f["errno"] == b["errno"]):
                self.record({"kind": "c12-errno", "op": opname, "errno": f["errno"]},
                            "call failed with errno %s instead of ENOMEM: %s" % (f["errno"], where), ops, i, k, r.err)
            else:
                self.outcomes["enomem"] += 1
                self.per_op[opname][1] += 1
        # property-setting ops: what the failed call left behind (harness lines S0 / S1) and the form of its expression;
        # the known finding DM55 is matched on these, not on the op name alone
        shape = {}
        if opname in PROP_SETTERS:
            shape = {"tree_after_failure": mem_gen.classify_prop_failure(ops[i], r.states.get("S0"), r.states.get("S1"))}
            if opname in PROP_EXPR_SETTERS:
                shape["expr_form"] = mem_gen.prop_expr_form(ops[i])
        if rep:
            rl = rep[0]
            # (live counts may legitimately differ here: capacities that grew before the failure stay)
            if cmp_key(rl) != cmp_key(b):
                self.record(dict({"kind": "c12-repeat", "op": opname}, **shape),
                            "repeating the call without the fault gives %s/%s/%s, fault-free run gave %s/%s/%s: %s" % (
                                rl["ret"], rl["errno"], rl["val"], b["ret"], b["errno"], b["val"], where), ops, i, k, r.err)
                return
        # usability suffix: every later op must behave as in the fault-free run
        for l in r.lines:
            if l["idx"] <= i:
                continue
            bl = base.get(l["idx"])
            if bl is None or cmp_key(l) != cmp_key(bl):
                self.record(dict({"kind": "c12-state", "op": opname, "later_op": l["op"]}, **shape),
                            "after the failed call the later op %d `%s` gives %s/%s/%s instead of %s: %s" % (
                                l["idx"], ops[l["idx"]][:50], l["ret"], l["errno"], l["val"], (bl["ret"], bl["errno"], bl["val"]) if bl else None, where),
                            ops, i, k, r.err)
                return
        if r.end != r0.end:
            extra = {fn: c - r0.leaks.get(fn, 0) for fn, c in r.leaks.items() if c > r0.leaks.get(fn, 0)}
            for fn in sorted(extra) or [None]:
                self.record({"kind": "c12-leak", "op": opname, "function": fn},
                            "final live count %s instead of %s (blocks allocated in %s): %s" % (r.end, r0.end, fn, where), ops, i, k, r.err)

    def check_norepeat(self, ops, r0, i, k, ref):
        r = mem_gen.run_script(self.ctx, self.exe, ops, k=k, opindex=i, leak=False, norepeat=True)
        if r.fault is None and r.completed and ref is not None and r.end != ref.end:
            r = mem_gen.run_script(self.ctx, self.exe, ops, k=k, opindex=i, leak=True, norepeat=True)
        return (i, k, r)

    def judge_norepeat(self, ops, i, k, r, ref, label):
        """the failed call is NOT repeated: the rest of the history must run without crash / sanitizer report, everything must still be
        freed, and every later op must give what it gives in the history from which the failed call is absent (no half-built object)"""
        opname = ops[i].split(" ")[0]
        where = "op %d `%s` with its allocation request %d failing, the call not repeated (history %s)" % (i, ops[i][:60], k, label)
        if r.fault is not None:
            sig = dict(r.fault)
            sig["op"] = opname
            sig["phase"] = "after-failed-call"
            self.record(sig, "%s in %s: %s" % (sig["error"], sig.get("function"), where), ops, i, k, r.err, norepeat=True)
            return
        if not r.completed:
            self.record({"kind": "fault", "error": "no-END", "function": None, "op": opname, "phase": "after-failed-call"}, "harness died rc=%d: %s" % (r.rc, where), ops, i, k, r.err, norepeat=True)
            return
        if r.fline is None or not r.fline["injected"] or not r.fline["failed"] or ref is None or ref.fault is not None or not ref.completed:
            return
        self.norepeat_judged += 1
        base = {l["idx"]: l for l in ref.lines if not l["rep"]}
        for l in r.lines:
            if l["idx"] <= i or l["rep"]:
                continue
            bl = base.get(l["idx"] - 1)
            if bl is None or cmp_key(l) != cmp_key(bl):
                if not opname.startswith("n"):
                    # "as if the call had never been made" is judged for the calibration builder only (vnacal_new_*: DI90 / DI91 / DI92 were
                    # decided on this criterion).  Elsewhere a failed call may legitimately leave traces the property does not forbid (a file a
                    # failed save created, the part of a file a failed load had read, the conformed path of a property expression): counted, not judged
                    self.asbefore_other[(opname, l["op"])] = self.asbefore_other.get((opname, l["op"]), 0) + 1
                    break
                self.record({"kind": "c12-not-as-before", "op": opname, "later_op": l["op"]},
                            "after the failed call (not repeated) the later op %d `%s` gives %s/%s/%s; in the history without the call it gives %s: %s" % (
                                l["idx"], ops[l["idx"]][:50], l["ret"], l["errno"], l["val"], (bl["ret"], bl["errno"], bl["val"]) if bl else None, where),
                            ops, i, k, r.err, norepeat=True)
                return
        if r.end != ref.end:
            extra = {fn: c - ref.leaks.get(fn, 0) for fn, c in r.leaks.items() if c > ref.leaks.get(fn, 0)}
            for fn in sorted(extra) or [None]:
                self.record({"kind": "c12-leak", "op": opname, "function": fn, "phase": "after-failed-call"},
                            "final live count %s instead of %s (blocks allocated in %s): %s" % (r.end, ref.end, fn, where), ops, i, k, r.err, norepeat=True)

    def enumerate(self, ops, label, budget, norepeat=False):
        """exhaustive in k for every op of the history; returns the number of faulted runs used.
        norepeat: every (op, k) is replayed a second time WITHOUT repeating the failed call (judge_norepeat)"""
        ops, r0 = self.sanitize(ops, label)
        if ops is None:
            return 0
        jobs = []
        for l in r0.lines:
            if l["rep"]:
                continue
            name = l["op"]
            toks = ops[l["idx"]].split(" ")
            if name in COMPOSITE or (name == "psetsub" and toks[-1] != "-") or l["ret"] == "SKIP":
                continue
            for k in range(1, l["da"] + 1):
                jobs.append((l["idx"], k))
        if len(jobs) > budget:
            return -len(jobs)
        self.ctx.count(("history", label, len(jobs)), 0)
        self.ctx.log("history %s: %d ops, %d faulted replays" % (label, len(ops), len(jobs)))
        with concurrent.futures.ThreadPoolExecutor(max_workers=max(2, vplib.NPROC)) as ex:
            results = list(ex.map(lambda j: self.check_one(ops, r0, j[0], j[1]), jobs))
        for i, k, r in sorted(results, key=lambda t: (t[0], t[1])):
            self.jobs_run += 1
            self.ctx.count(("fault", label, i, k))
            self.judge(ops, r0, i, k, r, label)
        if norepeat:
            if norepeat == "ends":
                # first and last request of every op only (the last one is where a call has changed most before it fails)
                per = {}
                for (i, k) in jobs:
                    per.setdefault(i, []).append(k)
                jobs = sorted(set((i, k) for i, ks in per.items() for k in (min(ks), max(ks))))
            # reference for op i: the fault-free history from which op i is absent
            refs = {}
            for i in sorted(set(j[0] for j in jobs)):
                refs[i] = mem_gen.run_script(self.ctx, self.exe, ops[:i] + ops[i + 1:], leak=False)
            with concurrent.futures.ThreadPoolExecutor(max_workers=max(2, vplib.NPROC)) as ex:
                results = list(ex.map(lambda j: self.check_norepeat(ops, r0, j[0], j[1], refs[j[0]]), jobs))
            for i, k, r in sorted(results, key=lambda t: (t[0], t[1])):
                self.norepeat_run += 1
                self.ctx.count(("fault-norepeat", label, i, k))
                self.judge_norepeat(ops, i, k, r, refs[i], label)
        return len(jobs)

    def flush(self):
        inst = []
        for key in sorted(self.seen):
            sig, what, replay = self.seen[key]
            self.ctx.violation(sig, what, replay)
            inst.append({"sig": sig, "op": replay["script"][replay["op_index"]][:80], "k": replay["k"]})
        self.ctx.extra["deviation_instances"] = inst[:60]


def run(ctx):
    ctx.level = "proof"
    ctx.trusted_base = [
        "Coq 8.16.1 kernel (coqc); vm_compute for the refutation witnesses and examples; no native_compute",
        "axioms: none (Print Assumptions: Closed under the global context for every theorem of Properties_C12.v)",
        "hand-written fault-monad models coq/Mem/{PropList,DataAlloc,DataZ0,ParamSlots,HashTab}.v tied to the C code by running the same op scripts "
        "with fail_at = k on the extracted models and with the k-th tracked request failing on the white-box C ops",
        "allocation sequences of everything that is not modelled (solver, loaders, savers, most of the API) are enumerated on the C side only (support): "
        "harness/allocwrap.c (only requests from libvna objects are counted / failed), gcc ASan/UBSan/LSan",
    ]
    ctx.assumptions = ["a failing allocation is modelled as the request returning NULL with errno ENOMEM and no other effect",
                       "libyaml's and libc's internal allocations are never failed (outside the scope the property names)"]
    ctx.rule = ("evaluations = faulted replays (history, op, k), exhaustive in k for every op of every history used; "
                "distinct non-trivial = replays in which the fault was actually injected")
    ok, res = ctx.coq_obligations(mem_tie.C12_VFILES) if mem_tie.C12_VFILES else (True, {})
    exe = ctx.build_harness("mem_harness", san=True, wrap=True)
    fe = FaultEnum(ctx, exe)
    quick = ctx.tier != "thorough"
    total_budget = 3600 if quick else 24000
    used = 0
    skipped = []
    hist = []
    for p in sorted(glob.glob(os.path.join(CORPUS, "*.txt"))):
        hist.append(("corpus/" + os.path.basename(p), [l for l in open(p).read().split("\n") if l and not l.startswith("#")]))
    for name in sorted(DIRECTED):
        hist.append(("directed/" + name, DIRECTED[name]))
    ngen = 6 if quick else 60
    for h in range(ngen):
        mods = [("p",), ("d",), ("c", "n"), ("p", "d", "c", "n")][h % 4]
        ops = mem_gen.gen_script(ctx.rng, 14 if quick else 40, mods, p_bad=0.1)
        hist.append(("gen/%s/%d" % ("".join(mods), h), ops))
    for label, ops in hist:
        # the no-repeat replays: every (op, k) of every history in the thorough tier; in the quick tier every k for a third of the histories
        # (rotating with the seed) and the first and last request of every op for the others
        nr = True if ((not quick) or (zlib.crc32(label.encode()) % 3 == ctx.seed % 3)) else "ends"
        n = fe.enumerate(ops, label, total_budget - used, norepeat=nr)
        if n < 0:
            skipped.append((label, -n))
            continue
        used += n
    tie_broken = mem_tie.run_tie(ctx, exe, "C12")
    # the vnacal_new_t allocation skeleton (coq/Mem/NewAlloc.v): generated histories and every (op, k) of the directed ones
    tie_broken = tie_broken + mem_tie.run_new_tie(ctx, "C12")
    fe.flush()
    ctx.extra["faulted_replays"] = fe.jobs_run
    ctx.extra["faulted_replays_without_repeat"] = fe.norepeat_run
    ctx.extra["failed_calls_judged_without_repeat"] = fe.norepeat_judged
    ctx.extra["not_as_before_outside_the_calibration_builder(op, later op): count - observed, not judged"] = {"%s -> %s" % k: v for k, v in sorted(fe.asbefore_other.items())}
    ctx.extra["faults_injected"] = fe.injected
    ctx.extra["outcomes"] = fe.outcomes
    ctx.extra["per_op_still_succeeds_vs_enomem"] = {k: v for k, v in sorted(fe.per_op.items())}
    ctx.extra["histories_skipped_for_budget"] = skipped
    ctx.extra["modelled_in_fault_monad"] = mem_tie.MODELLED_C12
    ctx.sample({"history": "directed/prop_basic", "ops": DIRECTED["prop_basic"][:5]})
    ctx.notes.append("the (history, op, k) enumeration is support; the forall-k theorems cover only modelled_in_fault_monad")
    if not ok or tie_broken:
        known = vplib.load_known()
        if not any(vplib.match_known(ctx.prop, v.sig, known) is None for v in ctx.violations):
            bad = [v for v, o in res.items() if not o] + tie_broken
            ctx.unproved("C12:" + ",".join(bad)[:200], "Coq obligation or model/C tie broke",
                         "%d faulted replays over %d histories" % (fe.jobs_run, len(hist)))
