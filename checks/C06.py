"""C06 - network data survive save and load in Touchstone 1, Touchstone 2 and NPD.

1. Round-trip harness with an independent oracle: objects of every parameter type are saved by
   vnadata_cksave / vnadata_fsave to a memory stream (file type by extension and by
   vnadata_set_filetype, format lists, precisions 1..17 and MAX, ports 1..6, z0 modes, magnitudes
   1e-12..1e12).  Asserted: cksave accepts iff save succeeds; an independent reader (lib/datafiles.py,
   written from the format descriptions) finds the object's type, dimensions, frequencies, z0 and the
   values in every requested form; vnadata_fload of the bytes reproduces the object; whatever the
   saver accepts the loader accepts.
2. Coq: print_value model and theorems (Files/NumFmtModel.v, Files/NumFmtProofs.v), NPD field
   accounting and the acceptance model (Files/NpdScan.v, Files/SaveModel.v), Properties_C06.v; tied to
   the compiled print_value (harness/datafiles_num.c) and to the saver/loader field counts.
"""
import math
import os
import re

import vplib
import datafiles as D
import c06_ties

MAXP = D.MAXP
NPD_SCALAR = ("IL", "RL", "VSWR")
NPD_ZIN = ("PRC", "PRL", "SRC", "SRL")


# ------------------------------------------------------------------------------------------------
# generation
# ------------------------------------------------------------------------------------------------
def rand_s(rng, n):
    m = []
    for r in range(n):
        for c in range(n):
            mag = rng.uniform(0.1, 0.4)
            m.append(complex(*[mag * x for x in (math.cos(rng.uniform(0, 6.283)), math.sin(rng.uniform(0, 6.283)))]))
    return m


def gen_z0(rng, mode, ports, nf):
    if mode == "equal50":
        return [50 + 0j] * ports, None
    if mode == "equal":
        v = rng.choice([1.0, 75.0, 12.5, 600.0, 51.37])
        return [complex(v, 0)] * ports, None
    if mode == "unequal":
        return [complex(rng.choice([25.0, 50.0, 75.0, 100.0, 37.5]) + (0.5 * p), 0) for p in range(ports)], None
    if mode == "complex":
        return [complex(rng.uniform(20, 90), rng.uniform(-20, 20)) for _ in range(ports)], None
    return None, [[complex(rng.uniform(20, 90), rng.uniform(-20, 20)) for _ in range(ports)] for _ in range(nf)]


def entry_param(e, objtype):
    """(parameter type, form) of a format-list entry (as documented in vnadata(3))."""
    u = e.upper()
    if u in NPD_SCALAR:
        return "S", u
    if u in NPD_ZIN:
        return "ZIN", u
    if u.startswith("ZIN"):
        return "ZIN", (u[3:] or "RI")
    if u in ("RI", "MA", "DB"):
        return objtype, u
    return u[0], (u[1:] or "RI")


def gen_case(rng, k, tier):
    types = ["S", "Z", "Y", "T", "U", "H", "G", "A", "B", "ZIN"]
    t = types[k % len(types)] if k < 400 else rng.choice(types)
    if t in D.TWO_PORT_ONLY:
        ports = 2
    else:
        ports = 1 + (k // len(types)) % 6 if k < 400 else rng.randint(1, 6)
    nf = rng.randint(1, 3)
    zmode = rng.choice(["equal50", "equal", "unequal", "complex", "perf", "equal50", "equal"])
    z0, fz0 = gen_z0(rng, zmode, ports, nf)
    # ascending and still distinct after rounding to one significant digit (Touchstone wants them ascending)
    e10 = rng.randint(3, 10)
    digs = sorted(rng.sample(range(1, 10), nf))
    noise = 0.0 if rng.random() < 0.3 else 0.04
    freqs = [d * 10.0 ** e10 * (1 + rng.uniform(0, noise)) for d in digs]
    # file kind
    kind = rng.choice(["npd", "npd", "snp", "ts", "set_ts1", "set_ts2", "set_npd", "auto_none", "ts_keep_ts1", "NPD"])
    setft = None
    if kind == "npd":
        name = "a.npd"
    elif kind == "NPD":
        name = "a.b.NPD"
    elif kind == "snp":
        # the extension is what follows the LAST dot of the last path component
        name = rng.choice(["dir.x/a.s%dp", "dir.x/amp_rev1.2.s%dp", "amp.25degC.s%dp"]) % ports
    elif kind == "ts":
        name = rng.choice(["a.ts", "run.3/amp.v2.ts", "b.npd.ts"])
    elif kind == "set_ts1":
        name, setft = "data", D.FT_TS1
    elif kind == "set_ts2":
        name, setft = "data.txt", D.FT_TS2
    elif kind == "set_npd":
        name, setft = "data.out", D.FT_NPD
    elif kind == "ts_keep_ts1":
        name, setft = rng.choice(["a.ts", "x.y/a.1.ts"]), D.FT_TS1
    else:
        name = "noextension"
    touch = kind in ("snp", "ts", "set_ts1", "set_ts2", "ts_keep_ts1")
    if touch and rng.random() < 0.7:
        # steer towards what Touchstone can hold so that the accepted part is well covered
        if t in ("T", "U", "A", "B", "ZIN") and rng.random() < 0.8:
            t = rng.choice(["S", "Z", "Y", "H", "G"])
            if t in ("H", "G"):
                ports = 2
                z0, fz0 = gen_z0(rng, zmode, ports, nf)
        if zmode in ("complex", "perf"):
            zmode = rng.choice(["equal50", "equal", "unequal"])
            z0, fz0 = gen_z0(rng, zmode, ports, nf)
    # format list
    mat_types = ["S", "Z", "Y"] + (["T", "U", "H", "G", "A", "B"] if ports == 2 or rng.random() < 0.15 else [])
    forms = ["ri", "ma", "dB", ""]
    if touch:
        r = rng.random()
        if r < 0.35:
            fmt = rng.choice(["ri", "ma", "db", None])
        elif r < 0.9:
            fmt = rng.choice(["S", "Z", "Y", "H", "G"] if ports == 2 else ["S", "Z", "Y", "S", "Z", "Y", "H"]) + rng.choice(forms)
        else:
            fmt = rng.choice(["Tri", "zinri", "IL", "Sri,Zri", "PRC", "Ama"])
    else:
        n = rng.choice([1, 1, 2, 2, 3, 4])
        ents = []
        for _ in range(n):
            r = rng.random()
            if r < 0.15:
                ents.append(rng.choice(["ri", "ma", "db"]))
            elif r < 0.6:
                ents.append(rng.choice(mat_types) + rng.choice(forms))
            elif r < 0.72:
                ents.append("Zin" + rng.choice(["ri", "ma", ""]))
            elif r < 0.86:
                ents.append(rng.choice(NPD_ZIN))
            else:
                ents.append(rng.choice(NPD_SCALAR))
        fmt = ",".join(ents)
        if rng.random() < 0.1:
            fmt = None
        elif rng.random() < 0.2:
            fmt = fmt.upper() if rng.random() < 0.5 else fmt.replace(",", " , ")
    precs = list(range(1, 18)) + [MAXP, MAXP, MAXP]
    fprec = rng.choice(precs)
    dprec = rng.choice(precs)
    # data: derived from a well conditioned S matrix; directly stored forms also get wild magnitudes
    data = []
    ents = [entry_param(e.strip(), t) for e in (fmt.split(",") if fmt else ["ri"])]
    direct = all(pt == t and form in ("RI", "MA", "DB") for pt, form in ents)
    ts1_norm = touch       # Touchstone 1 normalisation goes through S: keep those well conditioned
    scale = direct and not ts1_norm and rng.random() < 0.7
    for i in range(nf):
        zz = fz0[i] if fz0 is not None else z0
        s = rand_s(rng, ports)
        m = D.convert(s, "S", t, zz)
        if scale:
            m = [x * 10 ** rng.uniform(-12, 12) for x in m]
        elif direct and rng.random() < 0.2:
            k10 = 10 ** rng.uniform(-3, 3)
            m = [x * k10 for x in m]
        data.append(m)
    rows, cols = (1, ports) if t == "ZIN" else (ports, ports)
    obj = D.Obj(t, rows, cols, freqs, data, z0=z0, fz0=fz0)
    # vnadata_cksave persists what it derives (file type promotion, default format): half of the cases save an
    # object that was never checked first, and ask cksave afterwards
    save_first = rng.random() < 0.5
    return {"id": "c%d" % k, "obj": obj, "name": name, "setft": setft, "format": fmt, "fprec": fprec,
            "dprec": dprec, "kind": kind, "zmode": zmode, "scaled": scale, "save_first": save_first}


# a small unrelated NPD file: loading it gives an object a format ("Sma"), a file type and precisions of its own
OTHER_NPD = ("#NPD\n#:version 1.0\n#:ports 1\n#:frequencies 1\n#:parameters Sma\n#:z0 75 +0j\n#:fprecision 5\n#:dprecision 4\n"
             "1e9 0.5 +30.0\n")


def history_cmds(c):
    """Commands that bring slot 0 into the state c["obj"] through a HISTORY (format set then cleared, conversion into a
    second object, objects that were loaded or saved before); the data are carried exactly (same-type conversion = copy).
    The last command dumps slot 0.  After any of these histories the object to be saved has NO format of its own."""
    o, h, stale = c["obj"], c["history"], c["stale"]
    t = D.TYPE_ID[o.type]
    other = OTHER_NPD.encode("latin-1").hex()
    if h == "conv_copy":              # A: format set, cleared; B = vnadata_convert(A, B, same type)
        cmds = o.cmds(2) + ["format 2 %s" % stale, "format 2 -", "convert 2 0 %d" % t]
    elif h == "conv_chain":           # carried through two objects
        cmds = o.cmds(2) + ["format 2 %s" % stale, "format 2 -", "convert 2 3 %d" % t, "convert 3 0 %d" % t]
    elif h == "conv_into_loaded":     # B was loaded from a file before (has a format of its own), then receives A
        cmds = ["new 0 -1 0 0 0", "load 0 other.npd %s" % other] + o.cmds(2) + ["format 2 %s" % stale, "format 2 -",
                                                                                  "convert 2 0 %d" % t]
    elif h == "conv_into_saved":      # B held the data and was saved with a format before, then receives A
        cmds = o.cmds(0) + ["format 0 %s" % stale, "save 0 earlier.npd"] + o.cmds(2) + ["format 2 %s" % stale, "format 2 -",
                                                                                         "convert 2 0 %d" % t]
    elif h == "untyped_save_convert":  # untyped format, saved, then the type changed in place: the format stays untyped (DA90)
        cmds = c["obj0"].cmds(0) + ["format 0 %s" % c["format"], "save 0 first.npd", "convert 0 0 %d" % t]
    elif h == "cksave_first":         # vnadata_cksave is a check: format and file type as set afterwards (DA90)
        cmds = o.cmds(0) + ["format 0 %s" % c["format"], "filetype 0 %d" % D.FT_TS1, "cksave 0 x.ts"]
    else:                             # saved_before: the object itself was saved with another format earlier
        cmds = o.cmds(0) + ["format 0 %s" % stale, "save 0 earlier.npd", "format 0 -"]
    return cmds + ["dump 0"]


def case_cmds(c):
    cmds = history_cmds(c) if c.get("history") else c["obj"].cmds(0)
    if c["setft"] is not None:
        cmds.append("filetype 0 %d" % c["setft"])
    if c["format"] is not None and not c.get("keep_format"):
        cmds.append("format 0 %s" % c["format"])
    cmds.append("fprec 0 %d" % c["fprec"])
    cmds.append("dprec 0 %d" % c["dprec"])
    if c.get("save_first"):
        cmds += ["save 0 %s" % c["name"], "cksave 0 %s" % c["name"], "new 1 -1 0 0 0"]
    else:
        cmds += ["cksave 0 %s" % c["name"], "save 0 %s" % c["name"], "new 1 -1 0 0 0"]
    if c["setft"] is not None:
        cmds.append("filetype 1 %d" % c["setft"])
    cmds += ["load 1 %s @" % c["name"], "dump 1", "dump 0"]
    return cmds


# ------------------------------------------------------------------------------------------------
# evaluation
# ------------------------------------------------------------------------------------------------
def expected_filetype(c):
    """File type according to vnadata(3): extension first, then the type set, then NPD; a file
    named .ts keeps a previously set Touchstone 1 type unless version 2 is needed."""
    name = c["name"]
    base = name.rsplit("/", 1)[-1]
    ext = base.rsplit(".", 1)[1].lower() if "." in base else ""
    o = c["obj"]
    if ext == "npd":
        return "NPD"
    if re.match(r"^s\d+p$", ext):
        return "TS1"
    if ext == "ts":
        if c["setft"] == D.FT_TS1:
            z = o.z0 or []
            if o.ports > 4 or any(x != z[0] for x in z):
                return "TS2"
            return "TS1"
        return "TS2"
    return {None: "NPD", D.FT_AUTO: "NPD", D.FT_TS1: "TS1", D.FT_TS2: "TS2", D.FT_NPD: "NPD"}[c["setft"]]


def sniff(text):
    if text.startswith("#NPD"):
        return "NPD"
    if text.upper().startswith("[VERSION] 2"):
        return "TS2"
    return "TS1"


class Bad(Exception):
    def __init__(self, cls, msg):
        Exception.__init__(self, msg)
        self.cls = cls


def tok_tol(p, true, slack):
    if p == MAXP:
        return slack
    return 0.5 * 10.0 ** (1 - p) * abs(true) * (1 + 1e-9) + 4e-16 * abs(true) + slack


def check_scalar(what, tok, parsed, true, p, slack):
    if true != true or math.isinf(true):
        if not (D.same_float(parsed, true)):
            raise Bad("value", "%s: file has %s, object value is %r" % (what, tok, true))
        return
    if abs(parsed - true) > tok_tol(p, true, slack):
        raise Bad("value", "%s: file has %s (= %r), object value is %r, precision %d" % (what, tok, parsed, true, p))


def check_pair(what, form, toks, a, b, x, p, slack_rel, scale):
    """One printed pair against the complex value x it must denote, in the given coordinate form."""
    ap = max(p, 3)
    slack = slack_rel * scale
    if form == "RI":
        check_scalar(what + " real", toks[0], a, x.real, p, slack)
        check_scalar(what + " imaginary", toks[1], b, x.imag, p, slack)
        return
    mag = abs(x)
    if form == "MA":
        check_scalar(what + " magnitude", toks[0], a, mag, p, slack)
    else:
        if mag == 0:
            if a != float("-inf"):
                raise Bad("value", "%s: dB of 0 printed as %s" % (what, toks[0]))
        else:
            db = 20 * math.log10(mag)
            check_scalar(what + " dB", toks[0], a, db, p, 1e-9 + 8.7 * slack_rel * scale / mag)
    if mag == 0 or mag * 1e6 < scale * 1 and slack_rel > 0:
        return      # the angle of a (nearly) cancelled value carries no information
    ang = math.degrees(math.atan2(x.imag, x.real))
    if ap == MAXP:
        atol = 1e-9 + math.degrees(slack / mag)
    else:
        dec = D.frac_digits(toks[1])
        if dec is None:
            raise Bad("value", "%s: angle %s is not in fixed notation" % (what, toks[1]))
        atol = 0.5 * 10.0 ** (-dec) * (1 + 1e-9) + 1e-9 + math.degrees(slack / mag)
    d = abs(b - ang)
    d = min(d, abs(d - 360))
    if d > atol:
        raise Bad("value", "%s: angle %s, object value has %r degrees" % (what, toks[1], ang))


def load_tolerance(p, form, x_scale_db=0.0):
    if p == MAXP:
        return 1e-9
    t = 2.5 * 10.0 ** (1 - p) + 1e-14
    if form == "DB":
        t *= (1 + 0.12 * x_scale_db)
    return t


def evaluate(ctx, c, lines, stats):
    """Returns None or (sig, what)."""
    o = c["obj"]
    if c.get("history"):
        n = len(history_cmds(c))
        pre, lines = lines[:n], lines[n:]
        if len(pre) < n or any(l.startswith("FAULT") for l in pre):
            return None
        if any(l.split()[1] != "0" for l in pre if l.split()[0] in ("SET", "NEW", "LOAD", "SAVE")):
            stats["setter_refused"] += 1          # the stale format is not one vnadata_set_format takes: no history
            return None
        before = D.parse_dump(pre[-1])
        if before is not None and c["history"] == "untyped_save_convert" and \
                (before.type, before.rows, before.cols, len(before.freqs)) == (o.type, o.rows, o.cols, len(o.freqs)):
            # the data are what the library's in-place conversion produced: they are the object that is saved
            before.meta0 = before.meta
            c = dict(c)
            c["obj"] = o = before
        if before is None or not D.obj_equal(before, o):
            return ({"kind": "history", "class": "object", "history": c["history"]},
                    "history %s: the object to be saved is not the one that was built (type %s %dx%d)"
                    % (c["history"], o.type, o.rows, o.cols))
        want_fmt = c.get("hist_format", "-")
        if before.meta["format"] != want_fmt:
            # reported only when the file itself shows nothing (the written forms are judged first, below)
            c["_stale"] = ({"kind": "history", "class": "stale_format", "history": c["history"]},
                    "history %s (format %s): the object to be saved reports the format %r, the format in force is %r"
                    % (c["history"], c.get("stale") or c["format"], before.meta["format"], want_fmt))
        elif c.get("hist_filetype") is not None and before.meta["filetype"] != c["hist_filetype"]:
            c["_stale"] = ({"kind": "history", "class": "filetype_changed_by_check", "history": c["history"]},
                    "history %s: vnadata_get_filetype reports %d after vnadata_cksave, %d was set"
                    % (c["history"], before.meta["filetype"], c["hist_filetype"]))
    it = iter(lines)
    got = {}
    for ln in lines:
        k = ln.split(" ", 1)[0]
        got.setdefault(k, []).append(ln)
    if "FAULT" in got:
        return None       # reported by the caller from the sanitizer output
    sets = got.get("SET", [])
    if any(s.split()[1] != "0" for s in sets):
        # a setter refused (invalid format string): nothing to save
        stats["setter_refused"] += 1
        return None
    ck = got["CKSAVE"][0].split(" # ")[0].split()
    sv = got["SAVE"][0].split(" # ")[0].split()
    ckrc, svrc = int(ck[1]), int(sv[1])
    fmt_entries = [e.strip() for e in (c["format"].split(",") if c["format"] else ["ri"])]
    ents = [entry_param(e, o.type) for e in fmt_entries]
    if ckrc != svrc:
        fam = sorted(set(pt for pt, _ in ents))
        return ({"kind": "cksave_vs_save", "cksave": ckrc, "save": svrc,
                 "two_port_form_on_nport": bool(o.ports != 2 and any(pt in D.TWO_PORT_ONLY for pt, _ in ents))},
                "vnadata_cksave returned %d but vnadata_fsave returned %d (%s; type %s %dx%d, format %s, file %s): %s"
                % (ckrc, svrc, sv[2], o.type, o.rows, o.cols, c["format"], c["name"],
                   got["SAVE"][0].split(" # ", 1)[1]))
    if svrc != 0:
        if ck[2] not in ("EINVAL",) or int(ck[3]) != 1:
            return ({"kind": "refusal_report", "errno": ck[2]},
                    "save refused with errno %s and %s error reports" % (ck[2], ck[3]))
        stats["refused"] += 1
        return c.get("_stale")
    stats["accepted"] += 1
    text = bytes.fromhex(sv[6]).decode("latin-1") if sv[6] != "-" else ""
    ft = sniff(text)
    eft = expected_filetype(c)
    if ft != eft:
        return ({"kind": "filetype", "expected": eft, "found": ft},
                "file %s with filetype setting %s was written as %s, vnadata(3) says %s" % (c["name"], c["setft"], ft, eft))
    stats["by_kind"][ft] = stats["by_kind"].get(ft, 0) + 1
    p, fp = c["dprec"], c["fprec"]
    ld = got["LOAD"][0].split(" # ")
    ldrc = int(ld[0].split()[1])
    loaded = D.parse_dump(got["DUMP"][0])
    after = D.parse_dump(got["DUMP"][1])
    try:
        if not D.obj_equal(after, o):
            raise Bad("mutated", "the saved object changed during save")
        converted = any(pt != o.type for pt, _ in ents)
        if ft == "NPD":
            check_npd(c, text, ents, fmt_entries)
        else:
            check_touchstone(c, text, ft, ents)
    except Bad as e:
        return ({"kind": "file_content", "class": e.cls, "filetype": ft}, "%s %s (type %s %dx%d z0 %s, format %s, dprecision %d): %s"
                % (ft, c["name"], o.type, o.rows, o.cols, c["zmode"], c["format"], p, e))
    except (D.FormatError, ValueError, KeyError, IndexError) as e:
        return ({"kind": "file_content", "class": "unreadable", "filetype": ft},
                "%s file written for format %s cannot be read by the independent reader: %r" % (ft, c["format"], e))
    # ---- the library's own loader
    nerr = int(ld[0].split()[3])
    if ldrc == 0 and nerr != 0:
        return ({"kind": "load_reports_error_but_succeeds", "filetype": ft},
                "vnadata_fload returned 0 after reporting an error: %s" % (ld[1] if len(ld) > 1 else ""))
    if ldrc != 0 and ft != "NPD" and not freqs_ascending_as_written(o.freqs, fp):
        # known finding DA91: the saver writes them, the Touchstone loader insists on strictly ascending, non-negative frequencies
        return ({"kind": "saver_accepts_loader_rejects", "filetype": "touchstone",
                 "class": "frequencies not strictly ascending at fprecision"},
                "vnadata_fsave wrote the %s file (rc 0), vnadata_fload refuses it: the frequencies %s are not strictly ascending "
                "and non-negative as written at fprecision %d (%s): %s"
                % (ft, [float(x).hex() for x in o.freqs], fp, freq_texts(o.freqs, fp), ld[1] if len(ld) > 1 else ""))
    if ldrc != 0:
        only_scalar = all(form in NPD_SCALAR for _, form in ents)
        return ({"kind": "saver_accepts_loader_rejects", "filetype": ft, "only_scalar_forms": only_scalar,
                 "il_with_more_than_2_ports": bool(any(form == "IL" for _, form in ents) and o.ports > 2 and not only_scalar)},
                "vnadata_fload rejects the %s file vnadata_fsave wrote (format %s, %d ports): %s"
                % (ft, c["format"], o.ports, ld[1] if len(ld) > 1 else ""))
    try:
        check_loaded(c, ft, ents, loaded)
    except Bad as e:
        return ({"kind": "load_result", "class": e.cls, "filetype": ft}, "%s %s (type %s %dx%d z0 %s, format %s, precisions %d/%d): %s"
                % (ft, c["name"], o.type, o.rows, o.cols, c["zmode"], c["format"], fp, p, e))
    return c.get("_stale")


def freq_texts(freqs, fp):
    return [f.hex() if fp == MAXP else "%.*e" % (max(fp, 1) - 1, f) for f in freqs]


def freqs_ascending_as_written(freqs, fp):
    vals = [float.fromhex(t) if fp == MAXP else float(t) for t in freq_texts(freqs, fp)]
    return all(v >= 0 for v in vals) and all(a < b for a, b in zip(vals, vals[1:]))


def gen_freq_case(rng, k):
    """Frequencies that do not read back strictly ascending: equal at fprecision, descending, negative (DA91)."""
    c = gen_case(rng, 400 + k, "quick")
    o = c["obj"]
    c["id"] = "f%d" % k
    kind = ["collapse", "descending", "negative"][k % 3]
    n = len(o.freqs)
    if n < 2:
        kind = "negative"
    if kind == "collapse":
        if c["fprec"] == MAXP or c["fprec"] > 7:
            c["fprec"] = rng.randint(1, 7)
        base = rng.choice([1.0, 2.5, 9.75]) * 10.0 ** rng.randint(3, 10)
        o.freqs = [base * (1 + 1e-9 * i) for i in range(n)]
    elif kind == "descending":
        o.freqs = sorted(o.freqs, reverse=True)
    else:
        o.freqs = sorted([-abs(o.freqs[0])] + list(o.freqs[1:]))
    c["freq_kind"] = kind
    return c


def check_freq(tok, parsed, f, fp):
    check_scalar("frequency", tok, parsed, f, fp, 0.0)


def check_npd(c, text, ents, fmt_entries):
    o = c["obj"]
    p, fp = c["dprec"], c["fprec"]
    r = D.read_npd(text)
    if r["version"] != "1.0":
        raise Bad("header", "version %r" % r["version"])
    if r["ports"] != o.ports or r["frequencies"] != len(o.freqs):
        raise Bad("header", "ports/frequencies %d/%d for a %d-port object with %d frequencies"
                  % (r["ports"], r["frequencies"], o.ports, len(o.freqs)))
    if len(r["rows"]) != len(o.freqs):
        raise Bad("layout", "%d data lines for %d frequencies" % (len(r["rows"]), len(o.freqs)))
    if r["fprecision"] != fp or r["dprecision"] != p:
        raise Bad("header", "precisions %d/%d in the header, %d/%d set" % (r["fprecision"], r["dprecision"], fp, p))
    names = [x.upper() for x in r["parameters"]]
    want = []
    for (pt, form), e in zip(ents, fmt_entries):
        if form in NPD_SCALAR or form in NPD_ZIN:
            want.append(form)
        else:
            want.append((pt if pt != "ZIN" else "ZIN") + form)
    if names != [w.upper() for w in want]:
        raise Bad("header", "#:parameters %s for format %s" % (r["parameters"], c["format"]))
    if o.fz0 is not None:
        if r["z0"] != "PER-FREQUENCY":
            raise Bad("header", "z0 line %r for per-frequency z0" % (r["z0"],))
    else:
        if r["z0"] is None or r["z0"] == "PER-FREQUENCY":
            raise Bad("header", "z0 line %r" % (r["z0"],))
        for port, (zf, zo) in enumerate(zip(r["z0"], o.z0)):
            if abs(zf.real - zo.real) > tok_tol(p, zo.real, 0) or abs(zf.imag - zo.imag) > tok_tol(p, zo.imag, 0):
                raise Bad("z0", "z0 of port %d is %r in the header, %r in the object" % (port + 1, zf, zo))
    den, toks = D.npd_denotation(r)
    n = o.ports
    sep = "," if n > 9 else ""
    for i, (d, tk) in enumerate(zip(den, toks)):
        check_freq(tk["frequency"][0], d["frequency"], o.freqs[i], fp)
        zz = o.z0_at(i)
        if o.fz0 is not None:
            for port in range(n):
                zf = d["Z%d" % (port + 1)]
                check_pair("per-frequency z0 %d" % (port + 1), "RI", tk["Z%d" % (port + 1)], zf.real, zf.imag, zz[port], p, 0.0, 1.0)
        seen = {}
        for (pt, form) in ents:
            true = D.convert(o.data[i], o.type, pt, zz) if pt != o.type else o.data[i]
            conv = pt != o.type
            scale = max([abs(x) for x in true] + [1e-300])
            slack_rel = 2e-11 if conv else 0.0
            if form in ("RI", "MA", "DB"):
                if pt == "ZIN":
                    for port in range(n):
                        nm = "Zin%d" % (port + 1)
                        a, b, q, unit = d[nm + "#raw"]
                        fform = "RI" if q == "real" else "MA"
                        check_pair(nm, fform, tk[nm], a, b, true[port], p, slack_rel, abs(true[port]))
                else:
                    for rr in range(n):
                        for cc in range(n):
                            nm = "%s%d%s%d" % (pt, rr + 1, sep, cc + 1)
                            # the same name can occur twice (e.g. Sri,Sma): the denotation keeps the last;
                            # both are checked through the raw tokens of their own occurrence below
                            a, b, q, unit = d[nm + "#raw"]
                            fform = "RI" if q == "real" else ("DB" if unit == "dB" else "MA")
                            check_pair(nm, fform, tk[nm], a, b, true[rr * n + cc], p, slack_rel, scale)
            elif form in NPD_ZIN:
                for port in range(n):
                    nm = "%s%d" % (form, port + 1)
                    z = d[nm]
                    tz = true[port]
                    pe = (10.0 ** (1 - p) if p != MAXP else 0.0) + (10.0 ** (1 - fp) if fp != MAXP else 0.0)
                    tol = (4 * pe + 1e-9) * (abs(tz) / min(abs(tz.real), abs(tz.imag)) if form[0] == "P" else 1.0)
                    if abs(z - tz) > tol * abs(tz) + 1e-9 * abs(tz):
                        raise Bad("value", "%s at %g Hz rebuilds Zin = %r, object has %r" % (nm, o.freqs[i], z, tz))
            elif form == "IL":
                for rr in range(n):
                    for cc in range(n):
                        if rr != cc:
                            nm = "IL%d%s%d" % (rr + 1, sep, cc + 1)
                            tv = -20 * math.log10(abs(true[rr * n + cc]))
                            check_scalar(nm, tk[nm][0], d[nm], tv, p, 1e-9)
            elif form == "RL":
                for port in range(n):
                    nm = "RL%d" % (port + 1)
                    tv = -20 * math.log10(abs(true[port * n + port]))
                    check_scalar(nm, tk[nm][0], d[nm], tv, p, 1e-9)
            elif form == "VSWR":
                for port in range(n):
                    nm = "VSWR%d" % (port + 1)
                    a = abs(true[port * n + port])
                    check_scalar(nm, tk[nm][0], d[nm], (1 + a) / abs(1 - a), p, 1e-9)
    # field count: 1 + z0 + what every entry prescribes
    nfields = 1 + (2 * n if o.fz0 is not None else 0)
    for pt, form in ents:
        if form in ("RI", "MA", "DB"):
            nfields += 2 * n if pt == "ZIN" else 2 * n * n
        elif form in NPD_ZIN:
            nfields += 2 * n
        elif form == "IL":
            nfields += n * (n - 1)
        else:
            nfields += n
    if len(r["key"]) != nfields:
        raise Bad("layout", "the key lists %d fields, the format list prescribes %d" % (len(r["key"]), nfields))


def check_touchstone(c, text, ft, ents):
    o = c["obj"]
    p, fp = c["dprec"], c["fprec"]
    n = o.ports
    r = D.read_touchstone(text)
    pt, form = ents[0]
    if r["version"] != (2 if ft == "TS2" else 1):
        raise Bad("header", "version")
    if r["type"] != pt or r["format"] != form:
        raise Bad("header", "option line says %s %s, requested %s %s" % (r["type"], r["format"], pt, form))
    if r["mult"] != 1.0:
        raise Bad("header", "unit")
    if r["ports"] != n:
        raise Bad("layout", "%d ports found for a %d-port object" % (r["ports"], n))
    if len(r["freqs"]) != len(o.freqs):
        raise Bad("layout", "%d frequencies found, object has %d" % (len(r["freqs"]), len(o.freqs)))
    zo = o.z0
    if abs(r["R"] - zo[0].real) > tok_tol(p, zo[0].real, 0):
        raise Bad("z0", "R %r for z0 %r" % (r["R"], zo[0]))
    if ft == "TS2":
        for port in range(n):
            if abs(r["reference"][port] - zo[port].real) > tok_tol(p, zo[port].real, 0):
                raise Bad("z0", "[Reference] %r for z0 %r" % (r["reference"], zo))
    for i in range(len(o.freqs)):
        if abs(r["freqs"][i] - o.freqs[i]) > tok_tol(fp, o.freqs[i], 0):
            raise Bad("frequency", "frequency %r for %r at precision %d" % (r["freqs"][i], o.freqs[i], fp))
        true = D.convert(o.data[i], o.type, pt, zo) if pt != o.type else list(o.data[i])
        conv = pt != o.type
        if ft == "TS1":
            # version 1 files hold values normalised to the reference resistance
            R = zo[0].real
            if pt == "Z":
                true = [x / R for x in true]
            elif pt == "Y":
                true = [x * R for x in true]
            elif pt == "H":
                true = [true[0] / R, true[1], true[2], true[3] * R]
            elif pt == "G":
                true = [true[0] * R, true[1], true[2], true[3] / R]
            if pt != "S" and R != 1.0:
                conv = True
        scale = max([abs(x) for x in true] + [1e-300])
        slack_rel = 2e-11 if conv else 0.0
        for ((rr, cc), a, b, ta, tb) in r["raws"][i]:
            check_pair("%s%d%d at frequency %d" % (pt, rr + 1, cc + 1, i), form, (ta, tb), a, b,
                       true[rr * n + cc], p, slack_rel, scale)


def check_loaded(c, ft, ents, L):
    o = c["obj"]
    p, fp = c["dprec"], c["fprec"]
    n = o.ports
    if not L.meta["consistent"]:
        raise Bad("digest", "inconsistent digest")
    if len(L.freqs) != len(o.freqs) or L.ports != n:
        raise Bad("dims", "loaded %d ports / %d frequencies, saved %d / %d" % (L.ports, len(L.freqs), n, len(o.freqs)))
    cands = [(pt, form) for pt, form in ents if form in ("RI", "MA", "DB") or form in NPD_ZIN]
    if L.type not in [pt for pt, _ in cands]:
        raise Bad("type", "loaded type %s is not among the saved parameters %s" % (L.type, ents))
    if len(set(pt for pt, _ in cands)) == 1 and L.type != cands[0][0]:
        raise Bad("type", "loaded type %s, saved %s" % (L.type, cands[0][0]))
    if any(pt == o.type for pt, _ in cands) and len(set(pt for pt, _ in cands)) == 1 and L.type != o.type:
        raise Bad("type", "loaded type %s, object type %s" % (L.type, o.type))
    if (L.rows, L.cols) != ((1, n) if L.type == "ZIN" else (n, n)):
        raise Bad("dims", "loaded %dx%d for type %s" % (L.rows, L.cols, L.type))
    for i, (a, b) in enumerate(zip(L.freqs, o.freqs)):
        if abs(a - b) > tok_tol(fp, b, 0):
            raise Bad("frequency", "loaded frequency %r, saved %r, precision %d" % (a, b, fp))
    ztol = 0.0 if p == MAXP else 0.5 * 10.0 ** (1 - p) * (1 + 1e-9) + 4e-16
    if ft == "NPD":
        if (L.fz0 is not None) != (o.fz0 is not None):
            raise Bad("z0", "per-frequency z0 mode not reproduced")
    for i in range(len(o.freqs)):
        zl, zo = (L.z0_at(i), o.z0_at(i)) if len(o.freqs) else ([], [])
        for port in range(n):
            if ft == "TS1":
                ref = complex(o.z0[0].real, 0)
            elif ft == "TS2":
                ref = complex(o.z0[port].real, 0)
            else:
                ref = zo[port]
            if abs(zl[port].real - ref.real) > ztol * abs(ref.real) or abs(zl[port].imag - ref.imag) > ztol * abs(ref.imag):
                raise Bad("z0", "loaded z0 of port %d is %r, saved %r (precision %d)" % (port + 1, zl[port], ref, p))
        forms = [form for pt, form in cands if pt == L.type]
        exact = (p == MAXP and L.type == o.type and "RI" in forms and not (ft == "TS1" and L.type != "S" and o.z0[0] != 1.0))
        true = o.data[i] if L.type == o.type else D.convert(o.data[i], o.type, L.type, zo)
        if exact:
            if not all(D.same_complex(x, y) for x, y in zip(L.data[i], true)):
                raise Bad("value", "values not reproduced exactly at maximum precision in RI: loaded %r, saved %r" % (L.data[i], true))
            continue
        scale = max([abs(x) for x in true] + [1e-300])
        for k, (x, y) in enumerate(zip(L.data[i], true)):
            worst = 0.0
            for form in set(forms):
                if form == "DB":
                    t = load_tolerance(p, "DB", abs(20 * math.log10(abs(y))) if y != 0 else 0)
                elif form in NPD_ZIN:
                    t = (load_tolerance(p, form) + load_tolerance(fp, form)) * (4 * abs(y) / max(min(abs(y.real), abs(y.imag)), 1e-300) if form[0] == "P" else 4)
                else:
                    t = load_tolerance(p, form)
                worst = max(worst, t)
            # converted or normalised data: error relative to the matrix scale; direct data: per cell
            if L.type != o.type or ft == "TS1":
                err = abs(x - y) / scale
                worst += 1e-9
            else:
                err = D.relerr(x, y) if abs(y) > 0 else (0.0 if abs(x) == 0 else float("inf"))
            if not err <= worst:
                raise Bad("value", "cell %d at frequency %d: loaded %r, saved %r (relative error %.3g, allowed %.3g for %s at precision %d)"
                          % (k, i, x, y, err, worst, sorted(set(forms)), p))


# ------------------------------------------------------------------------------------------------
def run(ctx):
    ctx.level = "proof"
    ctx.trusted_base = [
        "Coq 8.16.1 kernel (coqc); vm_compute for witnesses; no axioms (Print Assumptions: Closed under the global context)",
        "section hypothesis: printf(\"%.*e\") yields a digit string d1.d2..dp e+-XX that is the correctly rounded decimal (glibc); the "
        "theorems start from that digit string",
        "hand-written models coq/Files/NumFmtModel.v, NpdScan.v, SaveModel.v, SaveEmit.v (+ the loader models TsTok.v / TsParse.v of C08), "
        "tied on every run to the compiled code (harness/datafiles_num.c includes vnadata_save.c; field counts, acceptance and the "
        "token stream of the written file through harness/datafiles_harness.c)",
        "section hypotheses of load_save_id_touchstone1/2 and load_save_id_npd: strtod of print_value's / the angle's text is rd "
        "(ptext_word, atext_word, ptext_field, atext_field), strtol reads %d back (itext_int, itext_field), sign kept (rd_sign), a printed "
        "number holds no NUL and does not begin with '#' (ptext_cstr, ptext_nohash), rd = identity at MAX / >= 17 digits (num_rt)",
        "independent reader and conversion oracle lib/datafiles.py (Python, from the format descriptions / port relations)",
        "glibc printf / strtod / strtol (the number-text Section hypotheses state what they guarantee; num_rt is the only rounding hypothesis)",
        "conv_keeps_length / conv_shape: vnadata_convert returns a matrix of the same size / one Zin per port (premises, not proved)",
        "the Python tokenizers c_tokens / model_tokens of checks/c06_ties.py (they replace TsTok.tokens / NpdLoad.npd_lines in the byte tie)",
        "NumFmtModel.print_value / eng_value are NOT linked to ptext_word: v_ptext is abstract, parse_decimal is not parse_double",
        "gcc, ASan/UBSan/LSan, allocation interposer harness/allocwrap.c",
    ]
    ctx.assumptions = ["glibc printf/strtod are correctly rounded (exercised, not proved)",
                       "cabs/carg/log10/cexp accuracy is outside every theorem; the harness allows 1e-9 relative for them"]
    ctx.rule = ("one evaluation = one generated (object, file name / file type, format list, precisions) configuration saved and "
                "re-loaded; distinct non-trivial = accepted configurations by (type, ports, file type, format list, z0 mode, precision)")
    ok, res = ctx.coq_obligations(["Files/NumFmtModel.v", "Files/NumFmtProofs.v", "Files/NpdScan.v", "Files/NpdScanProofs.v",
                                   "Files/SaveModel.v", "Files/SaveProofs.v", "Files/SaveEmit.v", "Files/SaveEmitTie.v",
                                   "Files/SaveTsLemmas.v", "Files/SaveEmitProofs.v", "Files/SaveNpdProofs.v", "Files/SaveAllProofs.v", "Files/SaveNormIdentity.v",
                                   "Files/SaveState.v", "Files/SaveStateProofs.v", "Files/SaveBoundary.v",
                                   "Files/SaveEmitExamples.v", "Properties_C06.v"])
    broken = []
    if not ok:
        broken.append("Coq development of C06 does not build: " + getattr(ctx, "_last_coq_log", "")[-400:])
    H = D.Harness(ctx)
    n = 700 if ctx.tier == "quick" else 6000
    cases = [gen_case(ctx.rng, k, ctx.tier) for k in range(n)]
    cases += directed_cases()
    cases += [gen_history_case(ctx.rng, k) for k in range(56 if ctx.tier == "quick" else 420)]
    cases += [gen_freq_case(ctx.rng, k) for k in range(30 if ctx.tier == "quick" else 240)]
    stats = {"accepted": 0, "refused": 0, "setter_refused": 0, "by_kind": {}}
    results, faults = H.run([(c["id"], case_cmds(c)) for c in cases], timeout=1500)
    byid = dict((c["id"], c) for c in cases)
    for f in faults:
        sig = vplib.asan_signature(f["stderr"]) or {"kind": "fault", "error": "exit %s" % f["rc"], "function": None}
        c = byid.get(f["id"])
        ctx.violation(sig, "save/load harness died in case %s: %s" % (f["id"], f["stderr"][-300:]),
                      {"case": describe(c) if c else None, "stderr": f["stderr"][-3000:],
                       "script": case_cmds(c) if c else None})
    nviol = {}
    for c in cases:
        lines = results.get(c["id"])
        if lines is None:
            continue
        o = c["obj"]
        ctx.count(None)
        v = evaluate(ctx, c, lines, stats)
        live = [l for l in lines if l.startswith("LIVE")]
        if v is None and live and live[-1] != "LIVE 0":
            v = ({"kind": "leak", "where": "save/load"}, "library blocks still allocated after the case: %s" % live[-1])
        if v is None:
            if any(l.startswith("SAVE 0") for l in lines):
                ctx.nontrivial.add((o.type, o.ports, c["kind"], c["format"], c["zmode"], c["dprec"]))
                ctx.traces_validated += 1
                if len(ctx.samples) < 6 and c["id"].endswith("7"):
                    ctx.sample(describe(c))
            continue
        sig, what = v
        key = tuple(sorted(sig.items()))
        nviol[key] = nviol.get(key, 0) + 1
        if nviol[key] <= 3:
            ctx.violation(sig, what, {"case": describe(c), "script": case_cmds(c), "output": [l[:2000] for l in lines]})
    ctx.extra["accepted"] = stats["accepted"]
    ctx.extra["refused"] = stats["refused"]
    ctx.extra["accepted_by_filetype"] = stats["by_kind"]
    ctx.extra["violation_classes"] = dict((str(dict(k)), v) for k, v in nviol.items())
    known = vplib.load_known()
    unknown = [k for k in nviol if vplib.match_known(ctx.prop, dict(k), known) is None]
    ctx.obligation("tie:roundtrip", not unknown and not faults, "%d violation classes (%d known findings)" % (len(nviol), len(nviol) - len(unknown)))
    if stats["accepted"] < n // 4:
        ctx.obligation("tie:coverage", False, "only %d of %d configurations were accepted by the saver" % (stats["accepted"], n))
    # ---- ties of the Coq models
    c06_ties.run(ctx, H, broken, [c for c in cases if not c.get("history") and not c.get("freq_kind")], results, expected_filetype)
    for b in broken:
        ctx.unproved("C06", b, "round-trip search over %d configurations" % n)


def describe(c):
    o = c["obj"]
    return {"type": o.type, "rows": o.rows, "cols": o.cols, "frequencies": o.freqs, "z0": repr(o.z0 if o.fz0 is None else o.fz0),
            "data": repr(o.data), "file": c["name"], "set_filetype": c["setft"], "format": c["format"],
            "fprecision": c["fprec"], "dprecision": c["dprec"]}


def gen_history_case(rng, k):
    """A configuration whose object reaches the saver through a history (see history_cmds)."""
    c = gen_case(rng, 400 + k, "quick")
    o = c["obj"]
    c["id"] = "h%d" % k
    c["history"] = ["conv_copy", "conv_chain", "conv_into_loaded", "conv_into_saved", "saved_before"][k % 5]
    c["stale"] = None
    if o.type == "ZIN":
        c["stale"] = rng.choice(["Zinma", "PRC,Zinri", "SRL"])
    else:
        c["stale"] = rng.choice(["Zma", "SdB,Zri", "Yri", "Sma,IL", "Zri,Yma,Sri"] + (["Tma", "Hri,Ama"] if o.ports == 2 else []))
    if rng.random() < 0.7:
        c["format"] = None            # saved without a format of its own: the default form of its own type
    c["save_first"] = rng.random() < 0.5
    kinds7 = k % 7
    if kinds7 in (5, 6) and o.type != "ZIN":
        # DA90: a save / a check must not change what later saves write
        c["format"] = rng.choice(["ma", "ri"])
        c["hist_format"] = c["format"]
        c["stale"] = None
        if kinds7 == 5:
            others = [t for t in (["S", "Z", "Y", "T", "H", "A"] if o.ports == 2 else ["S", "Z", "Y"]) if t != o.type]
            t0 = rng.choice(others)
            c["history"] = "untyped_save_convert"
            c["keep_format"] = True
            c["obj0"] = D.Obj(t0, o.rows, o.cols, o.freqs, [D.convert(m, o.type, t0, o.z0_at(i)) for i, m in enumerate(o.data)],
                              z0=o.z0, fz0=o.fz0)
            c["scaled"] = False
        else:
            c["history"] = "cksave_first"
            c["hist_filetype"] = D.FT_TS1
            c["setft"] = D.FT_TS1
    return c


def directed_cases():
    """Configurations named in DESIGN.md section 7 (D31, D32) and boundary precisions."""
    out = []
    import random
    rng = random.Random(12345)

    def mk(cid, t, ports, fmt, name, dprec=6, fprec=7, z0v=50.0, setft=None, nf=2, save_first=False, z0list=None):
        z0 = [complex(z0v, 0)] * ports if z0list is None else [complex(x, 0) for x in z0list]
        data = [D.convert(rand_s(rng, ports), "S", t, z0) for _ in range(nf)]
        rows, cols = (1, ports) if t == "ZIN" else (ports, ports)
        o = D.Obj(t, rows, cols, [1e9 * (i + 1) for i in range(nf)], data, z0=z0)
        out.append({"id": cid, "obj": o, "name": name, "setft": setft, "format": fmt, "fprec": fprec, "dprec": dprec,
                    "kind": "directed", "zmode": "equal", "scaled": False, "save_first": save_first})
    mk("d31", "S", 3, "IL,Sri", "a.npd")
    mk("d31b", "S", 4, "Sma,IL", "a.npd")
    mk("d32", "S", 3, "Hri", "a.npd")
    mk("d32b", "Z", 3, "Tri,Zri", "a.npd")
    mk("d32c", "S", 3, "Hri", "a.ts")
    mk("d32d", "Y", 1, "Gma", "a.s1p")
    mk("df1", "Z", 2, "ri", "a.s2p")
    mk("df1b", "Y", 3, None, "a.s3p", z0v=75.0)
    mk("df1c", "H", 2, "ma", "a.s2p", z0v=75.0)
    mk("il_only", "S", 2, "IL,RL,VSWR", "a.npd")
    # Touchstone 1 set explicitly, ".ts" name, promotion to version 2 forced (ports > 4 / unequal z0), saved
    # without an earlier cksave (which would persist the promoted type) and with it
    for sf in (True, False):
        tag = "s" if sf else "c"
        mk("promo5" + tag, "S", 5, "Zri", "a.ts", z0v=75.0, setft=D.FT_TS1, save_first=sf)
        mk("promo5y" + tag, "Y", 6, "Yma", "a.ts", z0v=20.0, setft=D.FT_TS1, save_first=sf)
        mk("promoz" + tag, "S", 3, "Sri", "a.ts", setft=D.FT_TS1, save_first=sf, z0list=[50.0, 75.0, 50.0])
        mk("promoz2" + tag, "Z", 2, "Zri", "a.ts", setft=D.FT_TS1, save_first=sf, z0list=[10.0, 75.0])
        mk("keep1" + tag, "S", 2, "Zri", "a.ts", z0v=75.0, setft=D.FT_TS1, save_first=sf)
    for p in (1, 2, 3, 16, 17, MAXP):
        mk("prec%d" % p, "S", 2, "Sri,Sma,SdB", "a.npd", dprec=p, fprec=p)
        mk("precz%d" % p, "Z", 2, "Zri", "a.s2p", dprec=p, fprec=p, z0v=51.37)
    return out
