"""C09, network-data half, package B: the parsers' OWN buffers at pointer level.

Tie of the extracted checked-memory models coq/Files/TsMem.v (Touchstone: token text, value vector, [Reference]
vector) and coq/Files/TsMemNpd.v (NPD: line text, field vector) to the C code: harness/tstone_mem.c compiles the two
loader sources with malloc / calloc / realloc / free renamed to a ledger that counts the parser's requests, can make
the K-th one fail, moves the block on every realloc and records the size of every block handed to free.  For every
input and every K from 0 (no failure) to one past the number of requests the loader makes, model and code must agree on

    return value and errno class | number of requests | sizes of the blocks freed at `out:` (in call order) | blocks left |
    digest of the destination (type, rows, columns, frequencies, file type, z0 mode, precisions; coq/Files/LoadFail.v)

and the C side must run without a sanitizer report, leave no parser block, and leave a destination that is either
untouched or an initialised object whose dimensions fit its type (every cell, frequency and impedance is read back).
A disagreement is a violation whose replay holds the input and K (the theorems say the model never faults and never
leaks, so the property text sides with the model)."""
import os
import re

import vplib
import tstone as T
import tstone_ties

OK_ERRNO = ("EBADMSG", "ENOPROTOOPT", "ENOMEM", "EINVAL")


class Mem(object):
    def __init__(self, ctx):
        self.ctx = ctx
        self.drv = ctx.ocaml_driver("drv_tsmem")
        self.exe = ctx.build_harness("tstone_mem", san=True,
                                     extra=[os.path.join(vplib.VERIF, "harness", "tstone_mem_npd.c")],
                                     exclude=("vnadata_load_touchstone.c", "vnadata_load_npd.c"))
        self.env = ctx.run_env(leak=True)

    def model(self, cmds, timeout=900):
        if not cmds:
            return []
        rc, out, err = vplib.sh([self.drv], input="\n".join(cmds) + "\n", timeout=timeout)
        lines = out.split("\n")
        if lines and lines[-1] == "":
            lines.pop()
        if rc != 0 or len(lines) != len(cmds):
            raise vplib.BuildError("extracted memory-model driver failed (rc %s, %d of %d lines): %s"
                                   % (rc, len(lines), len(cmds), err[-500:]))
        return lines

    def white(self, cmds, timeout=900):
        """A command on which the process dies gives 'FAULT <stderr tail>'."""
        out_lines = []
        todo = list(cmds)
        while todo:
            rc, out, err = vplib.sh([self.exe], input="\n".join(todo) + "\n", timeout=timeout, env=self.env)
            lines = [l for l in out.split("\n") if l != ""]
            if rc == 0 and len(lines) == len(todo):
                out_lines += lines
                break
            done = [l for l in lines if l.startswith("MEM ")]
            done = done[:len(todo) - 1] if len(done) >= len(todo) else done
            out_lines += done
            i = err.find("ERROR: ")
            rep = err[i:i + 3000] if i >= 0 else err[-3000:]
            out_lines.append("FAULT rc=%s %s" % (rc, ("HANG " if "HANG" in out else "") + rep.replace("\n", " | ")))
            todo = todo[len(done) + 1:]
        return out_lines


def _hex(text):
    return text.encode("latin-1").hex() or "-"


def directed_ts():
    """Inputs aimed at the case splits of the proofs: value counts around the growth points of the value vector
    (9, 18, 36, 72), the count reset between lines, [Reference] vectors of 0..9 ports, complete and cut short,
    tokens that exactly fill the text buffer (see tstone_ties.long_token_inputs for the one-token inputs)."""
    out = []
    opt = "# GHz S RI R 50\n"
    for n in list(range(1, 41)) + [71, 72, 73, 74, 79]:
        out.append(("values-%d" % n, "x.s2p", opt + " ".join(["1"] * n) + "\n"))
    for n in (9, 17, 19, 37):
        # a long first line, then shorter and longer ones (the allocation is kept, the count restarts)
        out.append(("values-%d-then" % n, "x.s4p", opt + " ".join(["1"] * n) + "\n" + " ".join(["2"] * (n - 1)) + "\n"
                    + " ".join(["3"] * (2 * n)) + "\n"))
    out.append(("v1-2port-3f", "x.s2p", opt + "1 1 2 3 4 5 6 7 8\n2 1 2 3 4 5 6 7 8\n3 1 2 3 4 5 6 7 8\n"))
    out.append(("v1-4port", "x.s4p", opt + "1 1 2 3 4 5 6 7 8\n 1 2 3 4 5 6 7 8\n 1 2 3 4 5 6 7 8\n 1 2 3 4 5 6 7 8\n"))
    out.append(("v1-3port", "x.s3p", opt + "1 1 2 3 4 5 6\n 1 2 3 4 5 6\n 1 2 3 4 5 6\n2 1 2 3 4 5 6\n 1 2 3 4 5 6\n 1 2 3 4 5 6\n"))
    out.append(("v1-noise", "x.s2p", opt + "1 1 2 3 4 5 6 7 8\n1 2 3 4 5\n2 2 3 4 5\n"))
    out.append(("v1-noise-only", "x.s2p", opt + "1 2 3 4 5\n2 2 3 4 5\n"))
    for p in range(0, 10):
        hdr = "[Version] 2.0\n# GHz S RI R 50\n[Number of Ports] %d\n" % p
        if p == 2:
            hdr += "[Two-Port Order] 12_21\n"
        body = "[Number of Frequencies] 1\n[Network Data]\n1 " + " ".join(["0.5 0.25"] * (p * p)) + "\n[End]\n"
        out.append(("ref-%d" % p, "x.ts", hdr + "[Reference] " + " ".join(["50"] * p) + "\n" + body))
        out.append(("ref-%d-short" % p, "x.ts", hdr + "[Reference] " + " ".join(["50"] * max(p - 1, 0)) + "\n" + body))
        out.append(("ref-%d-long" % p, "x.ts", hdr + "[Reference] " + " ".join(["50"] * (p + 1)) + "\n" + body))
        out.append(("ref-%d-neg" % p, "x.ts", hdr + "[Reference] " + " ".join(["50"] * max(p - 1, 0) + ["-1"]) + "\n" + body))
        out.append(("ref-%d-twice" % p, "x.ts", hdr + "[Reference] " + " ".join(["50"] * p) + "\n[Reference] 50\n" + body))
    out.append(("ref-before-ports", "x.ts", "[Version] 2.0\n# GHz S RI R 50\n[Reference] 50\n[Number of Ports] 1\n"))
    out.append(("ref-in-info", "x.ts", "[Version] 2.0\n# GHz S RI R 50\n[Number of Ports] 1\n[Begin Information]\n[Reference] 75\n"
                "[End Information]\n[Number of Frequencies] 1\n[Network Data]\n1 0.5 0.25\n[End]\n"))
    # the destination at the failure exits: decisions acted on only after the next token was read (a version-1 line, the
    # checks after [Network Data]), followed by a good token, a long word (one more growth of the text), an unexpected
    # character, end of file
    v2h = "[Version] 2.0\n# GHz Z RI R 50\n[Number of Ports] 1\n[Number of Frequencies] 2\n"
    for tag, nxt in (("eof", ""), ("word", "abc"), ("long", "a" * 100), ("bad", "$"), ("kw", "[End]"), ("badkw", "[" + "x" * 70 + "]"),
                     ("num", "3 0.5 0.25\n")):
        out.append(("late-v1-evenline-" + tag, "x.s1p", opt + "1 2\n" + nxt))
        out.append(("late-v1-goodline-" + tag, "x.s1p", opt + "1 0.5 0.25\n" + nxt))
        out.append(("late-v1-negfreq-" + tag, "x.s1p", opt + "-1 0.5 0.25\n" + nxt))
        out.append(("late-v1-decreasing-" + tag, "x.s1p", opt + "2 0.5 0.25\n1 0.5 0.25\n" + nxt))
        out.append(("late-v1-4port-" + tag, "x.s4p", opt + "1 1 2 3 4 5 6 7 8\n 1 2 3 4 5 6 7 8\n" + nxt))
        out.append(("late-v1-hg-" + tag, "x.s2p", "# GHz H RI R 50\n1 2 3\n" + nxt))
        out.append(("late-v2-netdata-" + tag, "x.ts", v2h + "[Network Data]\n" + nxt))
        out.append(("late-v2-nofreqs-" + tag, "x.ts", "[Version] 2.0\n# GHz Z RI R 50\n[Number of Ports] 1\n[Network Data]\n" + nxt))
        out.append(("late-v2-order-" + tag, "x.ts", "[Version] 2.0\n# GHz Z RI R 50\n[Number of Ports] 2\n[Number of Frequencies] 1\n[Network Data]\n" + nxt))
        out.append(("late-v2-einval-" + tag, "x.ts", "[Version] 2.0\n# GHz Z RI R 50\n[Number of Ports] 65536\n[Number of Frequencies] 1\n[Network Data]\n" + nxt))
        out.append(("late-v2-ref-" + tag, "x.ts", "[Version] 2.0\n# GHz Z RI R 50\n[Number of Ports] 1\n[Number of Frequencies] 2\n[Reference] 75\n[Network Data]\n" + nxt))
    out.append(("dest-v2-partial", "x.ts", v2h + "[Network Data]\n1 0.5 0.25\n2 0.5\n"))
    out.append(("dest-v2-decreasing", "x.ts", v2h + "[Network Data]\n2 0.5 0.25\n1 0.5 0.25\n"))
    out.append(("dest-v2-ok", "x.ts", v2h + "[Network Data]\n1 0.5 0.25\n2 0.5 0.25\n[End]\n"))
    out.append(("dest-v2-extra", "x.ts", v2h + "[Network Data]\n1 0.5 0.25\n2 0.5 0.25\n[End]\nx\n"))
    out.append(("dest-v1-in-ts", "x.ts", opt + "1 0.5 0.25\n"))
    out.append(("dest-v2-in-s1p", "x.s1p", v2h + "[Network Data]\n1 0.5 0.25\n2 0.5 0.25\n[End]\n"))
    out.append(("dest-hdr-only", "x.s1p", opt))
    out.append(("dest-hdr-bad", "x.s1p", "# GHz S RI R 50 bogus\n1 0.5 0.25\n"))
    out.append(("dest-version3", "x.ts", "[Version] 3.0\n"))
    out.append(("dest-r-nan", "x.s1p", "# GHz S RI R nan\n1 0.5 0.25\n"))
    out.append(("dest-ref-nan", "x.ts", "[Version] 2.0\n# GHz S RI R 50\n[Number of Ports] 2\n[Reference] 50 nan\n"))
    for L in (62, 63, 64, 65, 126, 127, 128, 129, 254, 255, 256, 257):
        # a long word inside a data line, in the option line, as a keyword argument, as keyword text
        out.append(("word-data-%d" % L, "x.s1p", opt + "1 0.%s 0\n" % ("5" * (L - 2))))
        out.append(("word-opt-%d" % L, "x.s1p", "# GHz S RI R %s\n1 0.5 0\n" % ("5" * L)))
        out.append(("word-arg-%d" % L, "x.ts", "[Version] %s\n" % ("2" * L)))
        out.append(("kw-%d" % L, "x.ts", "[Version] 2.0\n# GHz S RI R 50\n[%s]\n" % ("N" * L)))
        out.append(("kw-open-%d" % L, "x.ts", "[Version] 2.0\n# GHz S RI R 50\n[%s" % ("N" * L)))
    return out


def directed_npd():
    out = []
    hdr = "#:version 1.0\n#:ports 1\n#:frequencies 1\n#:parameters Sri\n"
    for L in (1, 40, 72, 73, 74, 79, 80, 81, 82, 160, 161, 162, 163, 323, 324, 325):
        out.append(("npd-field-%d" % L, "x.npd", hdr + "1 0.%s 0.25\n" % ("5" * (L - 2) if L > 2 else "5")))
        out.append(("npd-kwarg-%d" % L, "x.npd", "#:ports " + "1" * L + "\n"))
        out.append(("npd-kw-%d" % L, "x.npd", "#:" + "p" * L + "\n"))
        out.append(("npd-line-%d" % L, "x.npd", hdr + " ".join(["1"] * L) + "\n"))
    for n in (8, 9, 10, 17, 18, 19, 35, 36, 37, 38):
        out.append(("npd-fields-%d" % n, "x.npd", hdr + " ".join(["1"] * n) + "\n"))
        out.append(("npd-params-%d" % n, "x.npd", "#:ports 1\n#:frequencies 1\n#:parameters " + " ".join(["Sri"] * n) + "\n"))
    out.append(("npd-z0", "x.npd", "#:ports 2\n#:frequencies 1\n#:parameters Sri\n#:z0 50 0 75 1j\n1 1 2 3 4 5 6 7 8\n"))
    out.append(("npd-fz0", "x.npd", "#:ports 2\n#:frequencies 2\n#:parameters Sri\n#:z0 PER-FREQUENCY\n1 50 0 75 1 1 2 3 4 5 6 7 8\n"
                "2 50 0 75 1 1 2 3 4 5 6 7 8\n"))
    out.append(("npd-z0-0ports", "x.npd", "#:ports 0\n#:frequencies 1\n#:parameters Zinri\n#:z0\n1\n"))
    # the destination at the failure exits
    h2 = "#:ports 2\n#:frequencies 2\n#:parameters Sri\n"
    out.append(("npd-dest-prec0", "x.npd", "#:fprecision 3\n#:dprecision 0\n" + h2 + "1 1 2 3 4 5 6 7 8\n2 1 2 3 4 5 6 7 8\n"))
    out.append(("npd-dest-prec", "x.npd", "#:fprecision 3\n#:dprecision 1\n" + h2 + "1 1 2 3 4 5 6 7 8\n2 1 2 3 4 5 6 7 8\n"))
    out.append(("npd-dest-prec-then-bad", "x.npd", "#:fprecision 9\n#:dprecision 1001\n" + h2))
    out.append(("npd-dest-params-bad", "x.npd", "#:ports 2\n#:frequencies 2\n#:parameters bogus\n"))
    out.append(("npd-dest-short-line", "x.npd", h2 + "1 1 2 3 4 5 6 7 8\n2 1 2 3\n"))
    out.append(("npd-dest-bad-freq", "x.npd", h2 + "1 1 2 3 4 5 6 7 8\nx 1 2 3 4 5 6 7 8\n"))
    out.append(("npd-dest-bad-cell", "x.npd", h2 + "1 1 2 3 4 5 6 7 8\n2 1 2 3 x 5 6 7 8\n"))
    out.append(("npd-dest-missing-line", "x.npd", h2 + "1 1 2 3 4 5 6 7 8\n"))
    out.append(("npd-dest-extra-line", "x.npd", h2 + "1 1 2 3 4 5 6 7 8\n2 1 2 3 4 5 6 7 8\n3 1 2 3 4 5 6 7 8\n"))
    out.append(("npd-dest-no-freqs", "x.npd", "#:ports 2\n#:frequencies 0\n#:parameters Sri\n"))
    out.append(("npd-dest-no-params", "x.npd", "#:ports 2\n#:frequencies 2\n1 1 2 3 4 5 6 7 8\n"))
    out.append(("npd-dest-zin", "x.npd", "#:ports 3\n#:frequencies 1\n#:parameters Zinri\n#:z0 50 0 60 0 70 0\n1 1 2 3 4 5 6\n"))
    out.append(("npd-dest-fz0-badz", "x.npd", "#:ports 1\n#:frequencies 2\n#:parameters Sri\n#:z0 PER-FREQUENCY\n1 50 0 1 2\n2 50 x 1 2\n"))
    out.append(("npd-dest-fz0-badcell", "x.npd", "#:ports 1\n#:frequencies 2\n#:parameters Sri\n#:z0 PER-FREQUENCY\n1 50 0 1 2\n2 50 0 1 x\n"))
    out.append(("npd-dest-unknown-kw", "x.npd", "#:ports 2\n#:bogus 1\n"))
    return out


def _dims_fit(t, r, c):
    # vnadata_parameter_type_t: 0 undef, 1 S, 2 T, 3 U, 4 Z, 5 Y, 6 H, 7 G, 8 A, 9 B, 10 Zin
    if t == 0:
        return True
    if t in (1, 4, 5):
        return r == c
    if t == 10:
        return r == 1
    return r == 2 and c == 2


def _split(line):
    """'MEM rc errno | REQ n | FREED a,b,c | LIVE n [| MAX n | DEST ...]' -> (core string, dict)."""
    parts = [p.strip() for p in line.split("|")]
    d = {}
    for p in parts:
        k, _, v = p.partition(" ")
        d[k] = v
    core = " | ".join(parts[:5])
    return core, d


def run(ctx, inputs):
    """inputs: the (id, kind, label, name, text) tuples of c09_data.run."""
    import c09_data
    H = Mem(ctx)
    quick = ctx.tier == "quick"
    rng = ctx.rng
    ts, npd = [], []
    for cid, kind, lab, name, text in inputs:
        if c09_data.resource_heavy(text) or c09_data.huge_ports(text):
            continue
        (ts if T.is_touchstone_name(name) else npd).append((cid, name, text))
    rng.shuffle(ts)
    rng.shuffle(npd)
    nts, nnpd = (800, 350) if quick else (12000, 5000)
    lt = [("L-" + lab, name, text) for lab, name, text in tstone_ties.long_token_inputs(rng, ctx.tier) if T.is_touchstone_name(name)]
    if quick:
        rng.shuffle(lt)
        lt = lt[:90]
    ts = [("D-" + a, b, c) for a, b, c in directed_ts()] + lt + ts[:nts]
    npd = [("D-" + a, b, c) for a, b, c in directed_npd()] + npd[:nnpd]
    byid = dict((x[0], x) for x in ts + npd)

    # ---- round 1: no failure ------------------------------------------------------------------------------------
    def cmd(kind, k, x):
        return "%s %d %s %s" % (kind, k, x[1], _hex(x[2]))
    cmds = [cmd("mts", 0, x) for x in ts] + [cmd("mnp", 0, x) for x in npd]
    keys = [(x[0], 0) for x in ts] + [(x[0], 0) for x in npd]
    c_lines = H.white(cmds)
    # ---- round 2: every request of a sample fails once ---------------------------------------------------------------
    nfail_ts, nfail_npd = (180, 110) if quick else (3000, 1500)
    cmds2, keys2 = [], []
    counts = {}
    for x, cl in zip(ts + npd, c_lines):
        if cl.startswith("MEM "):
            counts[x[0]] = int(_split(cl)[1]["REQ"])
    pick_ts = [x for x in ts if x[0].startswith("D-") or x[0].startswith("L-")] + [x for x in ts if not (x[0].startswith("D-") or x[0].startswith("L-"))][:nfail_ts]
    pick_npd = [x for x in npd if x[0].startswith("D-")] + [x for x in npd if not x[0].startswith("D-")][:nfail_npd]
    for kind, xs in (("mts", pick_ts), ("mnp", pick_npd)):
        for x in xs:
            n = counts.get(x[0])
            if n is None:
                continue
            for k in range(1, min(n, 12) + 2):
                cmds2.append(cmd(kind, k, x))
                keys2.append((x[0], k))
    c_lines += H.white(cmds2)
    cmds += cmds2
    keys += keys2
    m_cmds = [c for c in cmds if c.startswith("mts ") or H_has_npd(H)]
    m_lines = dict(zip(m_cmds, H.model(m_cmds))) if m_cmds else {}

    classes = {}
    stats = {"compared": 0, "failure_runs": 0, "c_only": 0}

    def bad(cls, key, what, extra):
        classes[cls] = classes.get(cls, 0) + 1
        if classes[cls] <= 2:
            x = byid[key[0]]
            sig = extra.pop("sig", None) or {"kind": "disagreement", "op": "parser_buffers", "class": cls}
            rep = {"file": x[2], "file_hex": _hex(x[2]), "filename": x[1], "fail_request": key[1]}
            rep.update(extra)
            ctx.violation(sig, "[parser buffers] input %s, failing request %d: %s" % (key[0], key[1], what), rep)

    for c, key, cl in zip(cmds, keys, c_lines):
        ctx.count(None)
        is_ts = c.startswith("mts ")
        if cl.startswith("FAULT"):
            sig = vplib.asan_signature(cl.replace(" | ", "\n")) or {"kind": "fault", "error": cl[:80], "function": "vnadata_fload"}
            sig = dict(sig)
            sig["alloc_failure"] = key[1] > 0
            bad("fault", key, "the loader died: %s" % cl[:600], {"sig": sig, "c": cl[:3000]})
            continue
        core, d = _split(cl)
        rc, _, en = d["MEM"].partition(" ")
        if key[1] > 0:
            stats["failure_runs"] += 1
        if d.get("LIVE") != "0":
            bad("leak", key, "parser blocks left after the return: %s" % cl, {"c": cl})
            continue
        if "?" in d.get("FREED", ""):
            bad("wild-free", key, "free of a pointer that is not a live parser block: %s" % cl, {"c": cl})
            continue
        if rc == "-1" and en not in OK_ERRNO:
            bad("errno", key, "failure with errno %s" % en, {"c": cl})
            continue
        dest = [int(v) for v in d.get("DEST", "0 0 0 0 0").split()]
        if not _dims_fit(dest[0], dest[1], dest[2]) or min(dest[1:4]) < 0:
            bad("destination", key, "destination after the call: type %d %d x %d, %d frequencies" % tuple(dest[:4]), {"c": cl})
            continue
        ml = m_lines.get(c)
        if ml is None:
            stats["c_only"] += 1
            if key[1] > 0 and key[1] <= int(d["REQ"]) and not (rc == "-1"):
                bad("enomem-ignored", key, "request %d failed but the load returned %s" % (key[1], rc), {"c": cl})
            else:
                ctx.traces_validated += 1
            continue
        macc = None
        if " | ACC " in ml:
            ml, _, macc = ml.rpartition(" | ACC ")
        if ml != core:
            mp, cp = ml.split(" | "), core.split(" | ")
            cls = "fault-in-model" if ml.startswith("FAULT") else \
                  ("outcome" if mp[0] != cp[0] else ("ledger" if mp[:4] != cp[:4] else "destination-model"))
            bad(cls, key, "model %s / C %s" % (ml, core), {"c": cl, "model": ml})
            continue
        if macc == "0":
            bad("destination-call-refused", key, "a call the loader model records on the destination is refused by the container model "
                "(index out of range, wrong vector length): in the C code that is an unchecked store; %s" % cl, {"c": cl, "model": ml})
            continue
        stats["compared"] += 1
        ctx.traces_validated += 1
        ctx.nontrivial.add(("mem",) + key)
    ctx.obligation("tie:parser_buffers[ledger,capacities,alloc-failure]", not classes,
                   "%d runs (%d with a failing request) of %d Touchstone and %d NPD inputs; %d compared with the model, %d C-only; %s"
                   % (len(cmds), stats["failure_runs"], len(ts), len(npd), stats["compared"], stats["c_only"], classes or "no disagreement"))
    dcls = dict((k, v) for k, v in classes.items() if k.startswith("destination"))
    ctx.obligation("tie:destination_after_load[digest,every-outcome]", not dcls,
                   "%d runs: type, rows, columns, frequencies, file type, z0 mode and precisions of the destination after the "
                   "call vs coq/Files/LoadFail.v; %s" % (stats["compared"], dcls or "no disagreement"))
    ctx.extra["parser_buffer_runs"] = dict(stats, runs=len(cmds), classes=classes)
    ctx.log("C09(mem): %d runs, %d compared with the model, classes %s" % (len(cmds), stats["compared"], classes))


def H_has_npd(H):
    """True when the driver also models the NPD scanner (command mnp)."""
    v = getattr(H, "_has_npd", None)
    if v is None:
        try:
            v = not H.model(["mnp 0 x.npd -"])[0].startswith("?")
        except vplib.BuildError:
            v = False
        H._has_npd = v
    return v
