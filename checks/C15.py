"""C15 - vnadata_t behaves like a typed frequency x rows x columns array with z0 modes.

1. Proof obligations: coq/Data/DataProofs.v and coq/Properties_C15.v (invariant for every
   reachable state, refinement to the abstract array specification, index refusal, z0 mode rules).
2. Tie: the extracted model (ocaml/drv_data) and the real library (harness/data_harness.c, ASan +
   UBSan + LSan) execute the same operation scripts; transcripts (return class, errno class,
   callbacks, payload, digest through every public getter, allocation sizes, count of non-initial
   cells beyond the logical sizes) are compared token by token.  Scripts: corpus of minimised
   failures first, directed boundary cases, bounded-exhaustive sequences over a small alphabet,
   random histories.
3. A first difference is shrunk by delta debugging, classified (which candidate defect of the code
   as found explains it, if any) and reported as a violation with the script as replay.
"""
import itertools
import os
import random

import vplib
import datalib
import datagen

CORPUS = os.path.join(vplib.VERIF, "corpus", "C15")

DIRECTED = {
    "z0_port_eq_ports": ["0 init 1 2 2 1", "0 getz0 2", "0 setz0 2 75,0", "0 getfz0 0 2", "0 setfz0 0 2 75,0",
                         "0 resize 1 3 3 1", "0 getz0v"],
    "z0_port_eq_ports_grown": ["0 init 1 3 3 1", "0 resize 1 2 2 1", "0 setz0 2 75,0", "0 resize 1 3 3 1", "0 getz0 2"],
    "zin_inplace_then_grow": ["0 init 1 2 2 2", "0 setmat 0 4 1,1 2,0 0,3 1,-1", "0 setmat 1 4 2,1 1,0 1,3 0,-1",
                              "conv 0 0 10", "0 resize 0 2 2 2", "0 getmat 0"],
    "fz0_beyond_frequencies": ["0 init 1 1 1 0", "0 addfreq 1", "0 setz0 0 75,0", "0 setfz0 0 0 10,0",
                               "0 addfreq 2", "0 getfz0 1 0"],
    "extend_f_with_no_ports": ["0 resize 0 0 0 1", "0 setfz0v 0 0", "0 resize 0 0 0 3", "0 resize 1 1 1 3",
                               "0 getfz0 2 0"],
    "resize_overflow": ["0 resize 0 65536 65536 0", "0 dims", "0 resize 0 46341 46341 0", "0 dims"],
    "shrink_regrow": ["0 init 0 2 3 2", "0 setmat 0 6 1,0 2,0 3,0 4,0 5,0 6,0", "0 setmat 1 6 7,0 8,0 9,0 1,1 2,2 3,3",
                      "0 setfv 2 5 6", "0 setz0v 3 1,0 2,0 5,0", "0 resize 0 1 2 1", "0 resize 0 2 3 2", "0 getmat 0",
                      "0 getmat 1", "0 getfv", "0 getz0v", "0 setfz0 0 2 9,9", "0 resize 0 1 1 1", "0 resize 0 3 3 3",
                      "0 getfz0v 0", "0 getfz0v 2"],
    "empty_object": ["0 fmin", "0 fmax", "0 getfv", "0 getz0v", "0 getmat 0", "0 setallz0 5,5", "0 setz0v 0",
                     "0 setfv 0", "0 hasfz0", "0 resize 0 0 0 2", "0 getmat 1", "0 getfz0v 1", "0 setmat 1 0",
                     "0 resize 0 0 0 1", "conv 0 1 0", "1 dims"],
    "empty_matrix_to_zin": ["0 init 1 0 0 1", "conv 0 1 10"],
    "mode_switches": ["0 init 4 2 2 2", "0 setz0v 2 10,0 20,0", "0 setfz0 1 1 99,0", "0 getz0 0", "0 getz0v",
                      "0 getfz0v 0", "0 getfz0v 1", "0 setz0 0 5,0", "0 hasfz0", "0 getz0v", "0 setfz0v 0 2 1,0 2,0",
                      "0 setallz0 7,0", "0 getfz0 1 1", "0 setfz0 1 0 3,0", "0 setz0v 2 8,0 9,0", "0 getfz0v 1"],
}


def classify(runner, ops, first):
    """Which single candidate defect of the code as found explains the difference?"""
    script = "\n".join(ops) + "\n"
    if first.get("model_predicts_fault"):
        return None          # the repaired model itself predicts this fault: not one of the repaired defects
    for q in ("d4", "d5", "d6", "d40"):
        try:
            d = runner.compare(script, as_found=q)
        except RuntimeError:
            continue
        if d is None or (d.get("model_predicts_fault") and d["kind"] == "fault"):
            return "D" + q[1:]
    return None


def opname(op):
    p = op.split()
    if not p:
        return ""
    return p[0] if p[0] in ("conv", "reset") else (p[1] if len(p) > 1 else p[0])


def report(ctx, runner, ops, d, origin):
    """Shrink, classify and record one difference."""
    def fails(cand):
        try:
            x = runner.compare("\n".join(cand) + "\n")
        except RuntimeError:
            return False
        return x is not None and x["kind"] == d["kind"]
    small = datalib.shrink(ops[:d["op_index"] + 1] if 0 <= d["op_index"] < len(ops) else ops, fails,
                           budget=150 if ctx.tier == "quick" else 400)
    d2 = runner.compare("\n".join(small) + "\n") or d
    last = small[d2["op_index"]] if 0 <= d2.get("op_index", -1) < len(small) else small[-1]
    defect = classify(runner, small, d2)
    san = d2.get("san") or {}
    sig = {"kind": d2["kind"], "op": opname(last), "line": d2.get("line"),
           "function": san.get("function"), "error": san.get("error"), "defect": defect}
    key = tuple(sorted((k, str(v)) for k, v in sig.items()))
    if key in ctx.extra.setdefault("_seen", set()):
        return
    ctx.extra["_seen"].add(key)
    what = ("vnadata: model and implementation differ at `%s` (%s%s); shrunk script of %d ops%s"
            % (last, d2["kind"], (" " + str(san.get("error"))) if san else "", len(small),
               ("; explained by candidate defect %s of the code as found" % defect) if defect else ""))
    ctx.violation(sig, what, {"script": small, "first_difference": {k: v for k, v in d2.items() if k != "stderr"},
                              "sanitizer": d2.get("stderr", "")[-1200:], "origin": origin,
                              "how": "ocaml/_build/drv_data < script | harness data_harness resolve ; data_harness run < script"})
    os.makedirs(CORPUS, exist_ok=True)
    name = "auto_%s_%s_%s.script" % (d2["kind"], opname(last), defect or "x")
    p = os.path.join(CORPUS, name)
    if not os.path.exists(p):
        with open(p, "w") as f:
            f.write("# minimised by checks/C15.py (%s)\n" % origin + "\n".join(small) + "\n")


def run_batch(ctx, runner, seqs, origin):
    """seqs: list of op lists; run them in one process each side (separated by reset).  On a
    difference, isolate the sequence, report it, and continue with the rest."""
    pending = list(seqs)
    nbad = 0
    while pending:
        ops = []
        starts = []
        for s in pending:
            starts.append(len(ops))
            ops.append("reset")
            ops.extend(s)
        d = runner.compare("\n".join(ops) + "\n")
        if d is None:
            ctx.traces_validated += len(pending)
            return nbad
        k = d["op_index"]
        which = 0
        for i, st in enumerate(starts):
            if st <= k:
                which = i
        if d["kind"] == "resolve":
            which = 0
        ctx.traces_validated += which
        bad = pending[which]
        d1 = runner.compare("\n".join(bad) + "\n")
        if d1 is not None:
            report(ctx, runner, bad, d1, origin)
            nbad += 1
        pending = pending[which + 1:]
        if nbad >= 6:
            ctx.notes.append("%s: stopped after %d differing sequences" % (origin, nbad))
            return nbad
    return nbad


def run(ctx):
    ctx.level = "proof"
    ctx.trusted_base = [
        "Coq 8.16.1 kernel; vm_compute for the concrete examples and refutation witnesses",
        "axioms: none (Print Assumptions of every theorem of Properties_C15.v: Closed under the global context)",
        "hand-written model coq/Data/DataModel.v (checked-memory model of vnadata_alloc.c, vnadata.h accessors, z0 files), "
        "tied to the implementation by op-script correspondence on every run",
        "extraction (ExtrOcamlBasic) + ocaml/drv_data.ml glue; harness/data_harness.c; gcc ASan/UBSan/LSan",
        "the format string is an opaque token (6 canonical strings); allocation failure is not modelled here (C12)",
    ]
    ctx.assumptions = ["values are abstract (0, 50 and literals); int arguments are unbounded integers with an explicit "
                       "range guard on rows*columns",
                       "both objects are valid pointers returned by vnadata_alloc (NULL / bad magic arguments not exercised)"]
    ctx.rule = ("one evaluation = one operation executed by model and implementation with equal outcome and digest; "
                "distinct non-trivial = distinct (op name, return class, type, rows, cols, freqs, z0 mode) tuples observed")
    quick = ctx.tier == "quick"

    ok, res = ctx.coq_obligations(["Data/DataProofs.v", "Properties_C15.v"])
    runner = datalib.Runner(ctx)

    # ---------------------------------------------------------------- corpus + directed
    seqs = []
    if os.path.isdir(CORPUS):
        for fn in sorted(os.listdir(CORPUS)):
            if fn.endswith(".script"):
                seqs.append([l.strip() for l in open(os.path.join(CORPUS, fn)) if l.strip() and not l.startswith("#")])
    ncorpus = len(seqs)
    seqs += [v for k, v in sorted(DIRECTED.items())]
    nb = run_batch(ctx, runner, seqs, "corpus+directed")
    ctx.log("corpus %d + directed %d sequences: %d differ" % (ncorpus, len(DIRECTED), nb))

    # ---------------------------------------------------------------- bounded exhaustive
    alpha = datagen.exhaustive_alphabet()
    ex = [list(t) for t in itertools.product(alpha, repeat=2)]
    if quick:
        pool = [list(t) for t in itertools.product(alpha, repeat=3)]
        ex += ctx.rng.sample(pool, 3000)
    else:
        ex += [list(t) for t in itertools.product(alpha, repeat=3)]
        for _ in range(40000):
            ex.append([ctx.rng.choice(alpha) for _ in range(4)])
    nbad = 0
    for i in range(0, len(ex), 4000):
        nbad += run_batch(ctx, runner, ex[i:i + 4000], "exhaustive alphabet of %d ops" % len(alpha))
        if nbad >= 6:
            break
    ctx.extra["exhaustive_sequences"] = len(ex)
    ctx.log("bounded-exhaustive: %d sequences (alphabet %d): %d differ" % (len(ex), len(alpha), nbad))

    # ---------------------------------------------------------------- random histories
    nrand, length = (60, 120) if quick else (600, 300)
    if not ok:
        nrand *= 3          # a proof obligation broke: search harder for a concrete failing input
    rnd = []
    for i in range(nrand):
        maxdim = 3 if i % 4 else 5
        rnd.append(datagen.random_script(ctx.rng, length if i % 3 else length // 4, maxdim=maxdim,
                                         maxfreq=3 if i % 5 else 6))
    nbad = 0
    for i in range(0, len(rnd), 20):
        nbad += run_batch(ctx, runner, rnd[i:i + 20], "random histories")
        if nbad >= 6:
            break
    ctx.log("random: %d histories of up to %d ops: %d differ" % (len(rnd), length, nbad))
    ctx.sample({"random_script_head": rnd[0][:12]})
    ctx.sample({"exhaustive_sequence": ex[len(ex) // 2]})

    # ---------------------------------------------------------------- coverage accounting
    stats(ctx, runner, seqs + ex[:2000] + rnd)
    ctx.extra.pop("_seen", None)
    new = unknown_violations(ctx)
    ctx.obligation("tie:data_model_vs_implementation", not new, "%d differing sequences" % len(new))
    if not ok and not new:
        ctx.unproved("Properties_C15", "Coq build failed: " + getattr(ctx, "_last_coq_log", "")[-400:],
                     "%d random histories, %d exhaustive sequences, corpus" % (len(rnd), len(ex)))


def unknown_violations(ctx):
    known = vplib.load_known()
    return [v for v in ctx.violations if vplib.match_known(ctx.prop, v.sig, known) is None]


def stats(ctx, runner, seqs):
    """Count evaluations and distinct non-trivial cases from the model transcript."""
    ops = []
    for s in seqs:
        ops.append("reset")
        ops.extend(s)
    raw, res, err = runner.model("\n".join(ops) + "\n")
    lines = [l for l in raw.split("\n") if l and not l.startswith("def")]
    dist = {}
    for i in range(0, len(lines) - 1, 2):
        r, d = lines[i].split(), lines[i + 1].split()
        k = i // 2
        name = datalib_opname(ops[k]) if k < len(ops) else "?"
        key = (name, r[1], d[3], d[4], d[5], d[6], d[d.index("Z") + 1] if "Z" in d else "")
        ctx.count(key)
        dist[name] = dist.get(name, 0) + 1
    ctx.extra["op_distribution"] = dict(sorted(dist.items()))
    ctx.extra["return_classes"] = {}
    for i in range(0, len(lines) - 1, 2):
        rc = lines[i].split()[1]
        ctx.extra["return_classes"][rc] = ctx.extra["return_classes"].get(rc, 0) + 1


def datalib_opname(op):
    return opname(op)
