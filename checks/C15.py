"""C15 - vnadata_t behaves like a typed frequency x rows x columns array with z0 modes.

1. Proof obligations: coq/Data/DataProofs.v, RefineProofs.v, InterleaveProofs.v and
   coq/Properties_C15.v (invariant for every reachable state, refinement of all 32 operations to the
   abstract array specification, type rule = the manual's rule, index refusal, z0 mode rules,
   faults exactly past a short caller vector, the same after interleaved conversions).
2. Tie: the extracted model (ocaml/drv_data) and the real library (harness/data_harness.c, ASan +
   UBSan + LSan) execute the same operation scripts; transcripts (return class, errno class,
   callbacks, payload, digest through every public getter, allocation sizes, count of non-initial
   cells beyond the logical sizes) are compared token by token.  Scripts: corpus of minimised
   failures first, directed boundary cases, bounded-exhaustive sequences over a small alphabet,
   random histories.
3. A first difference is shrunk by delta debugging, classified (which candidate defect of the code
   as found explains it, if any) and reported as a violation with the script as replay.
4. Caller vectors (tie of DataModel.short_vector / step_chk): directed and random calls of the five
   vector-taking setters with a heap buffer of exactly N elements (harness op names with '!'),
   N below, at and above the documented length, with valid and invalid indices; the model
   (Eval vm_compute of step_chk) says RFault exactly when the sanitizer build reports a
   heap-buffer-overflow READ, ok / fail otherwise.
The library and the harness are built without VNADATA_NO_BOUNDS_CHECK (the inline accessors of
vnadata.h compile their index tests out under that macro; the property is about the default build).
"""
import re
import itertools
import os
import random

import vplib
import datalib
import datagen

CORPUS = os.path.join(vplib.VERIF, "corpus", "C15")

DIRECTED = {
    "z0_port_eq_ports": ["0 init 1 2 2 1", "0 getz0 2", "0 setz0 2 75,0", "0 getfz0 0 2", "0 setfz0 0 2 75,0",
                         "0 resize 1 3 3 1", "0 getz0v"],
    "z0_port_eq_ports_grown": ["0 init 1 3 3 1", "0 resize 1 2 2 1", "0 setz0 2 75,0", "0 resize 1 3 3 1", "0 getz0 2"],
    "zin_inplace_then_grow": ["0 init 1 2 2 2", "0 setmat 0 4 1,1 2,0 0,3 1,-1", "0 setmat 1 4 2,1 1,0 1,3 0,-1",
                              "conv 0 0 10", "0 resize 0 2 2 2", "0 getmat 0"],
    "fz0_beyond_frequencies": ["0 init 1 1 1 0", "0 addfreq 1", "0 setz0 0 75,0", "0 setfz0 0 0 10,0",
                               "0 addfreq 2", "0 getfz0 1 0"],
    "extend_f_with_no_ports": ["0 resize 0 0 0 1", "0 setfz0v 0 0", "0 resize 0 0 0 3", "0 resize 1 1 1 3",
                               "0 getfz0 2 0"],
    "resize_overflow": ["0 resize 0 65536 65536 0", "0 dims", "0 resize 0 46341 46341 0", "0 dims"],
    "shrink_regrow": ["0 init 0 2 3 2", "0 setmat 0 6 1,0 2,0 3,0 4,0 5,0 6,0", "0 setmat 1 6 7,0 8,0 9,0 1,1 2,2 3,3",
                      "0 setfv 2 5 6", "0 setz0v 3 1,0 2,0 5,0", "0 resize 0 1 2 1", "0 resize 0 2 3 2", "0 getmat 0",
                      "0 getmat 1", "0 getfv", "0 getz0v", "0 setfz0 0 2 9,9", "0 resize 0 1 1 1", "0 resize 0 3 3 3",
                      "0 getfz0v 0", "0 getfz0v 2"],
    "empty_object": ["0 fmin", "0 fmax", "0 getfv", "0 getz0v", "0 getmat 0", "0 setallz0 5,5", "0 setz0v 0",
                     "0 setfv 0", "0 hasfz0", "0 resize 0 0 0 2", "0 getmat 1", "0 getfz0v 1", "0 setmat 1 0",
                     "0 resize 0 0 0 1", "conv 0 1 0", "1 dims"],
    "empty_matrix_to_zin": ["0 init 1 0 0 1", "conv 0 1 10"],
    # vnadata_alloc_and_init (Data/AccessorsModel.v): accepted / refused shapes, then use
    "alloc_and_init": ["0 allocinit 1 2 2 2", "0 getmat 1", "0 getz0v", "0 meta", "0 setcell 1 1 1 3,4", "0 setfz0 1 1 75,0",
                       "0 setfmt 3", "0 allocinit 2 3 3 1", "0 dims", "0 meta", "0 allocinit 10 1 3 0", "0 getz0v",
                       "0 allocinit -1 0 0 0", "0 allocinit 11 0 0 0", "0 allocinit 0 -1 0 0", "0 allocinit 0 0 0 -1",
                       "0 allocinit 0 65536 65536 0", "0 allocinit 10 2 1 1", "0 allocinit 4 2 3 1",
                       "1 allocinit 4 2 2 1", "1 setmat 0 4 1,0 2,0 3,0 4,1", "conv 1 0 5", "0 getmat 0", "1 allocinit 0 0 0 3",
                       "1 getfv", "1 fmax"],
    # vnadata_get_type_name: every code and the neighbours of the range
    "type_names": ["0 typename %d" % k for k in range(-2, 13)],
    # the format: set, clear, refused strings, transport by vnadata_convert into the other object
    # (Data/AccessorsModel.v: vector + cached string; the string must not survive a clear)
    "format_clear_then_convert": ["0 init 1 2 2 1", "0 setfmt 2", "0 meta", "0 setfmt -1", "0 meta", "conv 0 1 4", "1 meta",
                                  "0 meta", "1 setfmt 3", "conv 1 0 1", "0 meta", "0 setfmtbad 0", "0 meta", "0 setfmtbad 1",
                                  "0 setfmtbad 2", "0 setfmtbad 3", "0 setfmtbad 4", "0 setfmtbad 5", "0 meta",
                                  "0 setfmt -1", "conv 0 0 5", "0 meta", "conv 0 1 5", "1 meta", "1 setfmt 5", "1 setfmt 1",
                                  "1 setfmt -1", "1 setfmtbad 1", "1 meta", "conv 1 0 10", "0 meta", "0 setfmt 0",
                                  "0 allocinit 1 1 1 1", "0 meta"],
    # four objects (identifiers of TwoObjModel.kstep): conversion chain through every slot, in place, copy, free
    "four_objects": ["3 init 1 2 2 2", "3 setmat 0 4 1,1 2,0 0,3 1,-1", "3 setmat 1 4 2,1 1,0 1,3 0,-1", "3 setfz0v 1 2 60,0 85,1",
                     "3 setfmt 1", "2 init 10 1 3 1", "2 setcell 0 0 2 9,9", "conv 3 2 4", "2 meta", "2 getmat 1", "conv 2 1 6",
                     "1 getfz0v 1", "conv 1 1 9", "conv 1 0 10", "0 getmat 1", "3 getmat 1", "2 allocinit 0 0 0 0", "conv 1 2 9",
                     "2 meta", "conv 0 3 10", "3 dims", "3 resize 0 2 2 2", "3 getmat 0", "conv 2 2 11", "conv 0 1 1", "1 dims",
                     "0 dims", "1 dims", "2 dims", "3 dims"],
    # pointer getters on allocations that are still 0: NULL answered to a successful call (raw pointer token
    # @N / @P, model: AccessorsModel.ptr_null); the library's own frequency vector handed back to it (DH90);
    # an allocation that was once non-zero keeps its pointer after shrinking to nothing
    "null_pointers": ["0 getfv", "0 getz0v", "0 fmin", "0 setfvself", "0 resize 0 0 0 1", "0 getmat 0", "0 getfz0v 0", "0 getz0v",
                      "0 getfv", "0 setfvself", "1 resize 0 0 0 2", "1 setfv 2 3 1", "1 setfvself", "1 getfv", "conv 2 3 0", "3 dims",
                      "3 getfv", "0 resize 1 1 1 1", "0 getmat 0", "0 getz0v", "0 resize 1 0 0 1", "0 getmat 0", "0 getz0v",
                      "0 setfz0v 0 0", "0 getfz0v 0", "0 resize 0 0 0 0", "0 getfv", "2 setfvself"],
    # fmin / fmax are the first / last element, not the lowest / highest (c15_fmin_fmax_lowest_highest_refuted_unordered)
    # which frequency setter refuses what (c15_frequency_setters_accept_any_value): only add_frequency refuses negatives
    "frequency_values": ["0 resize 0 0 0 3", "0 setfv 3 -2 0 2", "0 getfv", "0 setfreq 0 -7", "0 setfreq 1 -7", "0 setfreq 3 1",
                         "0 getfreq 0", "0 fmin", "0 addfreq -1", "0 addfreq 0", "0 setfv 4 5 -5 5 -5", "0 getfv", "0 setfvself",
                         "conv 0 1 0", "1 getfv", "1 setfreq 3 -1", "1 fmax"],
    "unordered_frequencies": ["0 resize 0 0 0 3", "0 setfv 3 3 1 2", "0 fmin", "0 fmax", "0 getfv", "0 setfvself", "0 fmin"],
    "mode_switches": ["0 init 4 2 2 2", "0 setz0v 2 10,0 20,0", "0 setfz0 1 1 99,0", "0 getz0 0", "0 getz0v",
                      "0 getfz0v 0", "0 getfz0v 1", "0 setz0 0 5,0", "0 hasfz0", "0 getz0v", "0 setfz0v 0 2 1,0 2,0",
                      "0 setallz0 7,0", "0 getfz0 1 1", "0 setfz0 1 0 3,0", "0 setz0v 2 8,0 9,0", "0 getfz0v 1"],
}


def classify(runner, ops, first):
    """Which single candidate defect of the code as found explains the difference?"""
    script = "\n".join(ops) + "\n"
    if first.get("model_predicts_fault"):
        return None          # the repaired model itself predicts this fault: not one of the repaired defects
    for q in ("d4", "d5", "d6", "d40"):
        try:
            d = runner.compare(script, as_found=q)
        except RuntimeError:
            continue
        if d is None or (d.get("model_predicts_fault") and d["kind"] == "fault"):
            return "D" + q[1:]
    return None


def opname(op):
    p = op.split()
    if not p:
        return ""
    return p[0] if p[0] in ("conv", "reset") else (p[1] if len(p) > 1 else p[0])


def report(ctx, runner, ops, d, origin):
    """Shrink, classify and record one difference."""
    def fails(cand):
        try:
            x = runner.compare("\n".join(cand) + "\n")
        except RuntimeError:
            return False
        return x is not None and x["kind"] == d["kind"]
    small = datalib.shrink(ops[:d["op_index"] + 1] if 0 <= d["op_index"] < len(ops) else ops, fails,
                           budget=150 if ctx.tier == "quick" else 400)
    d2 = runner.compare("\n".join(small) + "\n") or d
    last = small[d2["op_index"]] if 0 <= d2.get("op_index", -1) < len(small) else small[-1]
    defect = classify(runner, small, d2)
    san = d2.get("san") or {}
    sig = {"kind": d2["kind"], "op": opname(last), "line": d2.get("line"),
           "function": san.get("function"), "error": san.get("error"), "defect": defect}
    key = tuple(sorted((k, str(v)) for k, v in sig.items()))
    if key in ctx.extra.setdefault("_seen", set()):
        return
    ctx.extra["_seen"].add(key)
    what = ("vnadata: model and implementation differ at `%s` (%s%s); shrunk script of %d ops%s"
            % (last, d2["kind"], (" " + str(san.get("error"))) if san else "", len(small),
               ("; explained by candidate defect %s of the code as found" % defect) if defect else ""))
    ctx.violation(sig, what, {"script": small, "first_difference": {k: v for k, v in d2.items() if k != "stderr"},
                              "sanitizer": d2.get("stderr", "")[-1200:], "origin": origin,
                              "how": "ocaml/_build/drv_data < script | harness data_harness resolve ; data_harness run < script"})
    os.makedirs(CORPUS, exist_ok=True)
    name = "auto_%s_%s_%s.script" % (d2["kind"], opname(last), defect or "x")
    p = os.path.join(CORPUS, name)
    if not os.path.exists(p):
        with open(p, "w") as f:
            f.write("# minimised by checks/C15.py (%s)\n" % origin + "\n".join(small) + "\n")


# ---------------------------------------------------------------- caller vectors (step_chk)
# (prefix script, [(op, index args, documented length of the vector at that state)])
VEC_STATES = [
    (["0 init 1 2 2 3"], {"setfv": 3, "setmat": 4, "setfromvec": 3, "setz0v": 2, "setfz0v": 2}, (2, 2, 3)),
    (["0 init 1 3 3 2", "0 resize 1 2 2 1"], {"setfv": 1, "setmat": 4, "setfromvec": 1, "setz0v": 2, "setfz0v": 2}, (2, 2, 1)),
    (["0 init 0 2 3 2", "0 setfz0 1 2 9,0"], {"setfv": 2, "setmat": 6, "setfromvec": 2, "setz0v": 3, "setfz0v": 3}, (2, 3, 2)),
    (["0 init 10 1 3 1", "0 addfreq 7"], {"setfv": 2, "setmat": 3, "setfromvec": 2, "setz0v": 3, "setfz0v": 3}, (1, 3, 2)),
    (["0 init 0 0 0 2"], {"setfv": 2, "setmat": 0, "setfromvec": 2, "setz0v": 0, "setfz0v": 0}, (0, 0, 2)),
    (["0 resize 0 2 1 0"], {"setfv": 0, "setmat": 2, "setfromvec": 0, "setz0v": 2, "setfz0v": 2}, (2, 1, 0)),
]
COQ_OPS = {"init": "OInit Z %s %s %s %s", "resize": "OResize Z %s %s %s %s", "addfreq": "OAddFreq Z %s",
           "setfz0": "OSetFz0 Z %s %s %s"}


def zlit(x):
    x = int(str(x).split(",")[0])
    return "(%d)%%Z" % x


def coq_prefix(lines):
    out = []
    for l in lines:
        p = l.split()
        out.append("(" + COQ_OPS[p[1]] % tuple(zlit(a) for a in p[2:]) + ")")
    return "[" + "; ".join(out) + "]"


def vec_cases(rng, quick):
    """-> list of (prefix lines, harness op line, Coq op term).  Values are small integers."""
    cases = []

    def add(prefix, op, idx, n):
        vals = [rng.randint(1, 9) for _ in range(n)]
        line = "0 %s! %s%d %s" % (op, "".join("%d " % i for i in idx), n, " ".join("%d,0" % v for v in vals))
        lst = "[" + "; ".join(zlit(v) for v in vals) + "]"
        cons = {"setfv": "OSetFreqVec Z %s", "setmat": "OSetMatrix Z %s %s", "setfromvec": "OSetFromVec Z %s %s %s",
                "setz0v": "OSetZ0Vec Z %s", "setfz0v": "OSetFz0Vec Z %s %s"}[op]
        cases.append((prefix, line.strip(), "(" + cons % tuple([zlit(i) for i in idx] + [lst]) + ")"))

    for prefix, need, (r, c, f) in VEC_STATES:
        for op, k in sorted(need.items()):
            if op == "setmat" or op == "setfz0v":
                good, bad = [[0], [f - 1]], [[f], [-1]]
            elif op == "setfromvec":
                good, bad = [[0, 0], [r - 1, c - 1]], [[r, 0], [0, c], [-1, 0]]
            else:
                good, bad = [[]], []
            good = [g for g in good if all(x >= 0 for x in g)]
            for n in sorted(set(x for x in (k - 1, k, k + 1, 1) if x >= 1)):
                for g in good[:1 if quick else 2]:
                    add(prefix, op, g, n)
            for b in bad:
                add(prefix, op, b, 1)          # refused before the vector is read: no fault
    return cases


def caller_vectors(ctx, runner):
    cases = vec_cases(ctx.rng, ctx.tier == "quick")
    src = ["Require Import List ZArith.", "Require Import LV.Data.DataModel.", "Import ListNotations.",
           "Definition st l := run Z 0%Z 50%Z fixed (vd_alloc Z 0%Z 50%Z) l.",
           "Definition chk l o := (short_vector Z (st l) o, match o_ret Z (snd (step_chk Z 0%Z 50%Z fixed (st l) o)) "
           "with ROk => 0 | RFail => 1 | RFault => 2 end).",
           "Eval vm_compute in ["]
    src.append(";\n".join("chk %s %s" % (coq_prefix(p), o) for p, _, o in cases))
    src.append("].")
    rc, out, err = ctx.coq_eval("c15_vec_cases", "\n".join(src) + "\n")
    got = re.findall(r"\(\s*(true|false)\s*,\s*(\d)\s*\)", out)
    if rc != 0 or len(got) != len(cases):
        ctx.obligation("tie:caller_vector_reads", False, "model evaluation failed: %s" % (err or out)[-300:])
        ctx.unproved("tie:caller_vector_reads", "coqc could not evaluate step_chk on the cases", "%d cases" % len(cases))
        return
    bad = 0
    nfault = 0
    env = ctx.run_env(leak=True)
    env["ASAN_OPTIONS"] += ":symbolize=0"
    seen = set()
    for (prefix, line, coqop), (short, ret) in zip(cases, got):
        want = {"0": "ok", "1": "fail", "2": "fault"}[ret]
        if (short == "true") != (want == "fault"):
            want = "inconsistent-model"
        script = "\n".join(prefix + [line]) + "\n"
        # own process per case; the report is classified by its first line, no symbolizer needed
        rc, out, err = vplib.sh([runner.exe, "run"], input=script, timeout=120, env=env)
        rl = [l.split() for l in out.split("\n") if l.startswith("R ")]
        san = vplib.asan_signature(err) if rc != 0 else None
        if rc == 0 and len(rl) == len(prefix) + 1:
            have = rl[-1][1]
        elif san and san.get("error") == "heap-buffer-overflow" and len(rl) == len(prefix) and "READ of size" in err:
            have = "fault"
        else:
            have = "other:%s" % (san or rc)
        ctx.count(("callervec", line.split()[1], want))
        nfault += want == "fault"
        if have != want:
            bad += 1
            key = (line.split()[1], want, have.split(":")[0])
            if key in seen:
                continue                    # one report per (op, model verdict, implementation verdict)
            seen.add(key)
            ctx.violation({"kind": "caller_vector", "op": line.split()[1], "model": want, "impl": have.split(":")[0]},
                          "vnadata: `%s` after %s: model (step_chk) says %s, implementation %s"
                          % (line, prefix, want, have),
                          {"script": prefix + [line], "model_term": coqop, "sanitizer": err[-800:],
                           "how": "data_harness run < script (own process); Eval vm_compute of DataModel.step_chk"})
    ctx.traces_validated += len(cases)
    ctx.extra["caller_vector_cases"] = {"total": len(cases), "model_fault": nfault}
    ctx.obligation("tie:caller_vector_reads", bad == 0 and nfault > 0,
                   "%d cases (%d over-reads predicted), %d differ" % (len(cases), nfault, bad))
    ctx.log("caller vectors: %d cases, %d predicted over-reads, %d differ" % (len(cases), nfault, bad))


def run_batch(ctx, runner, seqs, origin):
    """seqs: list of op lists; run them in one process each side (separated by reset).  On a
    difference, isolate the sequence, report it, and continue with the rest."""
    pending = list(seqs)
    nbad = 0
    while pending:
        ops = []
        starts = []
        for s in pending:
            starts.append(len(ops))
            ops.append("reset")
            ops.extend(s)
        d = runner.compare("\n".join(ops) + "\n")
        if d is None:
            ctx.traces_validated += len(pending)
            return nbad
        k = d["op_index"]
        which = 0
        for i, st in enumerate(starts):
            if st <= k:
                which = i
        if d["kind"] == "resolve":
            which = 0
        ctx.traces_validated += which
        bad = pending[which]
        d1 = runner.compare("\n".join(bad) + "\n")
        if d1 is not None:
            report(ctx, runner, bad, d1, origin)
            nbad += 1
        pending = pending[which + 1:]
        if nbad >= 6:
            ctx.notes.append("%s: stopped after %d differing sequences" % (origin, nbad))
            return nbad
    return nbad


def run(ctx):
    ctx.level = "proof"
    ctx.trusted_base = [
        "Coq 8.16.1 kernel; vm_compute for the concrete examples and refutation witnesses",
        "axioms: none (Print Assumptions of every theorem of Properties_C15.v: Closed under the global context)",
        "hand-written model coq/Data/DataModel.v (checked-memory model of vnadata_alloc.c, vnadata.h accessors, z0 files), "
        "tied to the implementation by op-script correspondence on every run; the specification coq/Data/ArraySpec.v "
        "(abstract array, type rule dims_fit, documented vector lengths) is read against vnadata(3) by hand",
        "extraction (ExtrOcamlBasic) + ocaml/drv_data.ml glue; harness/data_harness.c; gcc ASan/UBSan/LSan",
        "the format string is an opaque token (6 canonical strings, 6 strings that must be refused); allocation failure is not modelled here (C12)",
        "premise call_ok of c15f_history_invariant (every _vnadata_set_simple_format call passes a producible descriptor): holds by "
        "reading its two callers, vnadata_load_touchstone.c and vnadata_save.c; the three format models (FormatModel, AccessorsModel, "
        "DataModel.fmt) are linked by reading",
        "hand-written coq/Data/TwoObjModel.v (machine of any number of objects and the abstract machine with spec_convert, read against "
        "vnadata(3) by hand) and coq/Data/AccessorsModel.v (alloc_and_init, get_type_name, format vector + cached string); the N-object "
        "machine is tied through its two-object instance (c15_two_object_machine_embeds), the accessors by directed and random scripts",
    ]
    ctx.assumptions = ["values are abstract (0, 50 and literals); int arguments are unbounded integers with an explicit "
                       "range guard on rows*columns",
                       "both objects are valid pointers returned by vnadata_alloc (NULL / bad magic arguments not exercised)",
                       "callers pass vectors of at least the documented length (premise vec_ok of the refinement theorems; "
                       "a shorter buffer is an over-read: model RFault, ASan report, tied by the caller-vector cases)",
                       "default build: VNADATA_NO_BOUNDS_CHECK is not defined (with it the inline accessors have no index tests)"]
    ctx.rule = ("one evaluation = one operation executed by model and implementation with equal outcome and digest; "
                "distinct non-trivial = distinct (op name, return class, type, rows, cols, freqs, z0 mode) tuples observed")
    quick = ctx.tier == "quick"

    ok, res = ctx.coq_obligations(["Data/DataProofs.v", "Data/RefineProofs.v", "Data/InterleaveProofs.v",
                                   "Data/TwoObjProofs.v", "Data/AccessorsProofs.v", "Properties_C15.v"])
    runner = datalib.Runner(ctx)
    # the index tests of the inline accessors exist only without VNADATA_NO_BOUNDS_CHECK; were it
    # defined, the index-refusal cases of the correspondence below are the concrete failing inputs
    nbc = vnadata_no_bounds_check_defined(ctx)
    ctx.obligation("build:bounds_checks_compiled_in", not nbc,
                   "VNADATA_NO_BOUNDS_CHECK %s" % ("is defined in the build" if nbc else "not defined"))

    # ---------------------------------------------------------------- the format language (package N)
    # parser of vnadata_set_format / printer behind vnadata_get_format as coded (coq/Data/Format*.v,
    # Properties_C15f.v), tied by exhaustive small-alphabet enumeration + generated + mutated strings
    import c15_format
    ctx.extra["format_language"] = c15_format.run_part(ctx)

    # ---------------------------------------------------------------- caller vectors
    caller_vectors(ctx, runner)

    # ---------------------------------------------------------------- corpus + directed
    seqs = []
    if os.path.isdir(CORPUS):
        for fn in sorted(os.listdir(CORPUS)):
            if fn.endswith(".script"):
                seqs.append([l.strip() for l in open(os.path.join(CORPUS, fn)) if l.strip() and not l.startswith("#")])
    ncorpus = len(seqs)
    seqs += [v for k, v in sorted(DIRECTED.items())]
    nb = run_batch(ctx, runner, seqs, "corpus+directed")
    ctx.log("corpus %d + directed %d sequences: %d differ" % (ncorpus, len(DIRECTED), nb))

    # ---------------------------------------------------------------- bounded exhaustive
    alpha = datagen.exhaustive_alphabet()
    ex = [list(t) for t in itertools.product(alpha, repeat=2)]
    if quick:
        pool = [list(t) for t in itertools.product(alpha, repeat=3)]
        ex += ctx.rng.sample(pool, 3000)
    else:
        ex += [list(t) for t in itertools.product(alpha, repeat=3)]
        for _ in range(40000):
            ex.append([ctx.rng.choice(alpha) for _ in range(4)])
    nbad = 0
    for i in range(0, len(ex), 4000):
        nbad += run_batch(ctx, runner, ex[i:i + 4000], "exhaustive alphabet of %d ops" % len(alpha))
        if nbad >= 6:
            break
    ctx.extra["exhaustive_sequences"] = len(ex)
    ctx.log("bounded-exhaustive: %d sequences (alphabet %d): %d differ" % (len(ex), len(alpha), nbad))

    # ---------------------------------------------------------------- random histories
    nrand, length = (60, 120) if quick else (600, 300)
    if not ok:
        nrand *= 3          # a proof obligation broke: search harder for a concrete failing input
    rnd = []
    for i in range(nrand):
        maxdim = 3 if i % 4 else 5
        rnd.append(datagen.random_script(ctx.rng, length if i % 3 else length // 4, maxdim=maxdim,
                                         maxfreq=3 if i % 5 else 6))
    # conversions among all four object slots
    multi = [datagen.multi_object_script(ctx.rng) for _ in range(150 if quick else 3000)]
    nbad = 0
    for i in range(0, len(multi), 150):
        nbad += run_batch(ctx, runner, multi[i:i + 150], "multi-object conversion walks")
        if nbad >= 6:
            break
    ctx.log("multi-object: %d conversion walks over %d objects: %d differ" % (len(multi), datagen.NOBJ, nbad))
    ctx.sample({"multi_object_script": multi[0]})
    nbad = 0
    for i in range(0, len(rnd), 20):
        nbad += run_batch(ctx, runner, rnd[i:i + 20], "random histories")
        if nbad >= 6:
            break
    ctx.log("random: %d histories of up to %d ops: %d differ" % (len(rnd), length, nbad))
    ctx.sample({"random_script_head": rnd[0][:12]})
    ctx.sample({"exhaustive_sequence": ex[len(ex) // 2]})

    # ---------------------------------------------------------------- coverage accounting
    stats(ctx, runner, seqs + ex[:2000] + rnd + multi)
    ctx.extra.pop("_seen", None)
    new = unknown_violations(ctx)
    ctx.obligation("tie:data_model_vs_implementation", not new, "%d differing sequences" % len(new))
    if nbc and not new:
        ctx.unproved("build:bounds_checks_compiled_in", "VNADATA_NO_BOUNDS_CHECK is defined: the inline accessors "
                     "have no index tests", "corpus, exhaustive and random index cases")
    if not ok and not new:
        ctx.unproved("Properties_C15", "Coq build failed: " + getattr(ctx, "_last_coq_log", "")[-400:],
                     "%d random histories, %d exhaustive sequences, corpus" % (len(rnd), len(ex)))


def vnadata_no_bounds_check_defined(ctx):
    """The places a definition could come from: the check's config.h and the repo's vnadata headers
    (the compiler command line of vplib.build_harness has no -D for it)."""
    for p in (os.path.join(vplib.VERIF, "harness", "cfg", "config.h"),
              os.path.join(ctx.repo, "src", "vnadata.h"), os.path.join(ctx.repo, "src", "vnadata_internal.h")):
        try:
            if re.search(r"^\s*#\s*define\s+VNADATA_NO_BOUNDS_CHECK", open(p).read(), flags=re.M):
                return True
        except OSError:
            pass
    return False


def unknown_violations(ctx):
    known = vplib.load_known()
    return [v for v in ctx.violations if vplib.match_known(ctx.prop, v.sig, known) is None]


def stats(ctx, runner, seqs):
    """Count evaluations and distinct non-trivial cases from the model transcript."""
    ops = []
    for s in seqs:
        ops.append("reset")
        ops.extend(s)
    raw, res, err = runner.model("\n".join(ops) + "\n")
    lines = [l for l in raw.split("\n") if l and not l.startswith("def")]
    dist = {}
    for i in range(0, len(lines) - 1, 2):
        r, d = lines[i].split(), lines[i + 1].split()
        k = i // 2
        name = datalib_opname(ops[k]) if k < len(ops) else "?"
        key = (name, r[1], d[3], d[4], d[5], d[6], d[d.index("Z") + 1] if "Z" in d else "")
        ctx.count(key)
        dist[name] = dist.get(name, 0) + 1
    ctx.extra["op_distribution"] = dict(sorted(dist.items()))
    ctx.extra["return_classes"] = {}
    for i in range(0, len(lines) - 1, 2):
        rc = lines[i].split()[1]
        ctx.extra["return_classes"][rc] = ctx.extra["return_classes"].get(rc, 0) + 1


def datalib_opname(op):
    return opname(op)
