"""Tie between the extracted Coq model of vnacal_load (coq/CalFile/CalFileModel.v, driver
ocaml/drv_calfile.ml) and the library: both consume the same libyaml node tree (harness/yamltree.c).

The trusted glue below attaches the *oracle* values to the tree (what libc's sscanf/strtod and two
small library predicates answer for each scalar) - see the header of CalFileModel.v.  Inputs whose
oracle values this glue cannot determine with certainty (exotic number spellings, property keys
outside the identifier syntax) are skipped and counted."""
import math
import re
from fractions import Fraction

import vplib
import calfile_lib as L

WS = " \t\n\v\f\r"
DEC = r"(?:\d+\.?\d*|\.\d+)(?:[eE][+-]?\d+)?"
HEX = r"0[xX](?:[0-9a-fA-F]+\.?[0-9a-fA-F]*|\.[0-9a-fA-F]+)(?:[pP][+-]?\d+)?"
SPECIAL = r"(?:[iI][nN][fF](?:[iI][nN][iI][tT][yY])?|[nN][aA][nN])"
FLOAT_FULL = re.compile(r"^[ \t\n\v\f\r]*([+-]?(?:%s|%s|%s))[ \t\n\v\f\r]*$" % (HEX, DEC, SPECIAL))
FLOAT_PREFIX = re.compile(r"^[ \t\n\v\f\r]*([+-]?(?:%s|%s|%s))" % (HEX, DEC, SPECIAL))
# spellings on which scanf and this glue might disagree: nan(...), a number followed by a letter that could
# continue it ("1e", "0x", "1e+", "infin"), digit-group or locale issues
RISKY_HEX = re.compile(r"^[+-]?0[xX](?![0-9a-fA-F.])|[pP](?![+-]?\d)|[pP][+-]?\d+[.\d]*[eEpP]")
RISKY_DEC = re.compile(r"[\d.][eE](?![+-]?\d)|[nN][aA][nN]\(|[iI][nN][fF][iI]")


class _Risky(object):
    """Spellings on which scanf/strtod and this glue might disagree (a letter that could continue a
    number: '1e', '0x', '1e+', 'infin', 'nan(..)'), judged token by token."""
    def search(self, text):
        for tok in re.split(r"[ \t\n\v\f\r]+", text):
            if re.match(r"^[+-]?0[xX]", tok):
                if RISKY_HEX.search(tok):
                    return True
            elif RISKY_DEC.search(tok):
                return True
        return None


RISKY = _Risky()


def cstr(s):
    return s.split("\0")[0]


def tofloat(tok):
    t = tok.strip(WS)
    try:
        if re.match(r"^[+-]?0[xX]", t):
            return float.fromhex(t)
        return float(t)
    except (ValueError, OverflowError):
        return float("inf") if not t.startswith("-") else float("-inf")


def scan_int(text):
    """sscanf(text, "%d %c") == 1 -> value as stored in the int, else None."""
    m = re.match(r"^[ \t\n\v\f\r]*([+-]?\d+)[ \t\n\v\f\r]*$", text)
    if not m:
        return None
    v = int(m.group(1))
    v = max(-2 ** 63, min(2 ** 63 - 1, v))          # strtol clamps to long
    v &= 0xffffffff                                 # stored into an int
    return v - 2 ** 32 if v >= 2 ** 31 else v


def scan_real(text):
    """sscanf(text, "%lf %c") == 1 -> ('B'|'N'|'M'|'I'|('P', Fraction)), unsure flag."""
    unsure = bool(RISKY.search(text))
    m = FLOAT_FULL.match(text)
    if not m:
        return "B", unsure
    v = tofloat(m.group(1))
    if v != v:
        return "N", unsure
    if v == float("inf"):
        return "I", unsure
    if v < 0 or (v == float("-inf")):
        return "M", unsure
    return ("P", Fraction(v)), unsure


def parse_complex(text):
    """Port of parse_complex of vnacal_load.c (strtod prefix semantics); returns complex or None."""
    cur = text
    code = 0
    v1 = v2 = 0.0
    m = FLOAT_PREFIX.match(cur)
    if m:
        v1 = tofloat(m.group(1))
        code += 1
        cur = cur[m.end():]
        m = FLOAT_PREFIX.match(cur)
        if m:
            v2 = tofloat(m.group(1))
            code += 1
            cur = cur[m.end():]
    cur = cur.lstrip(" \t\n")
    if cur[:1] == "+":
        code |= 8
        cur = cur[1:]
    elif cur[:1] == "-":
        code |= 16
        cur = cur[1:]
    cur = cur.lstrip(" \t\n")
    if cur[:1] in ("I", "J", "i", "j") and cur[:1] != "":
        code |= 4
        cur = cur[1:]
    cur = cur.lstrip(" \t\n")
    if cur != "":
        return None
    if code == 1:
        return complex(v1, 0.0)
    if code == 4 or code == 12:
        return complex(0.0, 1.0)
    if code == 5:
        return complex(0.0, v1) if v1 == v1 else complex(float("nan"), float("nan"))
    if code == 6:
        return complex(v1, v2)
    if code == 13:
        return complex(v1, 1.0)
    if code == 20:
        return complex(0.0, -1.0)
    if code == 21:
        return complex(v1, -1.0)
    return None


def type_of(text):
    u = text.upper()
    return u if u in L.TYPES else None


KEY_OK = re.compile(u"^(?:[A-Za-z_\u0080-\U0010ffff]|\\\\.)(?:[A-Za-z0-9_ \u0080-\U0010ffff-]|\\\\.)*(?<! )$|^(?:[A-Za-z_\u0080-\U0010ffff]|\\\\.)(?:[A-Za-z0-9_ \u0080-\U0010ffff-]|\\\\.)*\\\\ $", re.S)


def vline(first):
    """The two sscanf calls on the first line (at most 80 bytes)."""
    if first is None:
        return None
    s = first.split(b"\0")[0].decode("latin-1")

    def two(prefix):
        m = re.match(r"^" + prefix + r"[ \t\n\v\f\r]*([+-]?\d+)\.[ \t\n\v\f\r]*([+-]?\d+)", s)
        if not m:
            return None
        return scan_int(m.group(1)), scan_int(m.group(2))
    r = two("#VNACal")
    if r:
        return "N %d %d" % r
    r = two("#VNACAL")
    if r:
        return "O %d %d" % r
    return "B"


class Unsure(Exception):
    pass


def emit(nd, out, in_props, stats):
    """Serialise a node for the driver; raises Unsure when an oracle value is not certain."""
    stack = [(nd, in_props, False)]
    while stack:
        n, props, iskey = stack.pop()
        if n.kind == "S":
            text = cstr(n.text)
            try:
                raw = text.encode("utf-8", "surrogateescape")
            except UnicodeError:
                raise Unsure("encoding")
            si = scan_int(text)
            sr, unsure = scan_real(text)
            z = parse_complex(text)
            if (unsure or RISKY.search(text)) and not props:
                raise Unsure("number spelling %r" % text[:30])
            keyok = 1
            if iskey and props and not KEY_OK.match(text):
                raise Unsure("property key %r" % text[:30])
            r = sr if isinstance(sr, str) else "P %d %d" % (sr[1].numerator, sr[1].denominator)
            out.append("S %s %s %s %d %s %d" % (raw.hex() or "-", "-" if si is None else si, r, 1 if z is not None else 0,
                                               type_of(text) or "-", keyok))
        elif n.kind == "Q":
            out.append("Q %d" % len(n.items))
            for x in reversed(n.items):
                stack.append((x, props, False))
        elif n.kind == "M":
            out.append("M %d" % len(n.pairs))
            for k, v in reversed(n.pairs):
                p2 = props or (k.kind == "S" and cstr(k.text) == "properties")
                stack.append((v, p2, False))
                stack.append((k, props, True))
        else:
            out.append("C")


def tie(ctx, cases, trees, outcome, violate):
    drv = ctx.ocaml_driver("drv_calfile")
    inp = []
    order = []
    skipped = {"unsure": 0, "crash": 0, "system": 0, "toobig": 0, "notree": 0}
    for c in cases:
        oc = outcome.get(c.idx)
        doc = trees.get(c.path)
        if oc is None or doc is None:
            skipped["notree"] += 1
            continue
        if oc[0] == "crash" or oc[0].startswith("bad:"):
            skipped["crash"] += 1
            continue
        if oc[0] == "system":
            # allocation failure or an unreadable file: outside the model (ESys of the model = property key only)
            skipped["system"] += 1
            continue
        if "toobig" in doc["flags"]:
            skipped["toobig"] += 1
            continue
        v = vline(doc["first"])
        if v is None:
            v = "B"
        lines = []
        has = doc["root"] is not None and doc["error"] is None
        try:
            if has:
                emit(doc["root"], lines, False, skipped)
        except Unsure as e:
            skipped["unsure"] += 1
            k = "unsure:" + str(e).split(" ")[0]
            skipped[k] = skipped.get(k, 0) + 1
            continue
        inp.append("DOC %s %d" % (v, 1 if has else 0))
        inp.extend(lines)
        order.append(c)
    rc, out, err = vplib.sh([drv], input="\n".join(inp) + "\n", timeout=900)
    ok = rc == 0
    ctx.obligation("tie:CalFileModel-driver", ok, "" if ok else "driver failed rc=%d %s" % (rc, err[-300:]))
    if not ok:
        ctx.unproved("tie:CalFileModel", "the extracted model driver failed: %s" % err[-200:], "nothing could be compared")
        return
    blocks = out.split("END\n")
    agree = 0
    disagree = 0
    notwf = 0
    for c, blk in zip(order, blocks):
        ls = [x for x in blk.split("\n") if x]
        oc = outcome[c.idx]
        if not ls:
            continue
        if ls[0].startswith("ERR"):
            mcls = ls[0].split()[1]
            if mcls == "ESYS":
                mcls = "system"
            if oc[0] != mcls:
                disagree += 1
                violate(c, {"kind": "disagreement", "op": "vnacal_load", "class": "model %s / library %s" % (mcls, oc[0])},
                        "the model of the loader answers Error %s, vnacal_load answers %s" % (mcls, oc[0]), {"model": ls[:3]})
            else:
                agree += 1
            continue
        # model Ok
        if oc[0] != "ok":
            disagree += 1
            violate(c, {"kind": "disagreement", "op": "vnacal_load", "class": "model Ok / library %s" % oc[0]},
                    "the model of the loader accepts the document, vnacal_load fails with %s" % oc[0], {"model": ls[:3]})
            continue
        if ls[0].split()[2] != "1":
            notwf += 1
            violate(c, {"kind": "refuted", "theorem": "load_ok_wf"}, "the model returns Ok with a calibration that is not well formed (load_ok_wf is false of the model)", {"model": ls[:6]})
        st = oc[1]
        mcals = []
        i = 1
        while i < len(ls):
            p = ls[i].split()
            cal = {"name": L.unhex(p[1]).decode("utf-8", "surrogateescape"), "type": p[2], "rows": int(p[3]), "cols": int(p[4]),
                   "F": int(p[5]), "z0": p[6], "fv": [], "terms": []}
            i += 1
            while i < len(ls) and ls[i].startswith("F "):
                cal["fv"].append(ls[i][2:])
                cal["terms"].append(ls[i + 1].split()[1:])
                i += 2
            mcals.append(cal)
        diff = None
        slots = [s for s in st["slots"]]
        if len(slots) != len(mcals):
            diff = "%d calibrations in the model, %d in the library" % (len(mcals), len(slots))
        else:
            for k, (m, s) in enumerate(zip(mcals, slots)):
                if s is None or (m["name"], m["type"], m["rows"], m["cols"], m["F"]) != (s["name"], s["type"], s["rows"], s["cols"], s["F"]):
                    diff = "calibration %d: model %r, library %r" % (k, (m["name"], m["type"], m["rows"], m["cols"], m["F"]),
                                                                      s and (s["name"], s["type"], s["rows"], s["cols"], s["F"]))
                    break
                z0 = complex(50.0, 0.0) if m["z0"] == "-" else parse_complex(L.unhex(m["z0"]).decode("utf-8", "surrogateescape"))
                if not (L.same_bits(z0.real, s["z0"].real) and L.same_bits(z0.imag, s["z0"].imag)):
                    diff = "calibration %d: z0 model %r library %r" % (k, z0, s["z0"])
                    break
                for fi in range(m["F"]):
                    f = m["fv"][fi]
                    fv = float("inf") if f == "I" else float(Fraction(f))
                    if not L.same_bits(fv, s["fvec"][fi]):
                        diff = "calibration %d: frequency %d model %r library %r" % (k, fi, fv, s["fvec"][fi])
                        break
                    if len(m["terms"][fi]) != len(s["terms"]):
                        diff = "calibration %d: %d error terms in the model, %d in the library" % (k, len(m["terms"][fi]), len(s["terms"]))
                        break
                    for t, h in enumerate(m["terms"][fi]):
                        if h == "?":
                            diff = "calibration %d: the model never writes term %d at frequency %d" % (k, t, fi)
                            break
                        z = parse_complex(L.unhex(h).decode("utf-8", "surrogateescape"))
                        y = s["terms"][t][fi]
                        if z is None or not (L.same_bits(z.real, y.real) and L.same_bits(z.imag, y.imag)):
                            diff = "calibration %d: term %d at frequency %d model %r library %r" % (k, t, fi, z, y)
                            break
                    if diff:
                        break
                if diff:
                    break
        if diff:
            disagree += 1
            violate(c, {"kind": "disagreement", "op": "vnacal_load", "class": "content"}, "model and library load different content: " + diff, {"model": ls[:4]})
        else:
            agree += 1
    ctx.traces_validated += agree
    ctx.extra["model_tie"] = {"compared": len(order), "agree": agree, "disagree": disagree, "model_ok_not_wf": notwf, "skipped": skipped}
    ctx.obligation("tie:CalFileModel-vs-vnacal_load", disagree == 0 and notwf == 0,
                   "%d inputs compared, %d disagreements, %d Ok-but-not-wf" % (len(order), disagree, notwf))
