"""Per-property manifest entries (bin/mkmanifest turns this into MANIFEST.json)."""
HOOK_COMMITS = []
NOTES = ("Technique family: machine-checked proof in Coq 8.16.1.  bin/check <ID> --tier quick|thorough rebuilds the "
         "implementation from /repo's working tree into a temporary directory, regenerates the translated parts of "
         "the model, re-proves the theorems, runs the correspondence of the executable models against the library and "
         "writes evidence/<ID>.json.  See DESIGN.md.")
NOT_APPLICABLE = {}
CHECKS = {
 "C04": {
  "text": ("Theorems (no axioms). Two-port: over an abstract field with conjugation, for each of the 72 conversions the "
           "output satisfies its defining relation of vnaconv(3) for exactly the states satisfying the input's; aliased = "
           "separate; round trip; chains; the nine input-impedance functions; every hypothesis (including those on the "
           "converted matrix in round trip / chain) shown satisfiable over Q[i]. The Gallina definitions and per-function lemmas "
           "are regenerated from src/vnaconv_*.c on every run (translator, validated against the compiled functions). n-port: "
           "the executable model of the nine n-port functions (on the LU model) is tied by exact-rational correspondence for "
           "n = 1..6 (aliased and separate); ABOUT THAT MODEL, for ALL n and for stozn/stoyn/ztosn/ytosn/ztoyn/ytozn: the returned "
           "matrix satisfies its port relation of vnaconv(3) (n ports) for exactly the states satisfying the input's, with "
           "hypotheses on the input only (the factored matrix I-S, S Z0+Z0*, Z+Z0, I+Z0 Y, Z, Y has a trivial kernel; k_j <> 0; "
           "z_j + conj z_j <> 0), stated at Q[i] where C19's theorem discharges the pivot hypothesis (abstract-field versions with "
           "`pivots nonzero` as premise in Conv/ConvNModel.v), with a 3-port non-vacuity example; for the three input-impedance functions stozin/ztozin/ytozin and ALL n "
           "(c04_*zin_phys_all_n): in every state of the network in which all ports but t are terminated in their reference impedance "
           "(a_j = 0), v_t = zi_t i_t for the vector zi the model returns (hypotheses: the divisor 1 - s_tt resp. x_tt is non-zero, "
           "the factored matrix has a trivial kernel), with a concrete driven 3-port state meeting every hypothesis; the model is proved equal to the "
           "translated two-port functions at n = 2 for either pivot order; mathcomp theorems for all n at SPECIFICATION level "
           "(`*_spec_all_n`, K (A^-1 B) K^-1 written with invmx) for stozn/stoyn/ztosn/ytosn; independent relation oracles search "
           "for failing inputs."),
  "design_ref": "DESIGN.md section 4 C04 and section 9; docs/design_C04.md",
  "note": ("Trusted: Coq kernel (+vm_compute), translator conv2.py (validated per run), the reading of vnaconv(3) in "
           "Conv/ConvRel.v (two ports) and Conv/ConvNModel.v relSn/relZn/relYn (n ports), exact arithmetic in place of binary64 "
           "(rounding outside every theorem). Partial: ytozin has no separate n = 2 equality theorem (its all-n theorem applies); the nine two-port *tozi theorems carry, for X <> S, the extra premise Xtos_ok (denominators of "
           "vnaconv_Xtos), wider than the singular set of vnaconv_Xtozi itself; the n = 2 model = two-port theorems are stated for "
           "the two constant comparators with an explicit pivot hypothesis (shown satisfiable; that the real comparator meets a "
           "nonzero pivot is C19's c19_pivots_nonzero_iff_nonsingular, not composed at n = 2); the mathcomp specification and "
           "the model are linked through the defining linear system (c04_stozn_defining_system_all_n) and by having the same "
           "same-states theorem, not by a matrix-type bridge."),
  "technique": "Coq proof over a model regenerated from the C text (field tactic) + list-matrix linear algebra on the LU model (all n) + mathcomp specification + differential correspondence",
 },
}
