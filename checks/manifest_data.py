"""Per-property manifest entries (bin/mkmanifest turns this into MANIFEST.json)."""
HOOK_COMMITS = []
NOTES = ("Technique family: machine-checked proof in Coq 8.16.1.  bin/check <ID> --tier quick|thorough rebuilds the "
         "implementation from /repo's working tree into a temporary directory, regenerates the translated parts of "
         "the model, re-proves the theorems, runs the correspondence of the executable models against the library and "
         "writes evidence/<ID>.json.  See DESIGN.md.")
NOT_APPLICABLE = {}
CHECKS = {
 "C04": {
  "text": ("Theorems (no axioms) over an abstract field with conjugation: for each of the 72 two-port conversions the "
           "output satisfies its defining relation for exactly the states satisfying the input's relation; aliased = "
           "separate; round trip; chains; the nine input-impedance functions.  The Gallina definitions are regenerated "
           "from src/vnaconv_*.c on every run and validated against the compiled functions.  n-port functions: "
           "hand-written executable model (on the LU model) tied by exact-rational correspondence for n = 1..6, "
           "aliased and separate, plus an independent relation oracle and agreement with the two-port functions at n = 2."),
  "design_ref": "DESIGN.md section 4, C04",
  "note": ("Trusted: Coq kernel, translator conv2.py (validated per run), hand-written relations of vnaconv(3) in "
           "Conv/ConvRel.v, exact arithmetic in place of binary64 (rounding outside every theorem); the n-port "
           "functions are covered by correspondence with a hand model, not by a general-n theorem."),
  "technique": "Coq proof over regenerated model (field tactic) + differential correspondence",
 },
}
