"""Per-property manifest entries (bin/mkmanifest turns this into MANIFEST.json)."""
HOOK_COMMITS = []
NOTES = ("Technique family: machine-checked proof in Coq 8.16.1.  bin/check <ID> --tier quick|thorough rebuilds the "
         "implementation from /repo's working tree into a temporary directory, regenerates the translated parts of "
         "the model, re-proves the theorems, runs the correspondence of the executable models against the library and "
         "writes evidence/<ID>.json.  See DESIGN.md.")
NOT_APPLICABLE = {}
CHECKS = {
 "C04": {
  "text": ("Theorems (no axioms). Two-port: over an abstract field with conjugation, for each of the 72 conversions the "
           "output satisfies its defining relation of vnaconv(3) for exactly the states satisfying the input's; aliased = "
           "separate; round trip; chains; the nine input-impedance functions; hypotheses shown satisfiable over Q[i]. The "
           "Gallina definitions and per-function lemmas are regenerated from src/vnaconv_*.c on every run (translator, "
           "validated against the compiled functions). n-port: mathcomp theorems for all n for stozn/stoyn/ztosn/ytosn/"
           "ztoyn/ytozn at specification level; the executable model of the nine n-port functions (on the LU model) is "
           "tied by exact-rational correspondence for n = 1..6 (aliased and separate) and proved equal to the translated "
           "two-port functions at n = 2 for either pivot order; independent relation oracles search for failing inputs."),
  "design_ref": "DESIGN.md section 4 C04 and section 9; docs/design_C04.md",
  "note": ("Trusted: Coq kernel (+vm_compute), translator conv2.py (validated per run), the reading of vnaconv(3) in "
           "Conv/ConvRel.v, exact arithmetic in place of binary64 (rounding outside every theorem). Partial: the three "
           "n-port *zin functions have n = 2 theorems (ytozin none) and correspondence only; the link from the general-n "
           "specification to the executable model is C19's LU correctness theorem."),
  "technique": "Coq proof over a model regenerated from the C text (field tactic, mathcomp) + differential correspondence",
 },
}
