"""C20 - too few standards are reported; every determining set of standards solves.

1. Coq: coq/SolveCount/CountModel.v (executable model of the counting / dispatch / re-entrancy
   logic of vnacal_new_add_* and vnacal_new_solve), CountProofs.v, Properties_C20.v (obligations).
2. Tie (white box, exact): the extracted model (ocaml/drv_solvecount) and the real library
   (harness/solvecount_harness.c, ASan+UBSan+LSan, allocation interposer) run the same add/solve
   histories; per-system equation lists, counters, unknown counts, solve decision, "calibration
   replaced only on success" and "nothing else changes" are compared after every operation.
3. Independent identifiability oracle (lib/solvecount.py, exact Q[i] / GF(p^2)): for every history
   prefix the documented matrix equation is expanded independently of the library; required C
   outcomes: EDOM when the model's count is deficient, success + exact error terms + exact
   correction of an independent random device when the exact system has full column rank
   (and a simple condition estimate is moderate); nothing otherwise.
4. Directed probes (separate processes): solve with no standards (zero-length VLA, D22), failing
   solves with measurement-error modelling on (leak, D21), failure after a success keeps the
   previous calibration, a frequency vector of length 0 (solve succeeds as coded).
5. Order of effects of _vnacal_new_solve_internal: the TRL dispatch test (_vnacal_new_solve_is_trl, incl.
   standards with unset S cells, D69), the write-back of the solved unknown parameters (per entry of
   vn_unknown_parameter_list: vpmr_frequencies, gamma vector present, vectors bitwise unchanged) and
   injected allocation failures (allocwrap: the first request, a random request before the write-back,
   each calloc of the write-back) are compared with the model after every solve.
6. Session 5: the theorems determining_set_solves / system_verdict_by_count_and_rank / count_test_and_full_rank_solve
   (coq/SolveCount/Determining*.v) about the executable numeric model of the non-iterative solve; numeric_model_tie runs
   that model (extracted, ocaml/drv_calcore2) at sampled solve points against the library's equation counters, the exact
   rank of the oracle, the true terms (exact) and the library's terms; families gen_minimal_scaled (square minimal
   determining sets, receiver readings scaled by 1e-7 .. 1e7) and gen_resolve_vector (re-solves after a success with a
   standard given as a frequency table off the calibration grid).
"""
import itertools
import math
import os
import re
from fractions import Fraction

import vplib
import solvecount as sc
from solvecount import QI, ZERO, ONE

TOL = 1e-8
COND_LIMIT = 1e5
NUMERIC_MAX_UNKNOWNS = 8        # ocaml/drv_calcore2 solves systems of up to 8 unknowns exactly
TYPE_CODE = {"T8": 0, "U8": 1, "TE10": 2, "UE10": 3, "T16": 4, "U16": 5, "UE14": 6, "E12": 7}   # E12 = _VNACAL_E12_UE14


# ---------------------------------------------------------------------------- scenario generation
def fx(x):
    return "%s %s" % (float(x.re).hex(), float(x.im).hex())


class Scenario(object):
    def __init__(self, ty, r, c, F, rng, sid, scale=1):
        self.ty, self.r, self.c, self.F, self.sid = ty, r, c, F, sid
        self.P = max(r, c)
        self.scale = Fraction(scale)
        self.terms = sc.Terms(ty, r, c, rng, scale=scale)
        self.slotf = {}         # slot -> (values at the calibration frequencies, table knots (GHz), table values): vector parameters
        self.slots = {0: ZERO, 1: ONE, 2: QI(-1)}
        self.slot_kind = {0: "known", 1: "known", 2: "known"}
        self.ops = []           # ("par",k) ("unk",k,g) ("merr",x) ("add",std) ("solve",) ("terms",) ("apply",S)
        self.group = None       # scenarios with the same standards in different orders share a group

    def new_slot(self, value, kind="known", guess=None):
        if kind == "known":
            # vnacal_make_scalar_parameter returns the predefined handles for 0, 1 and -1
            for k0 in (0, 1, 2):
                if value == self.slots[k0]:
                    return k0
        k = len(self.slots)
        self.slots[k] = value
        self.slot_kind[k] = kind
        if kind == "known":
            self.ops.append(("par", k))
        else:
            self.ops.append(("unk", k, guess))
        return k


def vector_slot(s, fn, knots):
    """a known parameter given as a table over frequency (vnacal_make_vector_parameter): fn(x) exact, x = f / 1 GHz;
    the calibration frequencies are 1, 2, .. GHz; slots[k] = the value at the first calibration frequency"""
    k = len(s.slots)
    at_f = [fn(Fraction(f + 1)) for f in range(s.F)]
    s.slots[k] = at_f[0]
    s.slot_kind[k] = "known"
    s.slotf[k] = (at_f, list(knots), [fn(x) for x in knots])
    s.ops.append(("vpar", k))
    return k


def make_pool(s, rng, with_unknown=False, vector_gamma=False):
    """Standard list for one scenario: reflects per port, double reflects / throughs / lines per pair,
    full-matrix standards."""
    P = s.P
    # parameters that are created but never used (another cal kit): they shift the handles of the
    # parameters used below over the growth points 8, 16, 32 of the per-calibration parameter hash
    for _ in range(rng.choice([0, 0, 1, 2, 5, 5, 7, 13, 13, 21, 29])):
        s.new_slot(QI(Fraction(rng.randint(1, 9), 11), Fraction(rng.randint(1, 9), 13)))
    if vector_gamma:
        # a frequency-dependent reflect tabulated OFF the calibration grid on more points than the interpolation order,
        # smooth enough that the interpolation error is far below the tolerance (spacing 0.0213 GHz, variation scale
        # several GHz), not a low-order rational function of f
        g0 = QI(Fraction(3, 10), Fraction(2, 5))
        q = Fraction(rng.randint(30, 60))
        w = Fraction(rng.randint(8, 14))

        def gfun(x):
            return g0 * QI(1, x / w) / QI(1 + x * x * x / q, x * x / (q + 7))
        h = Fraction(213, 10000)
        knots = [Fraction(613, 1000) + h * j for j in range(int((s.F + Fraction(1, 2) - Fraction(613, 1000)) / h) + 1)]
        g1 = vector_slot(s, gfun, knots)
    else:
        g1 = s.new_slot(QI(Fraction(3, 10), Fraction(2, 5)))
    g2 = s.new_slot(QI(Fraction(-1, 5), Fraction(1, 2)))
    tl = s.new_slot(QI(Fraction(1, 2), Fraction(-1, 3)))
    pool = []

    def cell(k):
        return (k, s.slots[k])
    for p in range(1, P + 1):
        for nm, k in (("short", 2), ("open", 1), ("match", 0), ("gamma", g1)):
            pool.append(sc.Standard("r1", [p], [[cell(k)]], "%s@%d" % (nm, p)))
    for p in range(1, P + 1):
        for q in range(p + 1, P + 1):
            pq = [p, q] if rng.random() < 0.7 else [q, p]
            pool.append(sc.Standard("th", pq, [[cell(0), cell(1)], [cell(1), cell(0)]], "thru@%d%d" % tuple(pq)))
            pool.append(sc.Standard("ln", [p, q], [[cell(0), cell(tl)], [cell(tl), cell(0)]], "line@%d%d" % (p, q)))
            pool.append(sc.Standard("ln", [q, p], [[cell(g1), cell(tl)], [cell(1), cell(g2)]], "net@%d%d" % (q, p)))
            pool.append(sc.Standard("r2", [p, q], [[cell(2), cell(0)], [cell(0), cell(1)]], "so@%d%d" % (p, q)))
            pool.append(sc.Standard("r2", [q, p], [[cell(0), cell(0)], [cell(0), cell(g2)]], "mg@%d%d" % (q, p)))
    # reflect-only standards described as complete matrices with explicit zero off-diagonal handles
    for p in range(1, P + 1):
        for q in range(p + 1, P + 1):
            pool.append(sc.Standard("ln", [p, q], [[cell(2), cell(0)], [cell(0), cell(g1)]], "sg0@%d%d" % (p, q)))
    if P > 1:
        ports = list(range(1, P + 1))
        pool.append(sc.Standard("mm", ports, [[cell(0) for _ in range(P)] for _ in range(P)], "allmatch"))
        diag = [2, 1, g2]
        pool.append(sc.Standard("mm", ports, [[cell(diag[a] if a == b else 0) for b in range(P)] for a in range(P)], "diagm"))
    # full-matrix standards on all ports, mapped in a (possibly permuted) order
    for v in range(2 if P > 1 else 1):
        ports = list(range(1, P + 1))
        if v == 1:
            rng.shuffle(ports)
        S = []
        for a in range(P):
            row = []
            for b in range(P):
                k = s.new_slot(QI(Fraction(rng.randint(-7, 7), 10), Fraction(rng.randint(-7, 7), 10)))
                row.append(cell(k))
            S.append(row)
        pool.append(sc.Standard("mm", ports, S, "full%d" % v))
    # abbreviated measurement matrices where the type allows them and every port has a row / column
    ty, r, c = s.ty, s.r, s.c
    for st in pool:
        n = len(st.ports)
        can_rows = n < r and max(st.ports) <= r and ty != "U16"
        can_cols = n < c and max(st.ports) <= c and ty != "T16"
        st.abbrev_rows = can_rows and rng.random() < 0.5
        st.abbrev_cols = can_cols and rng.random() < 0.5
        st.term = {i: QI(Fraction(rng.randint(-4, 4), 10), Fraction(rng.randint(-4, 4), 10)) for i in range(P)}
    return pool


def add_line(s, st):
    """Script line (C form, model form) for adding a standard; also returns the exact full M."""
    P, r, c = s.P, s.r, s.c
    M = s.terms.measure(sc.true_S(st, P))
    know = sc.Knowledge(st, P, r, c)
    rows, cols = know.rows, know.cols
    head = "add %s %d %d" % (st.kind, len(rows), len(cols))
    if st.kind == "r1":
        head += " %d %d" % (st.S[0][0][0], st.ports[0])
    elif st.kind == "r2":
        head += " %d %d %d %d" % (st.S[0][0][0], st.S[1][1][0], st.ports[0], st.ports[1])
    elif st.kind == "th":
        head += " %d %d" % (st.ports[0], st.ports[1])
    elif st.kind == "ln":
        head += " %d %d %d %d %d %d" % (st.S[0][0][0], st.S[0][1][0], st.S[1][0][0], st.S[1][1][0], st.ports[0], st.ports[1])
    else:
        n = len(st.ports)
        head += " %d %d %s %d %s" % (n, n, " ".join(str(st.S[a][b][0]) for a in range(n) for b in range(n)),
                                     n, " ".join(str(p) for p in st.ports))
    if M is None:
        return None, None, None, None
    vals = " ".join(fx(M[i][j]) for i in rows for j in cols)
    vslots = [st.S[a][b][0] for a in range(len(st.S)) for b in range(len(st.S[a])) if st.S[a][b][0] in s.slotf]
    if vslots and s.F > 1:
        # a frequency-dependent standard: the measurement at each further calibration frequency
        import copy
        for f in range(1, s.F):
            stf = copy.copy(st)
            stf.S = [[(k, s.slotf[k][0][f]) if k in s.slotf else (k, v) for (k, v) in row] for row in st.S]
            Mf = s.terms.measure(sc.true_S(stf, P))
            if Mf is None:
                return None, None, None, None
            vals += " " + " ".join(fx(Mf[i][j]) for i in rows for j in cols)
    return head + " " + vals, head, M, know


def build_history(s, pool, order, rng, apply_prob=0.5):
    """ops: add each standard of `order`, solve after each; after a solve that may succeed also read the
    terms and correct an independent random device."""
    P = s.P
    for idx in order:
        s.ops.append(("add", pool[idx]))
        s.ops.append(("solve",))
        s.ops.append(("terms",))
        if s.r == s.c and rng.random() < apply_prob:
            Sd = [[QI(Fraction(rng.randint(-6, 6), 10), Fraction(rng.randint(-6, 6), 10)) for _ in range(P)] for _ in range(P)]
            s.ops.append(("apply", Sd))
            s.ops.append(("solve",))      # apply moves the calibration out of the vnacal_new_t: solve again


def emit(s):
    """(C script lines, model script lines, per-op records)."""
    cl, ml, recs = [], [], []
    hdr = "new %s %d %d %d" % (s.ty, s.r, s.c, s.F)
    cl.append(hdr)
    ml.append(hdr)
    recs.append({"op": "new"})
    for op in s.ops:
        if op[0] == "par":
            cl.append("par %d %s" % (op[1], fx(s.slots[op[1]])))
            ml.append("par %d" % op[1])
            recs.append({"op": "par"})
        elif op[0] == "vpar":
            at_f, knots, vals = s.slotf[op[1]]
            cl.append("vpar %d %d %s %s" % (op[1], len(knots), " ".join(float(x * 10 ** 9).hex() for x in knots),
                                            " ".join(fx(v) for v in vals)))
            ml.append("par %d" % op[1])
            recs.append({"op": "par"})
        elif op[0] == "unk":
            cl.append("unk %d %d" % (op[1], op[2]))
            ml.append("unk %d %d" % (op[1], op[2]))
            recs.append({"op": "unk"})
        elif op[0] == "cor":
            cl.append("cor %d %d %s" % (op[1], op[2], op[3]))
            ml.append("cor %d %d" % (op[1], op[2]))
            recs.append({"op": "cor"})
        elif op[0] == "merr":
            cl.append("merr %s" % op[1])
            ml.append("merr %s" % ("off" if op[1] == "off" else "on"))
            recs.append({"op": "merr"})
        elif op[0] == "add":
            c_line, m_line, M, know = add_line(s, op[1])
            if c_line is None:
                continue            # singular physics for this draw (never seen with near-ideal terms)
            cl.append(c_line)
            ml.append(m_line)
            if getattr(op[1], "unknown", False):
                know = None         # unknown parameter: outside the oracle
            recs.append({"op": "add", "std": op[1], "M": M, "know": know})
        elif op[0] == "rawadd":     # (c_line, m_line)
            cl.append(op[1])
            ml.append(op[2])
            recs.append({"op": "add", "std": None, "M": None, "know": None})
        elif op[0] == "solve":
            cl.append("solve")
            ml.append("solve")
            recs.append({"op": "solve"})
        elif op[0] == "solvefail":  # (N, "early" | "wb", j)
            cl.append("solvefail %d" % op[1])
            ml.append("solve 1 early" if op[2] == "early" else "solve 1 wb %d" % op[3])
            recs.append({"op": "solvefail", "kind": op[2], "j": op[3], "n": op[1]})
        elif op[0] == "terms":
            cl.append("terms")
            recs.append({"op": "terms", "model": False})
        elif op[0] == "pget":
            cl.append("pget %d" % op[1])
            recs.append({"op": "pget", "slot": op[1], "model": False})
        elif op[0] == "apply":
            Md = s.terms.measure(op[1])
            if Md is None:
                continue
            cl.append("apply " + " ".join(fx(Md[i][j]) for i in range(s.P) for j in range(s.P)))
            ml.append("takecal")
            recs.append({"op": "apply", "S": op[1]})
    cl.append("end")
    ml.append("end")
    recs.append({"op": "end"})
    return cl, ml, recs


# ---------------------------------------------------------------------------- parsing of harness / model output
KV = re.compile(r"(\w+)=(\S*)")


def parse_kv(line):
    d = dict(KV.findall(line))
    d["_tag"] = line[:1]
    return d


def eq_counts(d):
    return [int(x) for x in d["eq"].split(",")] if d.get("eq") else []


# ---------------------------------------------------------------------------- the identifiability oracle along a history
class OracleState(object):
    def __init__(self, s, exact):
        self.s = s
        ty, r, c = s.ty, s.r, s.c
        self.nsys = sc.doc_systems(ty, c)
        self.nunk = sc.doc_unknowns_per_system(ty, r, c)
        self.gf = [sc.RankGF(self.nunk) for _ in range(self.nsys)]
        self.qi = [sc.RankQI(self.nunk) for _ in range(self.nsys)] if exact else None
        self.rows = [[] for _ in range(self.nsys)]
        self.el_known = set()
        self.unmodelled = False     # a standard outside the oracle (unknown parameters, raw adds)

    def add(self, rec):
        s = self.s
        if rec["know"] is None:
            self.unmodelled = True
            return
        know, M = rec["know"], rec["M"]
        r, c = s.r, s.c
        El = s.terms.El
        Mp = [[(M[i][j] - El[i][j]) if know.measured[i][j] else sc.UNKNOWN for j in range(c)] for i in range(r)]
        if sc.has_leak(s.ty):
            for i in range(r):
                for j in range(c):
                    if i != j and know.measured[i][j] and not know.connected(i, j):
                        self.el_known.add((i, j))
        eqs = sc.equations_for(s.ty, r, c, know, Mp)
        for k, lst in eqs.items():
            for coeffs, rhs in lst:
                if sc.is_trivial(coeffs, rhs):
                    continue
                self.gf[k].add(coeffs)
                if self.qi is not None:
                    self.qi[k].add(coeffs)
                self.rows[k].append(coeffs)

    def el_determined(self):
        s = self.s
        if not sc.has_leak(s.ty):
            return True
        return all((i, j) in self.el_known for i in range(s.r) for j in range(s.c) if i != j)

    def full_rank_modp(self):
        return all(g.rank() == self.nunk and not g.poisoned for g in self.gf)

    def full_rank_exact(self):
        return all(q.rank() == self.nunk for q in self.qi)

    def well_conditioned(self):
        worst = 0.0
        for k in range(self.nsys):
            worst = max(worst, sc.cond_estimate(self.rows[k], self.nunk))
        return worst <= COND_LIMIT, worst


def close(a, b):
    return abs(a - b) <= TOL * max(1.0, abs(b))


# ---------------------------------------------------------------------------- evaluation of one scenario
def evaluate(ctx, s, recs, cout, mout, stats, use_model):
    """Compare harness output with the model output and with the oracle.  Returns list of problems."""
    problems = []
    exact = s.exact
    orc = OracleState(s, exact)
    had_cal = False
    last_counts = None
    last_solve_rc = None        # rc of the previous solve if nothing was added / changed since
    final = {}
    unk_per_sys = sc.doc_unknowns_per_system(s.ty, s.r, s.c)
    accepted = []               # records of the accepted adds so far (for the numeric-model tie)
    s.last_np = None
    for i, rec in enumerate(recs):
        cd = parse_kv(cout[i])
        md = parse_kv(mout[i]) if (use_model and rec["op"] not in ("terms", "pget")) else None
        op = rec["op"]

        def bad(kind, what):
            problems.append({"kind": kind, "op": op, "index": i, "what": what, "c": cout[i][:300],
                             "model": (mout[i][:300] if md is not None else None)})
        if op == "new":
            if cd.get("rc") != "0":
                bad("tie", "vnacal_new_alloc failed")
                return problems, final
            if int(cd["unknowns"]) != unk_per_sys or int(cd["systems"]) != sc.doc_systems(s.ty, s.c) or \
                    int(cd["terms"]) != sc.doc_error_terms("UE14" if s.ty == "E12" else s.ty, s.r, s.c):   # E12 is solved as UE14
                bad("doc", "layout differs from the table of vnacal_new(3)")
            if md is not None and (md["unknowns"], md["systems"]) != (cd["unknowns"], cd["systems"]):
                bad("tie", "model layout differs from the C layout")
            last_counts = [0] * int(cd["systems"])
            continue
        if op in ("par", "unk", "cor", "merr"):
            if cd["_tag"] == "E" and md is not None and md.get("rc") != cd.get("rc"):
                bad("tie", "set_m_error outcome differs")
            if op == "merr":
                last_solve_rc = None
            continue
        if op == "add":
            if md is not None:
                for key in ("rc", "errno", "eq", "tot", "max", "meas", "unk", "corr", "list"):
                    if md.get(key) != cd.get(key):
                        bad("tie", "add: field %s differs (model %s, C %s)" % (key, md.get(key), cd.get(key)))
                        break
            counts = eq_counts(cd)
            if any(a > b for a, b in zip(last_counts, counts)):
                bad("monotone", "an equation count decreased")
            last_counts = counts
            last_solve_rc = None
            if cd.get("calsame") != "1":
                bad("state", "add changed the calibration")
            if cd["rc"] == "0":
                orc.add(rec)
                accepted.append(rec)
            elif rec["std"] is not None:
                bad("accept", "a documented standard was rejected: " + rec["std"].key())
            ctx.traces_validated += 1 if md is not None else 0
            continue
        if op == "solve":
            counts = eq_counts(cd)
            src = md if md is not None else cd
            mcounts = eq_counts(src)
            p_len = int(src["unk"])
            corr = int(src["corr"])
            tot = int(src["tot"])
            if md is not None:
                for key in ("eq", "tot", "max", "meas", "unk", "corr"):
                    if md.get(key) != cd.get(key):
                        bad("tie", "solve: field %s differs" % key)
                        break
            # "too few equations", decided from the scenario: the counts are those of the MODEL run on the add calls of the
            # script (never the library's counters); a system with fewer equations than error terms is deficient on every
            # path (DD90: the iterative solver used to test the totals only), and with unknown parameters so is
            # equations + correlation equations < error terms + unknown parameters.  The TRL path has no count test.
            if md is None:
                # no model driver: fall back to the library's counters (reported as a failed driver obligation elsewhere)
                pass
            is_trl_path = (src.get("trl") == "1")
            deficient = (not is_trl_path) and (any(x < unk_per_sys for x in mcounts) or
                                               (p_len > 0 and tot + corr < unk_per_sys * len(mcounts) + p_len))
            if md is not None and md.get("deficient") is not None and (md["deficient"] == "1") != deficient:
                bad("tie", "model's deficiency decision (%s) differs from the decision recomputed from its own counts (%s)"
                    % (md["deficient"], deficient))
            if p_len > 0 and not is_trl_path and any(x < unk_per_sys for x in mcounts) and \
                    not (tot + corr < unk_per_sys * len(mcounts) + p_len):
                stats["short_system_total_passes"] += 1
                ctx.count(("short-system-unknown", s.ty, s.r, s.c, tuple(mcounts), p_len))
            if p_len > 0 and cd.get("trl") == "0":
                # the count test of the iterative solver, recomputed from the library's own (white-box) counters:
                # measurement equations + correlation equations against error terms + unknown parameters
                c_tot, c_corr, c_unk = int(cd["tot"]), int(cd["corr"]), int(cd["unk"])
                x_len = unk_per_sys * len(counts)
                formula = c_tot + c_corr < x_len + c_unk or any(x < unk_per_sys for x in counts)
                if formula != deficient:
                    bad("tie", "count decision with unknown parameters: model %s, equations %d + correlated %d vs terms %d + parameters %d"
                        % (deficient, c_tot, c_corr, x_len, c_unk))
                if c_corr > 0 and c_unk > c_corr and c_tot + c_corr == x_len + c_unk - 1 and c_tot > x_len:
                    stats["one_short_with_correlated"] += 1
                    ctx.count(("one-short-correlated", s.ty, s.r, s.c, c_tot, c_unk, c_corr))
            ok = cd["rc"] == "0"
            stats["solves"] += 1
            if ok:
                s.n_ok = getattr(s, "n_ok", 0) + 1
            final = {"counts": counts, "deficient": deficient, "ok": ok}
            # ---- re-entrancy / state invariants, always
            if cd["stsame"] != "1":
                bad("state", "solve changed measurements / equations / counters")
            if not ok:
                want = "EINVAL" if getattr(s, "nofreq", False) else "EDOM"
                if cd["errno"] != want:
                    bad("errno", "failed solve reported %s instead of %s" % (cd["errno"], want))
                if cd["calsame"] != "1" or (cd["cal"] == "1") != had_cal:
                    bad("state", "failed solve touched the previous calibration")
                if cd["live"] != "0":
                    bad("leak", "failed solve changed the number of live blocks by %s" % cd["live"])
                if cd["cb"] != "1":
                    bad("errno", "failed solve invoked the error callback %s times" % cd["cb"])
            else:
                if cd["cal"] != "1":
                    bad("state", "successful solve left no calibration")
                if had_cal and p_len == 0 and cd["live"] != "0":     # (solved unknown parameters are stored in the vnacal_t)
                    bad("leak", "successful solve replacing a calibration changed live blocks by %s" % cd["live"])
                had_cal = True
            # the verdict does not depend on what earlier solves left behind (calibration present or moved to
            # the vnacal_t, solved parameter values): same standards, same verdict
            if last_solve_rc is not None and last_solve_rc != cd["rc"]:
                bad("state", "two solves of the same standards gave different verdicts (%s then %s)" % (last_solve_rc, cd["rc"]))
            last_solve_rc = cd["rc"]
            if not ok and "0" in cd.get("pvsame", ""):
                bad("state", "failed solve changed the stored value of an unknown parameter (pvsame=%s)" % cd["pvsame"])
            if ok and (":0;" in cd.get("pv", "") or any(x.split(":")[1] != str(s.F) for x in cd.get("pv", "").split(";") if x)):
                bad("state", "successful solve left an unknown parameter without solution / on another grid: %s" % cd["pv"])
            if md is not None:
                # the model is given the numeric verdict of the C run as its oracle; everything else must agree
                for key in ("rc", "errno", "cal", "calsame", "trl", "pv"):
                    if md.get(key) != cd.get(key):
                        bad("tie", "solve: field %s differs (model %s, C %s)" % (key, md.get(key), cd.get(key)))
                        break
                if any(a == "1" and b != "1" for a, b in zip(md.get("pvsame", ""), cd.get("pvsame", ""))):
                    bad("tie", "solve: the model keeps a parameter value the library changed (model %s, C %s)"
                        % (md.get("pvsame"), cd.get("pvsame")))
                if cd.get("trl") == "1":
                    stats["trl_dispatched"] += 1
                    ctx.count(("trl", s.ty, s.sid))
                if ok and cd.get("pv"):
                    stats["writebacks"] += 1
                ctx.traces_validated += 1
            # ---- a point for the numeric-model tie (numeric_model_tie): known standards, exact oracle, small systems
            s.last_np = None
            if (p_len == 0 and not orc.unmodelled and not s.merr and exact and unk_per_sys <= NUMERIC_MAX_UNKNOWNS
                    and not getattr(s, "nofreq", False) and cd.get("trl") != "1"):
                fe_ = orc.full_rank_exact()
                rec["np"] = {"adds": list(accepted), "counts": counts, "ok": ok, "fe": fe_, "el": orc.el_determined(),
                             "wc": (orc.well_conditioned()[0] if fe_ else False), "index": i, "terms_line": None}
                s.last_np = rec["np"]
            # ---- required outcomes
            verdict = "unconstrained"
            if getattr(s, "nofreq", False):
                verdict = "einval"
                if ok:
                    bad("errno", "solve succeeded although the frequency vector was never set")
                ctx.count(("nofreq", s.ty, s.r, s.c))
            elif deficient:
                verdict = "edom"
                stats["edom_required"] += 1
                if ok:
                    bad("edom", "solve succeeded with fewer equations than unknowns (counts %s + %d correlation equations, "
                        "%d error terms per system + %d unknown parameters)" % (mcounts, corr, unk_per_sys, p_len))
                ctx.count(("edom", s.ty, s.r, s.c, tuple(mcounts)))
            elif p_len == 0 and not orc.unmodelled and not s.merr:
                fr = orc.full_rank_modp()
                if exact:
                    fe = orc.full_rank_exact()
                    stats["exact_rank_checked"] += 1
                    if fr and not fe:
                        bad("oracle", "rank modulo p is full but exact rank is not (oracle bug)")
                    if fe and not fr:
                        stats["modp_unlucky"] += 1
                if fr and orc.el_determined():
                    wc, cn = orc.well_conditioned()
                    if wc:
                        verdict = "solve"
                        stats["solve_required"] += 1
                        if s.scale != 1 and all(x == unk_per_sys for x in mcounts):
                            stats["square_scaled_required"] += 1
                            ctx.count(("square-scaled", s.ty, s.r, s.c, str(s.scale)))
                        stats["worst_cond"] = max(stats["worst_cond"], cn)
                        if not ok:
                            bad("determining", "a determining set of standards was not solved (errno %s)" % cd["errno"])
                        ctx.count(("solve", s.ty, s.r, s.c, s.sid, i))
                    else:
                        stats["skipped_ill_conditioned"] += 1
                        ctx.count(None)
                elif fr:
                    stats["leakage_undetermined"] += 1
                    ctx.count(None)
                else:
                    stats["rank_deficient"] += 1
                    if ok:
                        stats["rank_deficient_but_solved"] += 1
                    ctx.count(None)
            else:
                ctx.count(None)
            if getattr(s, "trl_truth", False) and len(accepted) == 3 and not deficient:
                # a complete through / unknown reflect / unknown line set on a type with the analytic TRL path: it determines
                # the error terms and both parameters (the guesses select the root), in whatever order it was entered
                verdict = "solve"
                stats["trl_truth_required"] += 1
                ctx.count(("trl-truth", s.ty, s.sid))
                if not ok:
                    bad("determining", "a complete through / reflect / line set (order %s) was not solved (errno %s)"
                        % (s.trl_order, cd["errno"]))
            final["verdict"] = verdict
            rec["verdict"] = verdict
            s.last_verdict = verdict
            s.last_ok = ok
            continue
        if op == "solvefail":
            # an injected allocation failure inside vnacal_new_solve
            kind = rec["kind"]
            stats["alloc_faults"] += 1
            ctx.count(("solvefail", s.ty, s.r, s.c, kind, rec["j"]))
            if cd.get("failed") != "1":
                bad("tie", "the injected allocation failure (request %d) did not happen: allocs=%s" % (rec["n"], cd.get("allocs")))
                continue
            if cd["rc"] != "-1" or cd["errno"] != "ENOMEM":
                bad("errno", "solve with a failed allocation returned rc=%s errno=%s" % (cd["rc"], cd["errno"]))
            if cd["stsame"] != "1":
                bad("state", "solve with a failed allocation changed measurements / equations / counters")
            if cd["calsame"] != "1" or (cd["cal"] == "1") != had_cal:
                bad("state", "solve with a failed allocation touched the previous calibration")
            if cd["cb"] != "1":
                bad("errno", "solve with a failed allocation invoked the error callback %s times" % cd["cb"])
            if kind == "early":
                if "0" in cd.get("pvsame", ""):
                    bad("state", "allocation failure before the write-back changed a parameter value (pvsame=%s)" % cd["pvsame"])
                if cd["live"] != "0":
                    bad("leak", "solve with a failed allocation changed the number of live blocks by %s" % cd["live"])
            else:
                stats["writeback_faults"] += 1
            if md is not None:
                for key in ("rc", "errno", "cal", "calsame", "trl", "pv"):
                    if md.get(key) != cd.get(key):
                        bad("tie", "solvefail (%s %d): field %s differs (model %s, C %s)" % (kind, rec["j"], key, md.get(key), cd.get(key)))
                        break
                if any(a == "1" and b != "1" for a, b in zip(md.get("pvsame", ""), cd.get("pvsame", ""))):
                    bad("tie", "solvefail: the model keeps a parameter value the library changed (model %s, C %s)"
                        % (md.get("pvsame"), cd.get("pvsame")))
                ctx.traces_validated += 1
            last_solve_rc = None
            continue
        if op == "terms":
            if s.last_np is not None:
                s.last_np["terms_line"] = cout[i]
                s.last_np = None
            if getattr(s, "last_verdict", None) == "solve" and s.last_ok:
                p = cout[i].split()
                if p[1] == "none":
                    bad("determining", "no calibration after a successful solve")
                    continue
                nt, nf = int(p[1]), int(p[2])
                vals = [float(x) for x in p[3:]]
                exp = s.terms.expected_vector()
                if nt != len(exp):
                    bad("doc", "number of saved error terms %d differs from the documentation (%d)" % (nt, len(exp)))
                    continue
                worst = 0.0
                for f in range(nf):
                    for t in range(nt):
                        got = complex(vals[2 * (f * nt + t)], vals[2 * (f * nt + t) + 1])
                        want = exp[t].to_c()
                        worst = max(worst, abs(got - want) / max(1.0, abs(want)))
                stats["worst_term_error"] = max(stats["worst_term_error"], worst)
                if not worst <= TOL:
                    bad("determining", "solved error terms differ from the true terms by %.3g (relative)%s" % (
                        worst, " (a re-solve after a successful solve, standards given as frequency tables)"
                        if s.slotf and getattr(s, "n_ok", 0) >= 2 else ""))
                stats["terms_checked"] += 1
                if s.slotf and getattr(s, "n_ok", 0) >= 2:
                    stats["vector_resolve_terms"] += 1
                    ctx.count(("vector-resolve", s.ty, s.r, s.c, s.sid, i))
            continue
        if op == "pget":
            if getattr(s, "last_verdict", None) == "solve" and s.last_ok:
                p = cout[i].split()
                k, nf = int(p[1]), int(p[2])
                vals = [float(x) for x in p[3:]]
                want = s.slots[k].to_c()
                worst = max(abs(complex(vals[2 * f], vals[2 * f + 1]) - want) for f in range(nf))
                stats["worst_parameter_error"] = max(stats["worst_parameter_error"], worst)
                if not worst <= TOL:
                    bad("determining", "solved unknown parameter (slot %d) reads back as %s, true value %s (difference %.3g)%s"
                        % (k, complex(vals[0], vals[1]), want, worst,
                           ", standards added in the order " + s.trl_order if getattr(s, "trl_truth", False) else ""))
                stats["parameters_checked"] += 1
            continue
        if op == "apply":
            had_cal = False
            if md is not None and md.get("rc") != ("0" if cd["_tag"] == "Y" and "addcal-failed" not in cout[i] else "-1"):
                bad("tie", "add_calibration outcome differs from the model")
            if "addcal-failed" in cout[i]:
                continue
            if getattr(s, "last_verdict", None) == "solve" and s.last_ok:
                if cd.get("rc") != "0":
                    bad("determining", "vnacal_apply_m failed after a determining set was solved")
                    continue
                p = cout[i].split()[3:]
                vals = [float(x) for x in p]
                P = s.P
                worst = 0.0
                for f in range(s.F):
                    for a in range(P):
                        for b in range(P):
                            k = 2 * (f * P * P + a * P + b)
                            got = complex(vals[k], vals[k + 1])
                            worst = max(worst, abs(got - rec["S"][a][b].to_c()))
                stats["worst_dut_error"] = max(stats["worst_dut_error"], worst)
                if not worst <= TOL:
                    bad("determining", "corrected device differs from the true S by %.3g" % worst)
                stats["dut_checked"] += 1
            continue
        if op == "end":
            if cd.get("live") != "0":
                bad("leak", "%s blocks still live after vnacal_new_free / vnacal_free" % cd.get("live"))
    return problems, final


# ---------------------------------------------------------------------------- the numeric model at the solve points
def fsq(x):
    x = Fraction(x)
    return "%d/%d" % (x.numerator, x.denominator) if x.denominator != 1 else str(x.numerator)


def numeric_add_line(s, rec):
    """the _vnacal_new_add_common arguments of an accepted standard + its exact full M matrix, in the format of
    ocaml/drv_calcore2.ml (handles = slot numbers: 0 = VNACAL_ZERO, 1 = VNACAL_ONE, 2 = -1)"""
    st, know, M = rec["std"], rec["know"], rec["M"]
    if st.kind == "r1":
        sr, scn, diag, hs = 1, 1, 1, [st.S[0][0][0]]
    elif st.kind == "r2":
        sr, scn, diag, hs = 2, 2, 1, [st.S[0][0][0], st.S[1][1][0]]
    elif st.kind == "th":
        sr, scn, diag, hs = 2, 2, 0, [0, 1, 1, 0]
    elif st.kind == "ln":
        sr, scn, diag, hs = 2, 2, 0, [st.S[0][0][0], st.S[0][1][0], st.S[1][0][0], st.S[1][1][0]]
    else:
        n = len(st.ports)
        sr, scn, diag, hs = n, n, 0, [st.S[a][b][0] for a in range(n) for b in range(n)]
    mp = list(st.ports)
    mv = " ".join("%s %s" % (fsq(M[i][j].re), fsq(M[i][j].im)) for i in range(s.r) for j in range(s.c))
    return "add 0 0 0 %d %d %d %d %d 1 %d %s %d %s %d %s" % (
        len(know.rows), len(know.cols), sr, scn, diag, len(mp), " ".join(str(x) for x in mp),
        len(hs), " ".join(str(x) for x in hs), s.r * s.c, mv)


def parse_qi_list(tokens):
    v = [Fraction(t) for t in tokens]
    return [QI(v[k], v[k + 1]) for k in range(0, len(v) - 1, 2)]


def numeric_model_tie(ctx, points, stats):
    """Session 5.  At solve points of the histories (known standards, no error modelling, systems of at most 8 unknowns)
    the executable numeric model of the solve (coq/Cal/SolveSimple.v + CalQI.q_solve_system / q_error_terms, extracted:
    ocaml/drv_calcore2) is run on the accepted standards with the EXACT measurements and compared with
      (a) the library's equation counters per system            (hypothesis counts_agree of count_test_and_full_rank_solve),
      (b) the exact rank verdict of the oracle lib/solvecount.py (system_verdict_by_count_and_rank: ok <=> full column rank),
      (c) the true error terms, exactly                          (determining_set_solves),
      (d) the library: insufficient => EDOM; ok and well conditioned => success with the model's terms within 1e-8.
    Returns the number of problems."""
    import calcore
    try:
        drv = calcore.model_driver(ctx, "drv_calcore2")
    except vplib.BuildError as e:
        ctx.obligation("tie:numeric-model driver", False, str(e)[:200])
        return 1
    lines = []
    for s, rec in points:
        np_ = rec["np"]
        lines.append("cfg %d %d %d %d" % (TYPE_CODE[s.ty], s.r, s.c, len(s.slots)))
        for k in sorted(s.slots):
            if s.slot_kind[k] == "known":
                lines.append("pval %d %s %s" % (k, fsq(s.slots[k].re), fsq(s.slots[k].im)))
        for a in np_["adds"]:
            lines.append(numeric_add_line(s, a))
        lines.append("system")
    import time as _time
    _t0 = _time.time()
    rc, out, err = vplib.sh([drv], input="\n".join(lines) + "\n", timeout=1500)
    ctx.log("numeric model: %d points, driver %.1fs" % (len(points), _time.time() - _t0))
    if rc != 0:
        ctx.obligation("tie:numeric-model driver", False, "drv_calcore2 failed: " + err[-300:])
        return 1
    blocks = out.split("endsystem\n")
    nbad = 0
    reported = 0

    def bad(s, rec, what, library=False):
        nonlocal nbad, reported
        nbad += 1
        if reported < 3:
            reported += 1
            np_ = rec["np"]
            replay = {"type": s.ty, "dims": "%dx%d" % (s.r, s.c),
                      "standards": [a["std"].key() for a in np_["adds"]], "c_counts": np_["counts"], "c_solve_ok": np_["ok"],
                      "model_input": [numeric_add_line(s, a)[:400] for a in np_["adds"]][:12]}
            if library:
                ctx.violation({"kind": "disagreement", "op": "vnacal_new_solve", "class": "numeric-model"},
                              "%s %dx%d, solve after %d standards: %s" % (s.ty, s.r, s.c, len(np_["adds"]), what), replay)
            else:
                ctx.log("numeric-model tie: %s %dx%d: %s; %s" % (s.ty, s.r, s.c, what, replay))
    for (s, rec), blk in zip(points, blocks):
        np_ = rec["np"]
        ctx.count(("numeric-model", s.ty, s.r, s.c, tuple(np_["counts"]), np_["fe"]))
        bl = blk.split("\n")
        if any(l.startswith("add ") and l != "add rc=0" for l in bl):
            bad(s, rec, "the add model refuses a standard the library accepted: %s" % [l for l in bl if l.startswith("add ")], True)
            continue
        sysl = [l.split() for l in bl if l.startswith("SYS ")]
        el = [l for l in bl if l.startswith("E ")]
        if len(sysl) != len(np_["counts"]) or not el:
            bad(s, rec, "malformed model output")
            continue
        stats["numeric_points"] += 1
        ctx.traces_validated += 1
        verdicts = [x[2] for x in sysl]
        nrows = [int(x[3]) for x in sysl]
        unk = sc.doc_unknowns_per_system(s.ty, s.r, s.c)
        # (a) the two models and the library count the same equations
        if nrows != np_["counts"]:
            bad(s, rec, "assembled rows per system %s differ from vns_equation_count %s" % (nrows, np_["counts"]), True)
            continue
        if any((v == "insufficient") != (n < unk) for v, n in zip(verdicts, nrows)):
            bad(s, rec, "model verdicts %s do not follow the counts %s (unknowns %d)" % (verdicts, nrows, unk))
            continue
        insufficient = any(v == "insufficient" for v in verdicts)
        model_ok = all(v == "ok" for v in verdicts)
        if (el[0] != "E none") != model_ok:
            bad(s, rec, "q_error_terms answers although a system did not solve (or conversely)")
            continue
        leak_ok = (not sc.has_leak(s.ty)) or np_["el"]
        if insufficient:
            stats["numeric_insufficient"] += 1
            if np_["ok"]:
                bad(s, rec, "the numeric model has too few equations (%s, %d unknowns) but the library solved" % (nrows, unk), True)
            continue
        # (b) rank verdict of the model = exact rank of the oracle
        if leak_ok:
            if model_ok != np_["fe"]:
                bad(s, rec, "rank verdict of the numeric model (%s) differs from the exact rank of the oracle (full rank: %s)"
                    % (verdicts, np_["fe"]))
                continue
        if not model_ok:
            stats["numeric_singular"] += 1
            if np_["ok"]:
                stats["numeric_singular_but_library_solved"] += 1     # best effort: nothing is claimed
            continue
        stats["numeric_ok"] += 1
        E = parse_qi_list(el[0].split()[1:])
        # (c) the model returns the true terms, exactly
        if leak_ok:
            want = s.terms.expected_vector()
            if len(E) != len(want) or any(not (a == b) for a, b in zip(E, want)):
                bad(s, rec, "the numeric model solves but does not return the true error terms")
                continue
            stats["numeric_terms_exact"] += 1
        # (d) the library against the model
        if np_["wc"] and leak_ok:
            if not np_["ok"]:
                bad(s, rec, "the numeric model solves a well-conditioned determining set, the library does not", True)
                continue
            tl = np_.get("terms_line")
            if tl:
                p = tl.split()
                if p[1] != "none":
                    nt, nf = int(p[1]), int(p[2])
                    vals = [float(x) for x in p[3:]]
                    if nt != len(E):
                        bad(s, rec, "the library saves %d error terms, the model %d" % (nt, len(E)), True)
                        continue
                    worst = 0.0
                    for f in range(nf):
                        for t in range(nt):
                            got = complex(vals[2 * (f * nt + t)], vals[2 * (f * nt + t) + 1])
                            w = E[t].to_c()
                            worst = max(worst, abs(got - w) / max(1.0, abs(w)))
                    stats["numeric_worst_term_error"] = max(stats["numeric_worst_term_error"], worst)
                    if not worst <= TOL:
                        bad(s, rec, "error terms of the library differ from the numeric model by %.3g (relative)" % worst, True)
                        continue
                    stats["numeric_terms_vs_library"] += 1
    return nbad


# ---------------------------------------------------------------------------- scenario families
def dims_for(ty, maxp):
    out = []
    for r in range(1, maxp + 1):
        for c in range(1, maxp + 1):
            if sc.dims_ok(ty, r, c):
                out.append((r, c))
    return out


def gen_scenarios(ctx):
    rng = ctx.rng
    quick = ctx.tier == "quick"
    scen = []
    sid = 0
    for ty in sc.TYPES:
        for (r, c) in dims_for(ty, 3):
            P = max(r, c)
            if P <= 2:
                nsub = (4 if quick else 30)
                norder = 2 if quick else 4
            else:
                nsub = ((1 if ty in ("T16", "U16") else 4) if quick else 10)
                norder = (1 if ty in ("T16", "U16") else 2) if quick else 3
            if quick and P == 3 and ty in ("T16", "U16") and (r, c) != (3, 3):
                nsub = 1 if rng.random() < 0.5 else 0
            nunk = sc.doc_unknowns_per_system(ty, r, c)
            for sub in range(nsub):
                # one pool / one simulated VNA per subset; the same subset in several orders
                seed = rng.getrandbits(48)
                first = None
                chosen = None
                for o in range(norder):
                    import random
                    prng = random.Random(seed)
                    s = Scenario(ty, r, c, 1 if (sub + o) % 3 else 2, prng, sid)
                    sid += 1
                    pool = make_pool(s, prng)
                    if chosen is None:
                        # subset: random, size capped; large enough to have a chance to determine the terms
                        cap = min(len(pool), (6 if P == 1 else 9 if P == 2 else 14) if quick else (6 if P == 1 else 12 if P == 2 else 18))
                        if ty in ("T16", "U16") and P == 3:
                            cap = min(len(pool), 20 if quick else 24)
                        k = rng.randint(1, cap)
                        if sub % 2 == 0:
                            k = cap
                        chosen = rng.sample(range(len(pool)), k)
                    order = list(chosen)
                    rng.shuffle(order)
                    s.group = (ty, r, c, seed)
                    s.merr = False
                    s.exact = nunk <= 15 and (not quick or sub == 0)
                    build_history(s, pool, order, rng, apply_prob=0.35 if quick else 0.5)
                    scen.append(s)
    # exhaustive small scope: one-port calibrations, every subset of the four reflects + the full-matrix standard, every order
    for ty in sc.TYPES:
        import random
        seed = rng.getrandbits(48)
        base = Scenario(ty, 1, 1, 1, random.Random(seed), -1)
        npool = len(make_pool(base, random.Random(seed)))
        for k in range(0, npool + 1):
            for sub in itertools.combinations(range(npool), k):
                orders = list(itertools.permutations(sub))
                if quick and len(orders) > 2:
                    orders = [orders[0], orders[-1]]
                elif len(orders) > 24:
                    orders = rng.sample(orders, 24)
                for order in orders:
                    s = Scenario(ty, 1, 1, 1, random.Random(seed), sid)
                    sid += 1
                    pool = make_pool(s, random.Random(seed))
                    s.group = (ty, 1, 1, seed, sub)
                    s.merr = False
                    s.exact = True
                    if not order:
                        s.ops.append(("solve",))
                    build_history(s, pool, list(order), rng, apply_prob=0.3)
                    scen.append(s)
    return scen


SCALES = [Fraction(1, 10 ** e) for e in (3, 5, 6, 7)] + [Fraction(10 ** e) for e in (3, 5, 6, 7)] + \
         [Fraction(1, 2 ** e) for e in (10, 20, 23)] + [Fraction(2 ** e) for e in (10, 20, 23)]


def oracle_rows(s, know, M):
    """the non-trivial equations (coefficient rows per system) the oracle derives from one accepted standard"""
    El = s.terms.El
    Mp = [[(M[i][j] - El[i][j]) if know.measured[i][j] else sc.UNKNOWN for j in range(s.c)] for i in range(s.r)]
    eqs = sc.equations_for(s.ty, s.r, s.c, know, Mp)
    return {k: [coeffs for coeffs, rhs in lst if not sc.is_trivial(coeffs, rhs)] for k, lst in eqs.items()}


def minimal_set(s, pool, rng):
    """greedy: standards (in random order) every equation of which is independent of the equations so far, until every
    system has full column rank: a determining set with as many equations as unknowns (square systems: the LU branch)"""
    import copy
    nsys = sc.doc_systems(s.ty, s.c)
    nunk = sc.doc_unknowns_per_system(s.ty, s.r, s.c)
    gf = [sc.RankGF(nunk) for _ in range(nsys)]
    order = list(range(len(pool)))
    rng.shuffle(order)
    chosen = []
    for idx in order:
        c_line, m_line, M, know = add_line(s, pool[idx])
        if c_line is None:
            continue
        rows = oracle_rows(s, know, M)
        trial = copy.deepcopy(gf)
        ok, gain = True, 0
        for k, lst in rows.items():
            before = trial[k].rank()
            for row in lst:
                trial[k].add(row)
            if trial[k].poisoned or trial[k].rank() - before != len(lst):
                ok = False
                break
            gain += len(lst)
        if ok and gain > 0:
            gf = trial
            chosen.append(idx)
            if all(g.rank() == nunk for g in gf):
                return chosen
    return None


def gen_column_deficient(ctx):
    """DD90.  UE14 / E12 (one linear system per column) with ONE unknown parameter, where a column has fewer equations than
    error terms while the total passes the test of the iterative solver: a through + several reflects on one port (one of
    them the unknown) + at most one or two standards that touch the other column(s); solve after every add.  EDOM is
    required as long as some column is short (the property: "fails with EDOM rather than inventing terms")."""
    import random
    rng = ctx.rng
    quick = ctx.tier == "quick"
    out = []
    sid = 700000
    for ty in ("UE14", "E12"):
        for (r, c) in [(2, 2), (3, 2), (3, 3)]:
            if not sc.dims_ok(ty, r, c):
                continue
            for rep in range(2 if quick else 8):
                prng = random.Random(rng.getrandbits(48))
                s = Scenario(ty, r, c, 1 + rep % 2, prng, sid)
                sid += 1
                s.merr = False
                s.exact = False
                s.group = None
                P = s.P
                rich = prng.randint(1, c)                  # the column / port that gets the reflects
                poor = [p for p in range(1, c + 1) if p != rich]
                gam = [QI(Fraction(prng.randint(-8, 8), 10), Fraction(prng.randint(-8, 8), 10)) for _ in range(4)]
                stds = []
                q = poor[0]
                z, one = (0, ZERO), (1, ONE)
                stds.append(sc.Standard("th", [rich, q] if prng.random() < 0.5 else [q, rich], [[z, one], [one, z]], "T"))
                for nm, k in (("short", 2), ("open", 1), ("match", 0)):
                    stds.append(sc.Standard("r1", [rich], [[(k, s.slots[k])]], "%s@%d" % (nm, rich)))
                for i, g in enumerate(gam[:3]):
                    k = s.new_slot(g)
                    stds.append(sc.Standard("r1", [rich], [[(k, g)]], "g%d@%d" % (i, rich)))
                ust, u = unknown_reflect(s, rich, gam[3], QI(gam[3].re + Fraction(1, 50), gam[3].im - Fraction(1, 50)), "U@%d" % rich)
                stds.append(ust)
                for p in poor:
                    stds.append(sc.Standard("r1", [p], [[(2, QI(-1))]], "short@%d" % p))
                term = {i: QI(Fraction(1, 10), Fraction(-1, 5)) for i in range(P)}
                for st in stds:
                    st.unknown = True           # outside the rank oracle (unknown parameter present)
                    st.term = term
                    st.abbrev_rows = st.abbrev_cols = False
                order = list(range(len(stds)))
                if rep % 2:
                    prng.shuffle(order)
                for i in order:
                    s.ops.append(("add", stds[i]))
                    s.ops.append(("solve",))
                out.append(s)
    return out


def gen_minimal_scaled(ctx):
    """Minimal determining sets (as many equations as unknowns in every system, found with the oracle) measured by a VNA
    whose raw readings are scaled by 1e-7 .. 1e7 / 2^-23 .. 2^23: the property speaks of every determining set and the
    magnitude of the receiver readings is arbitrary.  Every type that can have square systems, dimensions up to 3."""
    import random
    rng = ctx.rng
    quick = ctx.tier == "quick"
    scen = []
    sid = 500000
    for ty in sc.TYPES:
        if ty in ("T16", "U16"):
            continue            # even number of equations per standard, odd number of unknowns: never square
        for (r, c) in dims_for(ty, 3):
            for rep in range(1 if quick else 5):
                for attempt in range(4):
                    seed = rng.getrandbits(48)
                    prng = random.Random(seed)
                    scale = prng.choice(SCALES)
                    s = Scenario(ty, r, c, 1 + rep % 2, prng, sid, scale=scale)
                    pool = make_pool(s, prng)
                    for st in pool:
                        st.abbrev_rows = st.abbrev_cols = False
                    chosen = minimal_set(s, pool, prng)
                    if chosen is not None:
                        break
                if chosen is None:
                    continue
                sid += 1
                s.group = None
                s.merr = False
                s.exact = sc.doc_unknowns_per_system(ty, r, c) <= 15
                build_history(s, pool, chosen, prng, apply_prob=0.7)
                scen.append(s)
    return scen


def gen_resolve_vector(ctx):
    """Re-solves after a SUCCESSFUL solve with a standard given as a frequency table off the calibration grid (more points
    than the interpolation order, smooth): solve after every add, three calibration frequencies; every solve after the
    first successful one must still return the true terms at every frequency."""
    import random
    rng = ctx.rng
    quick = ctx.tier == "quick"
    scen = []
    sid = 600000
    for ty in sc.TYPES:
        for (r, c) in [(1, 1), (2, 2)] + ([] if quick else [d for d in dims_for(ty, 2) if d[0] != d[1]]):
            for rep in range(2 if quick else 8):
                prng = random.Random(rng.getrandbits(48))
                s = Scenario(ty, r, c, 3, prng, sid)
                sid += 1
                pool = make_pool(s, prng, vector_gamma=True)
                vec = [i for i, st in enumerate(pool) if any(k in s.slotf for row in st.S for (k, v) in row)]
                rest = [i for i in range(len(pool)) if i not in vec]
                prng.shuffle(rest)
                cap = 7 if max(r, c) == 1 else (12 if ty not in ("T16", "U16") else 16)
                order = rest[:cap]
                # one or two table standards among the first adds
                for i in prng.sample(vec, min(len(vec), prng.randint(1, 2))):
                    order.insert(prng.randint(0, min(2, len(order))), i)
                s.group = None
                s.merr = False
                s.exact = sc.doc_unknowns_per_system(ty, r, c) <= 15
                build_history(s, pool, order, prng, apply_prob=0.2)
                scen.append(s)
    return scen


def gen_special(ctx):
    """Histories outside the oracle's domain: unknown parameters (auto path, TRL dispatch), measurement
    error modelling, no frequency vector, rejected adds.  Only the count decision, errno and the
    state invariants are required of them."""
    import random
    rng = ctx.rng
    out = []
    sid = 100000
    quick = ctx.tier == "quick"
    for ty in sc.TYPES:
        for (r, c) in dims_for(ty, 2 if quick else 3):
            for variant in ("unknown", "merr", "nofreq"):
                s = Scenario(ty, r, c, 1, random.Random(rng.getrandbits(48)), sid)
                sid += 1
                prng = random.Random(rng.getrandbits(48))
                pool = make_pool(s, prng)
                s.merr = variant == "merr"
                s.exact = False
                s.group = None
                if variant == "unknown":
                    # replace the gamma of the arbitrary reflects by unknown parameters with a close initial guess
                    g = s.new_slot(QI(Fraction(31, 100), Fraction(39, 100)))
                    u = s.new_slot(QI(Fraction(3, 10), Fraction(2, 5)), kind="unknown", guess=g)
                    for st in pool:
                        if st.name.startswith("gamma@"):
                            st.S[0][0] = (u, s.slots[u])
                            st.unknown = True
                order = list(range(len(pool)))
                rng.shuffle(order)
                order = order[:min(len(order), 10 if quick else 16)]
                if variant == "merr":
                    s.ops.append(("merr", "1e-6"))
                for idx in order:
                    st = pool[idx]
                    if variant == "merr" and ty in ("T16", "U16") and len(st.ports) < s.P:
                        continue        # T16/U16 with error modelling need the complete S matrix
                    s.ops.append(("add", st))
                    s.ops.append(("solve",))
                if variant == "nofreq":
                    s.nofreq = True
                out.append(s)
    return out


def unknown_reflect(s, port, true, guess, name):
    """A reflect whose gamma is an unknown parameter (true value `true`, initial guess `guess`)."""
    g = s.new_slot(guess)
    u = s.new_slot(true, kind="unknown", guess=g)
    st = sc.Standard("r1", [port], [[(u, true)]], name)
    st.unknown = True
    st.term = {i: QI(Fraction(1, 10), Fraction(-1, 5)) for i in range(s.P)}
    return st, u


def gen_trl(ctx):
    """The TRL dispatch test (_vnacal_new_solve_is_trl / classify_standard): 2x2, through + reflect (one
    unknown on both ports) + line (one unknown), the reflect given as a line with explicit zeros, as a
    double reflect (zero-filled off-diagonal cells) or as a single reflect (unset cells, D69: not TRL),
    in several orders, with a fourth standard, with error modelling, and on types that have no TRL path."""
    import random
    rng = ctx.rng
    out = []
    sid = 400000
    quick = ctx.tier == "quick"
    for ty in sc.TYPES:
        if not sc.dims_ok(ty, 2, 2):
            continue
        for variant in ("ln", "r2", "r1", "r1b", "four", "merr", "dupT"):
            for rep in range(1 if quick else 3):
                s = Scenario(ty, 2, 2, 1 + (rep + len(variant)) % 2, random.Random(rng.getrandbits(48)), sid)
                sid += 1
                s.merr = variant == "merr"
                s.exact = False
                s.group = None
                term = {i: QI(Fraction(1, 10), Fraction(-1, 5)) for i in range(2)}
                rv, lv = QI(Fraction(-9, 10), Fraction(1, 10)), QI(Fraction(1, 2), Fraction(-1, 3))
                gr = s.new_slot(QI(Fraction(-19, 20), Fraction(1, 20)))
                ur = s.new_slot(rv, kind="unknown", guess=gr)
                gl = s.new_slot(QI(Fraction(11, 20), Fraction(-3, 10)))
                ul = s.new_slot(lv, kind="unknown", guess=gl)
                z, one = (0, ZERO), (1, ONE)
                T = sc.Standard("th", [1, 2], [[z, one], [one, z]], "T")
                if variant == "r2":
                    R = [sc.Standard("r2", [1, 2], [[(ur, rv), z], [z, (ur, rv)]], "R/r2")]
                elif variant == "r1":
                    R = [sc.Standard("r1", [2], [[(ur, rv)]], "R/r1@2")]
                elif variant == "r1b":
                    R = [sc.Standard("r1", [1], [[(ur, rv)]], "R/r1@1")]
                else:
                    R = [sc.Standard("ln", [1, 2], [[(ur, rv), z], [z, (ur, rv)]], "R/ln")]
                L = sc.Standard("ln", [1, 2], [[z, (ul, lv)], [(ul, lv), z]], "L")
                stds = [T] + R + [L]
                if variant == "dupT":
                    stds = [T, sc.Standard("th", [2, 1], [[z, one], [one, z]], "T2"), L]
                if variant == "four":
                    stds.append(sc.Standard("r2", [1, 2], [[(2, QI(-1)), z], [z, (1, ONE)]], "so"))
                for st in stds:
                    st.unknown = True
                    st.term = term
                rng.shuffle(stds)
                if variant == "merr":
                    s.ops.append(("merr", "1e-6"))
                for st in stds:
                    s.ops.append(("add", st))
                    s.ops.append(("solve",))
                s.ops.append(("solve",))
                out.append(s)
    return out


def gen_trl_truth(ctx):
    """Through / reflect / line calibrations that take the analytic TRL path (2x2 T8, U8, TE10, UE10; exactly a through, a
    reflect with ONE unknown parameter on both ports - entered as a double reflect or as a line with explicit zeros -, a line
    with an unknown transmission; no error modelling), in ALL SIX orders of the three standards, with random true values and
    initial guesses 5..25 degrees / 3..10 % away from them.  Solve after every addition (EDOM while incomplete), then the saved
    error terms, both solved parameters and an independent corrected device are compared with the truth: the property says every
    determining set solves in whatever order it was accumulated."""
    import cmath
    import itertools
    import random
    rng = ctx.rng
    quick = ctx.tier == "quick"
    out = []
    sid = 450000
    for ty in ("T8", "U8", "TE10", "UE10"):
        for rep in range(1 if quick else 4):
            seed = rng.getrandbits(48)
            for oi, order in enumerate(itertools.permutations("TRL")):
                prng = random.Random(seed)
                s = Scenario(ty, 2, 2, 1 + rep % 2, prng, sid)
                sid += 1
                s.merr = False
                s.exact = False
                s.group = ("trl-truth", ty, seed)
                s.trl_truth = True
                s.trl_order = "".join(order)
                term = {i: QI(Fraction(1, 10), Fraction(-1, 5)) for i in range(2)}

                def near(v, prng=prng):
                    # a guess off by 5..25 degrees and 3..10 % (rounded to rationals)
                    a = math.radians(prng.choice([-1, 1]) * prng.uniform(5, 25))
                    g = v.to_c() * cmath.rect(1 + prng.choice([-1, 1]) * prng.uniform(0.03, 0.10), a)
                    return QI(Fraction(round(g.real * 1000), 1000), Fraction(round(g.imag * 1000), 1000))
                rv = QI(Fraction(prng.randint(-95, -70), 100), Fraction(prng.randint(-30, 30), 100))
                ang = math.radians(prng.uniform(40, 140)) * prng.choice([-1, 1])
                lc = cmath.rect(prng.uniform(0.85, 0.98), ang)
                lv = QI(Fraction(round(lc.real * 1000), 1000), Fraction(round(lc.imag * 1000), 1000))
                # extra parameters first, sometimes: the unknown index of the reflect / line is then not 0 / 1
                for _ in range(prng.choice([0, 0, 1, 3])):
                    s.new_slot(QI(Fraction(prng.randint(1, 9), 11), Fraction(prng.randint(1, 9), 13)))
                gr = s.new_slot(near(rv))
                gl = s.new_slot(near(lv))
                z, one = (0, ZERO), (1, ONE)
                # the unknown parameters are created in the order in which their standards are added
                made = {}
                stds = {}
                for ch in order:
                    if ch == "R":
                        made["R"] = s.new_slot(rv, kind="unknown", guess=gr)
                    elif ch == "L":
                        made["L"] = s.new_slot(lv, kind="unknown", guess=gl)
                ur, ul = made["R"], made["L"]
                stds["T"] = sc.Standard("th", [1, 2], [[z, one], [one, z]], "T")
                if rep % 2 == 0:
                    stds["R"] = sc.Standard("r2", [1, 2], [[(ur, rv), z], [z, (ur, rv)]], "R/r2")
                else:
                    stds["R"] = sc.Standard("ln", [1, 2], [[(ur, rv), z], [z, (ur, rv)]], "R/ln")
                stds["L"] = sc.Standard("ln", [1, 2], [[z, (ul, lv)], [(ul, lv), z]], "L")
                for st in stds.values():
                    st.unknown = True
                    st.term = term
                    st.abbrev_rows = st.abbrev_cols = False
                for ch in order:
                    s.ops.append(("add", stds[ch]))
                    s.ops.append(("solve",))
                s.ops.append(("terms",))
                s.ops.append(("pget", ur))
                s.ops.append(("pget", ul))
                Sd = [[QI(Fraction(prng.randint(-6, 6), 10), Fraction(prng.randint(-6, 6), 10)) for _ in range(2)] for _ in range(2)]
                s.ops.append(("apply", Sd))
                s.ops.append(("solve",))
                s.ops.append(("pget", ur))
                out.append(s)
    return out


def gen_correlated(ctx):
    """Auto-calibrations with plain unknown AND correlated parameters, solved after every add, built so that
    the history passes through states that are exactly one equation short with a correlated parameter present
    and more equations than error terms (equations + correlated == error terms + unknown parameters - 1): the
    count test of _vnacal_new_solve_auto credits a correlated parameter once (its correlation equation), and the
    solve must fail with EDOM there.  1x1, every type: short / open / match + reflects U1, U2 (unknown) and C
    (correlated with U1) in random orders; 2x2: through + double reflect (U1, C) + double reflect (U2, short) +
    match@1 + open@2 (+ permutations)."""
    import random
    rng = ctx.rng
    quick = ctx.tier == "quick"
    out = []
    sid = 600000

    def params(s):
        gv, g2v = QI(Fraction(-4, 5), Fraction(3, 10)), QI(Fraction(7, 10), Fraction(1, 5))
        ga = s.new_slot(QI(Fraction(-39, 50), Fraction(29, 100)))
        u1 = s.new_slot(gv, kind="unknown", guess=ga)
        gb = s.new_slot(QI(Fraction(69, 100), Fraction(21, 100)))
        u2 = s.new_slot(g2v, kind="unknown", guess=gb)
        c = len(s.slots)
        s.slots[c] = gv
        s.slot_kind[c] = "unknown"
        s.ops.append(("cor", c, u1, "0.05"))
        return (u1, gv), (u2, g2v), (c, gv)

    def mark(s, stds):
        term = {i: QI(Fraction(1, 10), Fraction(-1, 5)) for i in range(s.P)}
        for st in stds:
            st.unknown = True
            st.term = term
            st.abbrev_rows = st.abbrev_cols = False

    for ty in sc.TYPES:
        for rep in range(2 if quick else 8):
            s = Scenario(ty, 1, 1, 1 + rep % 2, random.Random(rng.getrandbits(48)), sid)
            sid += 1
            s.merr = False
            s.exact = False
            s.group = None
            s.correlated = True
            U1, U2, C = params(s)
            stds = [sc.Standard("r1", [1], [[(2, QI(-1))]], "short"), sc.Standard("r1", [1], [[(1, ONE)]], "open"),
                    sc.Standard("r1", [1], [[(0, ZERO)]], "match"), sc.Standard("r1", [1], [[U1]], "U1"),
                    sc.Standard("r1", [1], [[U2]], "U2"), sc.Standard("r1", [1], [[C]], "C")]
            mark(s, stds)
            if rep == 0:
                order = [0, 3, 4, 5, 1, 2]      # short, U1, U2, C (one short here: 4 + 1 < 3 + 3), open, match
            else:
                order = list(range(6))
                rng.shuffle(order)
            for i in order:
                s.ops.append(("add", stds[i]))
                s.ops.append(("solve",))
            out.append(s)
        if not sc.dims_ok(ty, 2, 2):
            continue
        for rep in range(1 if quick else 4):
            s = Scenario(ty, 2, 2, 1 + rep % 2, random.Random(rng.getrandbits(48)), sid)
            sid += 1
            s.merr = False
            s.exact = False
            s.group = None
            s.correlated = True
            U1, U2, C = params(s)
            z, one = (0, ZERO), (1, ONE)
            stds = [sc.Standard("th", [1, 2], [[z, one], [one, z]], "T"),
                    sc.Standard("r2", [1, 2], [[U1, z], [z, C]], "U1/C"),
                    sc.Standard("r2", [1, 2], [[U2, z], [z, (2, QI(-1))]], "U2/short"),
                    sc.Standard("r1", [1], [[(0, ZERO)]], "match@1"), sc.Standard("r1", [2], [[(1, ONE)]], "open@2"),
                    sc.Standard("r1", [2], [[(0, ZERO)]], "match@2"), sc.Standard("r1", [1], [[(2, QI(-1))]], "short@1")]
            mark(s, stds)
            order = list(range(len(stds)))
            if rep > 0:
                rng.shuffle(order)
            for i in order:
                s.ops.append(("add", stds[i]))
                s.ops.append(("solve",))
            out.append(s)
    return out


def gen_writeback(ctx, exe):
    """Histories with two or three unknown parameters whose solve succeeds, and the same histories with one
    allocation request of that solve failing: the first one, a random one before the parameter write-back,
    and each calloc of the write-back (request K - w + j + 1 when the unfaulted call makes K requests, the
    last w of them in the write-back).  Pass 1 (here) learns K and w from the unfaulted run."""
    import random
    rng = ctx.rng
    quick = ctx.tier == "quick"
    out = []
    sid = 500000
    tried = solved = 0

    def build(ty, r, c, F, nunk, seed, tail):
        prng = random.Random(seed)
        s = Scenario(ty, r, c, F, prng, 0)
        pool = make_pool(s, prng)
        s.merr = False
        s.exact = False
        s.group = None
        stds = []
        for st in pool:
            st.abbrev_rows = st.abbrev_cols = False
            if not st.name.startswith("gamma@"):
                stds.append(st)
        for i in range(nunk):
            true = QI(Fraction(3 + i, 10), Fraction(2 - i, 5))
            guess = QI(Fraction(31 + 10 * i, 100), Fraction(39 - 20 * i, 100))
            st, u = unknown_reflect(s, 1 + i % s.P, true, guess, "unk%d@%d" % (i, 1 + i % s.P))
            stds.append(st)
        for st in stds:
            s.ops.append(("add", st))
        s.ops += tail
        return s

    for ty in sc.TYPES:
        for (r, c) in dims_for(ty, 2):
            if quick and (r, c) not in ((1, 1), (2, 2)):
                continue
            for nunk in ((2,) if quick and (r, c) == (2, 2) else (2, 3)):
                F = 1 + (nunk + r) % 2
                seed = rng.getrandbits(48)
                s0 = build(ty, r, c, F, nunk, seed, [("solve",)])
                cl, ml, recs = emit(s0)
                rc, o, err = run_harness(ctx, exe, cl, timeout=120)
                tried += 1
                sl = [parse_kv(x) for x in o if x.startswith("S ")]
                if rc != 0 or len(sl) != 1 or sl[0]["rc"] != "0":
                    continue
                solved += 1
                K, w = int(sl[0]["allocs"]), int(sl[0]["wbc"])
                if w != nunk or K <= w:
                    ctx.obligation("tie:write-back allocation count", False, "allocs=%d wbc=%d for %d unknown parameters" % (K, w, nunk))
                    continue
                faults = [("early", 1, 0), ("early", rng.randint(2, K - w), 0)]
                faults += [("wb", K - w + j + 1, j) for j in range(w)]
                if quick and len(faults) > 4:
                    faults = faults[:1] + rng.sample(faults[1:2] + faults[2:], 3)
                for kind, n, j in faults:
                    tail = [("solvefail", n, kind, j)]
                    if kind == "wb" and j >= 1:
                        # the retry finds the first j parameters on the right grid (no calloc for them): its first
                        # write-back calloc is the one of parameter j, request (K - w) + 1 of that call
                        tail.append(("solvefail", K - w + 1, "wb", 0))
                    s = build(ty, r, c, F, nunk, seed, tail + [("solve",), ("solve",)])
                    s.sid = sid
                    sid += 1
                    out.append(s)
    ctx.extra["writeback_base_histories"] = tried
    ctx.extra["writeback_base_solved"] = solved
    return out


def gen_argcheck(ctx, drv):
    """Random, possibly invalid add calls (dimensions, port maps, rectangular S for T16/U16).  The model
    is asked first; calls for which it predicts undefined behaviour of the C code (array overruns,
    assert) are not sent to the library.  Only the model-vs-library tie is checked on these."""
    import random
    rng = ctx.rng
    quick = ctx.tier == "quick"
    out = []
    sid = 300000
    for ty in sc.TYPES:
        for (r, c) in dims_for(ty, 3):
            for rep in range(1 if quick else 4):
                P = max(r, c)
                s = Scenario(ty, r, c, 1, random.Random(rng.getrandbits(48)), sid)
                sid += 1
                s.merr = rep % 2 == 1 and ty in ("T16", "U16")
                s.exact = False
                s.argcheck = True
                for k in range(3, 8):
                    s.slots[k] = QI(Fraction(rng.randint(-7, 7), 10), Fraction(rng.choice([-3, -2, -1, 1, 2, 3]), 10))
                    s.slot_kind[k] = "known"        # (never 0, 1 or -1: those values are the predefined handles)
                    s.ops.append(("par", k))
                cand = []
                for _ in range(14 if quick else 30):
                    sr = rng.choice([0, 1, 1, 2, P, P, P + 1]) if rng.random() < 0.3 else rng.randint(1, P)
                    scn = sr if rng.random() < 0.6 else rng.randint(1, P)
                    if len(cand) < 2 and P >= 2 and ty not in ("T16", "U16"):
                        # partially known (rectangular) S on a type that cannot use it: must be refused with EINVAL (D63)
                        sr, scn = (P, 1) if sc.is_t(ty) else (1, P)
                        if len(cand) == 1:
                            sr, scn = scn, sr
                    br = rng.choice([r, r, max(sr, scn), sr, rng.randint(1, r)])
                    bc = rng.choice([c, c, max(sr, scn), scn, rng.randint(1, c)])
                    br, bc = max(1, br), max(1, bc)
                    if br * bc > 60:
                        br, bc = min(br, r), min(bc, c)
                    n = max(sr, scn)
                    if rng.random() < 0.15 and sr == P and scn == P:
                        ports = []
                    else:
                        ports = rng.sample(range(1, P + 1), min(n, P)) if rng.random() < 0.8 else [rng.randint(0, P + 1) for _ in range(n)]
                        while len(ports) < n:
                            ports.append(rng.randint(1, P))
                    cells = [rng.choice([0, 0, 1, 2, 3, 4, 5, 6, 7]) for _ in range(sr * scn)]
                    head = "add mm %d %d %d %d %s %d %s" % (br, bc, sr, scn, " ".join(map(str, cells)), len(ports), " ".join(map(str, ports)))
                    head = " ".join(head.split())
                    vals = " ".join("%s %s" % (float.hex(rng.uniform(-1, 1)), float.hex(rng.uniform(-1, 1))) for _ in range(br * bc))
                    cand.append((head + " " + vals, head, sr != scn and ty not in ("T16", "U16")))
                # first pass through the model: drop the calls with undefined behaviour
                lines = ["new %s %d %d 1" % (ty, r, c)] + ["par %d" % k for k in range(3, 8)]
                if s.merr:
                    lines.append("merr on")
                lines += [m for _, m, _ in cand] + ["end"]
                rc, mo, me = vplib.sh([drv], input="\n".join(lines) + "\n", timeout=120)
                mo = mo.split("\n")
                base = len(lines) - len(cand) - 1
                if s.merr:
                    s.ops.append(("merr", "1e-6"))
                kept = 0
                for i, (cl, ml, rect) in enumerate(cand):
                    if rc == 0 and "OUT-OF-MODEL" not in mo[base + i]:
                        s.ops.append(("rawadd", cl, ml))
                        kept += 1
                        if rect:
                            ctx.extra["argcheck_rectangular_non16"] = ctx.extra.get("argcheck_rectangular_non16", 0) + 1
                            if "EINVAL" not in mo[base + i]:
                                ctx.extra["argcheck_rectangular_not_refused_by_model"] = mo[base + i][:80]
                        if kept % 4 == 0:
                            s.ops.append(("solve",))
                s.ops.append(("solve",))
                ctx.extra["argcheck_calls"] = ctx.extra.get("argcheck_calls", 0) + kept
                ctx.extra["argcheck_undefined_skipped"] = ctx.extra.get("argcheck_undefined_skipped", 0) + len(cand) - kept
                out.append(s)
    return out


# ---------------------------------------------------------------------------- running
def run_harness(ctx, exe, lines, timeout=900, leak=True):
    rc, out, err = vplib.sh([exe], input="\n".join(lines) + "\n", timeout=timeout, env=ctx.run_env(leak=leak))
    return rc, out.split("\n"), err


def leak_functions(err):
    """libvna functions that allocated leaked blocks (LeakSanitizer report)."""
    funcs = set()
    for block in re.split(r"\n\s*\n", err):
        if "leak of" not in block:
            continue
        for m in re.finditer(r"#\d+ 0x[0-9a-f]+ in (\S+) (\S+)", block):
            if "/src/vna" in m.group(2):
                funcs.add(m.group(1))
                break
    return sorted(funcs)


def probes(ctx, exe):
    """Directed single-process probes; each returns problems as violations directly."""
    quick = ctx.tier == "quick"
    # 1. solve before any standard was added: every type, a few dimensions (zero-length VLA, D22)
    for ty in sc.TYPES:
        for (r, c) in dims_for(ty, 2):
            lines = ["new %s %d %d 1" % (ty, r, c), "solve", "solve", "end"]
            rc, out, err = run_harness(ctx, exe, lines, timeout=60)
            ctx.count(("probe-empty", ty, r, c))
            sig = vplib.asan_signature(err)
            if rc != 0 or sig is not None:
                sig = sig or {"kind": "fault", "error": "exit %d" % rc, "function": None}
                ctx.violation(sig, "vnacal_new_solve with no standards (%s %dx%d): %s" % (ty, r, c, sig),
                              {"script": lines, "stderr": err[-2000:]})
                return False
            d = parse_kv(out[1])
            if d.get("rc") != "-1" or d.get("errno") != "EDOM" or d.get("live") != "0" or d.get("stsame") != "1":
                ctx.violation({"kind": "disagreement", "op": "vnacal_new_solve", "class": "no standards"},
                              "solve with no standards must fail with EDOM and change nothing: " + out[1][:200],
                              {"script": lines, "output": out[:4]})
                return False
    # 1b. a frequency vector of length 0: the frequency loop does not run, the solve succeeds as coded
    #     (Properties_C20.zero_frequencies_solve_succeeds_as_coded), with and without standards / unknown parameters
    for ty in sc.TYPES:
        lines = ["new %s 1 1 0" % ty, "par 3 0.3 0.1", "unk 4 3", "solve", "add r1 1 1 2 1 -0x1.2p+0 0x0p+0", "solve",
                 "add r1 1 1 4 1 0x1.2p-2 0x0p+0", "solve", "end"]
        rc, out, err = run_harness(ctx, exe, lines, timeout=60)
        ctx.count(("probe-zero-frequencies", ty))
        sig = vplib.asan_signature(err)
        if rc != 0 or sig is not None:
            sig = sig or {"kind": "fault", "error": "exit %d" % rc, "function": None}
            ctx.violation(sig, "vnacal_new_solve with a frequency vector of length 0 (%s): %s" % (ty, sig),
                          {"script": lines, "stderr": err[-2000:]})
            return False
        sl = [parse_kv(x) for x in out if x.startswith("S ")]
        if len(sl) != 3 or any(d["rc"] != "0" or d["cal"] != "1" or d["stsame"] != "1" for d in sl) or sl[2].get("pv") != "4:0:1;":
            ctx.violation({"kind": "disagreement", "op": "vnacal_new_solve", "class": "zero frequencies"},
                          "model: a solve over a frequency vector of length 0 succeeds (no frequency, no test) and stores an "
                          "empty solution for the unknown parameter; library (%s): %s" % (ty, [x[:120] for x in out if x.startswith("S ")]),
                          {"script": lines, "output": out[:10]})
            return False
    # 2. failing solves with measurement error modelling (leak on the error paths, D21)
    for ty in sc.TYPES:
        r, c = (1, 1)
        lines = ["new %s %d %d 2" % (ty, r, c), "merr 1e-6", "add r1 1 1 2 1 -0x1.2p+0 0x0p+0", "solve",
                 "add r1 1 1 1 1 0x1.d555555555555p-1 0x0p+0", "solve", "merr off", "solve", "end"]
        rc, out, err = run_harness(ctx, exe, lines, timeout=60)
        ctx.count(("probe-merr", ty))
        lf = leak_functions(err)
        sig = vplib.asan_signature(err)
        if lf:
            ctx.violation({"kind": "fault", "error": "leak", "function": lf[0]},
                          "blocks allocated in %s leak when a solve with measurement error modelling fails (%s)" % (lf, ty),
                          {"script": lines, "stderr": err[-3000:]})
            return False
        if rc != 0 or sig is not None:
            sig = sig or {"kind": "fault", "error": "exit %d" % rc, "function": None}
            ctx.violation(sig, "failing solve with error modelling (%s): %s" % (ty, sig), {"script": lines, "stderr": err[-2000:]})
            return False
        for ln in out:
            if ln.startswith("S "):
                d = parse_kv(ln)
                if d["rc"] != "-1" or d["errno"] != "EDOM" or d["live"] != "0":
                    ctx.violation({"kind": "disagreement", "op": "vnacal_new_solve", "class": "merr, too few standards"},
                                  "under-determined solve with error modelling: " + ln[:200], {"script": lines, "output": out[:10]})
                    return False
    # 3. a minimal determining set must also solve when measurement error modelling is enabled
    #    (no degrees of freedom: nothing to test; D58)
    for ty in sc.TYPES:
        lines = ["new %s 1 1 1" % ty, "merr 1e-6", "add r1 1 1 2 1 -0x1.2p+0 0x0p+0", "add r1 1 1 1 1 0x1.d555555555555p-1 0x0p+0",
                 "add r1 1 1 0 1 0x1.999999999999ap-4 0x0p+0", "solve", "end"]
        rc, out, err = run_harness(ctx, exe, lines, timeout=60)
        ctx.count(("probe-merr-minimal", ty))
        sig = vplib.asan_signature(err)
        if rc != 0 or sig is not None:
            sig = sig or {"kind": "fault", "error": "exit %d" % rc, "function": None}
            ctx.violation(sig, "minimal set with error modelling (%s): %s" % (ty, sig), {"script": lines, "stderr": err[-2000:]})
            return False
        d = [parse_kv(x) for x in out if x.startswith("S ")][0]
        if d["rc"] != "0":
            ctx.violation({"kind": "disagreement", "op": "vnacal_new_solve", "class": "m_error, exactly determined"},
                          "short/open/match determine the 1x1 %s terms exactly, but with vnacal_new_set_m_error the solve "
                          "fails (%s): the p-value of a system with no degrees of freedom is reported as 0" % (ty, d["errno"]),
                          {"script": lines, "output": out[:8]})
            return True      # one report; the enumeration is unaffected
    return True


def failure_after_success(ctx, exe):
    """A solve that fails after an earlier success must keep the earlier calibration: success on a
    determining set, then a standard with non-finite measurements makes the next solve fail."""
    import random
    n = 0
    for ty in sc.TYPES:
        for (r, c) in dims_for(ty, 2):
            s = Scenario(ty, r, c, 1, random.Random(ctx.rng.getrandbits(48)), 200000 + n)
            pool = make_pool(s, random.Random(ctx.rng.getrandbits(48)))
            s.merr = False
            s.exact = False
            for st in pool:
                st.abbrev_rows = st.abbrev_cols = False
                s.ops.append(("add", st))
            s.ops.append(("solve",))
            cl, ml, recs = emit(s)
            cl = cl[:-1]
            # poison: the same reflect again, measured as NaN
            nanrow = " ".join(["nan nan"] * (r * c))
            cl += ["add r1 %d %d 2 1 %s" % (r, c, nanrow), "solve", "end"]
            rc, out, err = run_harness(ctx, exe, cl, timeout=120)
            sig = vplib.asan_signature(err)
            if rc != 0 or sig is not None:
                sig = sig or {"kind": "fault", "error": "exit %d" % rc, "function": None}
                ctx.violation(sig, "failure-after-success history (%s %dx%d): %s" % (ty, r, c, sig), {"script": cl[-6:], "stderr": err[-2000:]})
                continue
            sol = [parse_kv(x) for x in out if x.startswith("S ")]
            if len(sol) != 2:
                continue
            first, second = sol
            if first["rc"] != "0":
                ctx.extra.setdefault("fas_first_failed", []).append("%s %dx%d" % (ty, r, c))
                continue
            if second["rc"] == "0":
                ctx.extra.setdefault("fas_second_succeeded", []).append("%s %dx%d" % (ty, r, c))
                continue
            n += 1
            ctx.count(("failure-after-success", ty, r, c))
            if second["calsame"] != "1" or second["cal"] != "1" or second["stsame"] != "1" or second["live"] != "0" \
                    or second["errno"] != "EDOM":
                ctx.violation({"kind": "disagreement", "op": "vnacal_new_solve", "class": "failure after success"},
                              "a failed solve after a successful one must keep the previous calibration and report EDOM (%s %dx%d): %s"
                              % (ty, r, c, out[-3][:200]), {"script_tail": cl[-4:], "output_tail": out[-4:]})
    ctx.extra["failure_after_success_cases"] = n
    ctx.obligation("tie:failure-after-success-exercised", n >= 8, "%d histories with a failure after a success" % n)


def run(ctx):
    ctx.level = "proof"
    ctx.trusted_base = [
        "Coq 8.16.1 kernel (coqc); vm_compute in the examples; no native_compute",
        "axioms: none (Print Assumptions: Closed under the global context for every theorem of Properties_C20.v)",
        "hand-written model coq/SolveCount/CountModel.v, tied on every run by exact white-box comparison with the library "
        "(equation lists per system, counters, TRL dispatch, solve decision, calibration swap, parameter write-back, "
        "injected allocation failures) on generated add/solve histories",
        "the numeric part of a solve (LU/QR rank decisions, convergence, p-value) is an uninterpreted oracle of the count model; "
        "determining_set_solves is a Coq theorem about the exact numeric model (Cal/SolveSimple.v + CalQI.q_solve_system, Gaussian "
        "rationals; joined with the count model under the hypothesis that both count the same equations), not about binary64: on the "
        "library it is decided per case by the exact-rank oracle lib/solvecount.py and by the extracted numeric model (ocaml/drv_calcore2)",
        "extraction (ExtrOcamlBasic only) + ocaml/drv_solvecount.ml (parsing/printing glue)",
        "harness/solvecount_harness.c, harness/allocwrap.c, gcc ASan/UBSan/LSan",
    ]
    ctx.assumptions = ["exact field arithmetic stands for binary64 arithmetic; required outcomes on the C side use 1e-8 relative "
                       "tolerance and skip cases whose condition estimate exceeds 1e5",
                       "allocation failure is modelled for vnacal_new_solve only (before the write-back: nothing changes; inside "
                       "the write-back: parameters partially written, calibration kept); everywhere else it is C12's"]
    ctx.rule = ("one evaluation = one vnacal_new_solve call inside an add/solve history (or one directed probe); distinct "
                "non-trivial = (required EDOM: type, dims, per-system counts) and (required success: scenario, position)")

    # ------------------------------------------------------------------ 1. Coq
    vfiles = ["SolveCount/CountModel.v", "SolveCount/CountProofs.v", "SolveCount/DeterminingGj.v",
              "SolveCount/DeterminingProofs.v", "SolveCount/DeterminingCount.v", "SolveCount/DeterminingExamples.v",
              "SolveCount/DeterminingLinkModel.v", "SolveCount/DeterminingLinkProofs.v", "SolveCount/DeterminingLinkJoin.v",
              "SolveCount/DeterminingLinkExamples.v", "SolveCount/DeterminingDD90.v", "SolveCount/DeterminingSol.v",
              "SolveCount/DeterminingE12.v",
              "Properties_C20.v"]
    have_coq = all(os.path.exists(os.path.join(vplib.COQDIR, v)) for v in vfiles)
    coq_ok = False
    if have_coq:
        coq_ok, res = ctx.coq_obligations(vfiles)
        if not coq_ok:
            ctx.log("Coq obligations failed:", getattr(ctx, "_last_coq_log", "")[-800:])
    else:
        ctx.obligation("coq:files-present", False, "model / proof files missing")

    # ------------------------------------------------------------------ 2. harness + probes
    exe = ctx.build_harness("solvecount_harness", san=True, wrap=True)
    clean = probes(ctx, exe)
    ctx.obligation("tie:probes (no standards / error-modelling failure paths)", clean)
    if not clean:
        ctx.log("a directed probe failed; the enumeration still runs but may abort early")
    failure_after_success(ctx, exe)

    # ------------------------------------------------------------------ 3. model driver
    drv = None
    try:
        drv = ctx.ocaml_driver("drv_solvecount")
    except vplib.BuildError as e:
        ctx.obligation("tie:model-driver", False, str(e)[:200])

    # ------------------------------------------------------------------ 4. enumeration
    stats = {k: 0 for k in ("solves", "edom_required", "solve_required", "skipped_ill_conditioned", "leakage_undetermined",
                            "rank_deficient", "rank_deficient_but_solved", "exact_rank_checked", "modp_unlucky",
                            "terms_checked", "dut_checked", "trl_dispatched", "writebacks", "alloc_faults", "writeback_faults",
                            "one_short_with_correlated")}
    stats.update({"worst_cond": 0.0, "worst_term_error": 0.0, "worst_dut_error": 0.0})
    stats.update({k: 0 for k in ("numeric_points", "numeric_insufficient", "numeric_singular", "numeric_ok",
                                 "numeric_singular_but_library_solved", "numeric_terms_exact", "numeric_terms_vs_library")})
    stats["numeric_worst_term_error"] = 0.0
    stats.update({"square_scaled_required": 0, "vector_resolve_terms": 0, "short_system_total_passes": 0,
                  "trl_truth_required": 0, "parameters_checked": 0, "worst_parameter_error": 0.0})
    scen = gen_scenarios(ctx) + gen_special(ctx) + gen_trl(ctx) + gen_correlated(ctx) + gen_writeback(ctx, exe)
    scen += gen_minimal_scaled(ctx) + gen_resolve_vector(ctx) + gen_column_deficient(ctx) + gen_trl_truth(ctx)
    if drv is not None:
        scen += gen_argcheck(ctx, drv)
    ctx.log("%d scenarios" % len(scen))
    all_c, all_m, index = [], [], []
    for s in scen:
        cl, ml, recs = emit(s)
        if getattr(s, "nofreq", False):
            cl[0] = cl[0].replace("new", "nofreq", 1)
            ml[0] = ml[0].replace("new", "nofreq", 1)
        index.append((s, recs, len(all_c), len(all_m), len(cl), len(ml)))
        all_c += cl
        all_m += ml
    rc, cout, cerr = run_harness(ctx, exe, all_c, timeout=1500)
    if rc != 0:
        sig = vplib.asan_signature(cerr)
        lf = leak_functions(cerr)
        if lf and (sig is None or sig.get("error") == "leak"):
            sig = {"kind": "fault", "error": "leak", "function": lf[0]}
        sig = sig or {"kind": "fault", "error": "exit %d" % rc, "function": None}
        done = len([x for x in cout if x])
        ctx.violation(sig, "harness stopped (%s) after %d of %d operations: %s" % (sig, done, len(all_c), cerr[-300:]),
                      {"script_near": all_c[max(0, done - 6):done + 2], "stderr": cerr[-3000:]})
        if sig.get("error") != "leak":
            return
    mout = None
    if drv is not None:
        # the model needs the numeric verdict of each solve: feed it the C outcome
        feed = []
        ci = 0
        solves = [ln for ln in cout if ln.startswith("S ")]
        si = 0
        for ln in all_m:
            if ln == "solve":
                ok = si < len(solves) and " rc=0 " in solves[si]
                feed.append("solve %d" % (1 if ok else 0))
                si += 1
            elif ln.startswith("solve "):       # a solve with an injected allocation failure (verdict fixed by the script)
                feed.append(ln)
                si += 1
            else:
                feed.append(ln)
        rcm, mo, me = vplib.sh([drv], input="\n".join(feed) + "\n", timeout=900)
        if rcm != 0:
            ctx.obligation("tie:model-driver", False, "driver failed: " + me[-300:])
        else:
            mout = mo.split("\n")
            ctx.obligation("tie:model-driver", True)
    nprob = 0
    first_problems = []
    groups = {}
    for s, recs, c0, m0, cn, mn in index:
        co = cout[c0:c0 + cn]
        if len(co) < cn or any(x == "" for x in co):
            break
        # model output has no line for "terms"
        mo = None
        if mout is not None:
            mo_raw = mout[m0:m0 + mn]
            mo = []
            k = 0
            for rec in recs:
                if rec["op"] in ("terms", "pget"):
                    mo.append("")
                else:
                    mo.append(mo_raw[k] if k < len(mo_raw) else "")
                    k += 1
        problems, final = evaluate(ctx, s, recs, co, mo if mo is not None else co, stats, mo is not None)
        if s.group is not None and final:
            groups.setdefault(s.group, []).append((s, final))
        for p in problems:
            nprob += 1
            if len(first_problems) < 6:
                first_problems.append((s, p, all_c[c0:c0 + cn]))
        if s.sid % 37 == 0 and final:
            ctx.sample({"type": s.ty, "dims": "%dx%d" % (s.r, s.c), "standards": [op[1].key() for op in s.ops if op[0] == "add"][:8],
                        "final_counts": final.get("counts"), "final_solve_ok": final.get("ok")})
    # the numeric model (q_solve_system / q_error_terms) at a sample of the solve points
    def cheap(s, rec):
        # exact elimination over Coq's binary rationals: square systems (LU) up to 8 unknowns are fast, the normal
        # equations of a tall system only up to 3 unknowns (4-5 unknowns with one extra row)
        u = sc.doc_unknowns_per_system(s.ty, s.r, s.c)
        return all(n <= u or u <= 3 or (u <= 5 and n <= u + 1) for n in rec["np"]["counts"])
    points = [(s, rec) for s, recs, c0, m0, cn, mn in index for rec in recs if rec.get("np") and cheap(s, rec)]
    # one point per distinct (type, dims, standards so far as a set, verdict class); then a bounded sample
    seen, uniq = set(), []
    for s, rec in points:
        key = (s.ty, s.r, s.c, s.group, frozenset(a["std"].key() for a in rec["np"]["adds"]))
        if key not in seen:
            seen.add(key)
            uniq.append((s, rec))
    cap = 200 if ctx.tier == "quick" else 1500
    # at most a fifth of the sample are points that the count test alone decides
    insuff = [x for x in uniq if any(n < sc.doc_unknowns_per_system(x[0].ty, x[0].r, x[0].c) for n in x[1]["np"]["counts"])]
    rest = [x for x in uniq if x not in insuff]
    ctx.rng.shuffle(insuff)
    ctx.rng.shuffle(rest)
    rest.sort(key=lambda x: 0 if not x[1]["np"]["fe"] else 1)      # enough equations but rank deficient: all of them first
    rest = rest[:cap - cap // 5]
    uniq = rest + insuff[:cap - len(rest)] if len(rest) < cap - cap // 5 else rest + insuff[:cap // 5]
    uniq = uniq[:cap]
    nbad_num = numeric_model_tie(ctx, uniq, stats) if uniq else 0
    ctx.obligation("tie:numeric model (q_solve_system: counts, rank verdict = exact-rank oracle, true terms exactly, library terms)",
                   nbad_num == 0 and stats["numeric_ok"] >= 20 and stats["numeric_singular"] >= 3 and stats["numeric_insufficient"] >= 10
                   and stats["numeric_terms_vs_library"] >= 10,
                   "%d points: %d insufficient, %d singular (%d of them solved by the library anyway), %d solved, %d exact term "
                   "vectors, %d compared with the library (worst %.2g); %d problems"
                   % (stats["numeric_points"], stats["numeric_insufficient"], stats["numeric_singular"],
                      stats["numeric_singular_but_library_solved"], stats["numeric_ok"], stats["numeric_terms_exact"],
                      stats["numeric_terms_vs_library"], stats["numeric_worst_term_error"], nbad_num))
    # order irrelevance on the implementation: same standards, different orders -> same counts and decision
    order_bad = 0
    for g, lst in groups.items():
        base = lst[0][1]
        for s, f in lst[1:]:
            ctx.count(None)
            constrained = f.get("verdict") in ("edom", "solve") or base.get("verdict") in ("edom", "solve")
            if f["counts"] != base["counts"] or f["deficient"] != base["deficient"] or (constrained and f["ok"] != base["ok"]):
                order_bad += 1
                if order_bad <= 2:
                    ctx.violation({"kind": "disagreement", "op": "vnacal_new_solve", "class": "order of standards"},
                                  "the same standards in another order give other counts / outcome (%s %dx%d): %s vs %s"
                                  % (s.ty, s.r, s.c, f, base), {"group": str(g)})
    ctx.obligation("tie:order-irrelevant-on-implementation", order_bad == 0, "%d groups compared" % len(groups))
    ctx.extra.update(stats)
    ctx.extra["scenarios"] = len(scen)
    for s, p, script in first_problems[:4]:
        sig = {"kind": "disagreement", "op": "vnacal_new_solve" if p["op"] in ("solve", "solvefail", "terms", "apply") else "vnacal_new_add",
               "class": p["kind"]}
        ctx.violation(sig, "%s %dx%d, operation %d (%s): %s" % (s.ty, s.r, s.c, p["index"], p["op"], p["what"]),
                      {"script": script[:p["index"] + 2], "c_line": p["c"], "model_line": p["model"], "problem": p})
    ctx.obligation("tie:model-vs-library + required outcomes", nprob == 0, "%d problems" % nprob)
    if drv is not None:
        ctx.obligation("tie:rectangular S on 8/10/14-term types is refused (EINVAL) by model and library",
                       ctx.extra.get("argcheck_rectangular_non16", 0) >= 10 and
                       "argcheck_rectangular_not_refused_by_model" not in ctx.extra,
                       "%d such calls compared" % ctx.extra.get("argcheck_rectangular_non16", 0))
    ctx.obligation("tie:coverage (TRL dispatch, parameter write-back and injected allocation failures exercised)",
                   stats["trl_dispatched"] >= 8 and stats["writebacks"] >= 20 and stats["writeback_faults"] >= 8
                   and stats["alloc_faults"] >= 16,
                   "trl %d, write-backs %d, allocation faults %d (in the write-back %d)"
                   % (stats["trl_dispatched"], stats["writebacks"], stats["alloc_faults"], stats["writeback_faults"]))
    ctx.obligation("tie:coverage (auto-calibrations with unknown + correlated parameters exactly one equation short)",
                   stats["one_short_with_correlated"] >= 12, "%d such solves (EDOM required)" % stats["one_short_with_correlated"])
    ctx.obligation("tie:coverage (required EDOM and required success both exercised)",
                   stats["edom_required"] > 50 and stats["solve_required"] > 50 and stats["dut_checked"] > 10,
                   "edom %d, success %d, dut %d" % (stats["edom_required"], stats["solve_required"], stats["dut_checked"]))
    ctx.obligation("tie:coverage (minimal determining sets with scaled receiver readings; re-solves after a success with "
                   "standards given as frequency tables)",
                   stats["square_scaled_required"] >= 8 and stats["vector_resolve_terms"] >= 8,
                   "%d required successes on square systems with readings scaled by 1e-7..1e7, %d term vectors of re-solves "
                   "with table standards compared with the true terms" % (stats["square_scaled_required"], stats["vector_resolve_terms"]))
    ctx.obligation("tie:coverage (unknown parameter, a column short of equations while the total count passes: EDOM required, DD90)",
                   stats["short_system_total_passes"] >= 6, "%d such solves" % stats["short_system_total_passes"])
    ctx.obligation("tie:coverage (through / reflect / line in all six orders: success, terms, parameters and device against the truth)",
                   stats["trl_truth_required"] >= 24 and stats["parameters_checked"] >= 48,
                   "%d required TRL successes, %d parameter values read back (worst %.2g)"
                   % (stats["trl_truth_required"], stats["parameters_checked"], stats["worst_parameter_error"]))
    searched = "%d solve calls in %d histories against the library, the model and the exact-rank oracle" % (stats["solves"], len(scen))
    if not ctx.violations:
        for name, ok, detail in list(ctx.obligations):
            if not ok and not name.startswith("audit:"):     # (the global source audit is reported by the framework itself)
                ctx.unproved(name, detail or "obligation failed", searched)
                break
