"""Tie of the NPD header model (coq/Files/NpdScan.v hrun/header_result) to _vnadata_load_npd: for the
generated NPD spellings (shuffled header lines, legacy rows/columns) the model's (ports, frequencies,
number of parameters) must be what vnadata_fload produced."""
import re

import c06_ties


def run(ctx, files, broken, info=None, results=None):
    if not info:
        return
    body = ["Require Import List Bool Arith.", "Require Import LV.Files.NpdScan.", "Import ListNotations."]
    rows = []
    for cid, (kind, truth, sp, text, name) in info.items():
        if kind != "npd":
            continue
        hl = []
        ok = True
        for ln in text.split("\n"):
            m = re.match(r"^\s*#:([a-z0-9]+)\s*(.*)$", ln)
            if not m:
                continue
            k, rest = m.group(1), re.sub(r"\s#.*$", "", m.group(2)).split()
            if k == "version":
                hl.append("HVersion %s" % ("true" if rest[:1] == ["1.0"] else "false"))
            elif k in ("ports", "rows", "columns", "frequencies", "fprecision", "dprecision"):
                hl.append("H%s %s" % (k.capitalize(), rest[0]))
            elif k == "parameters":
                ents = [c06_ties.entry_term(e) for e in ",".join(rest).split(",")]
                if any(e is None for e in ents):
                    ok = False
                hl.append("HParameters %s" % c06_ties.coq_list(["(%s)" % e for e in ents if e]))
            elif k == "z0":
                pass             # not in the model (must follow the port count)
        lines = results.get(cid) or []
        dump = [l for l in lines if l.startswith("DUMP")]
        load = [l for l in lines if l.startswith("LOAD")]
        if not ok or not dump or not load or not load[0].startswith("LOAD 0"):
            continue
        h = dump[0].split("|")[0].split()
        rows.append((cid, int(h[3]), int(h[4]), len(h[9].split(",")) if len(h) > 9 else 0))
        body.append("Eval vm_compute in (match header_result (hrun %s) with Some (p, f, l) => (p, f, length l) | None => (999, 999, 999) end)."
                    % c06_ties.coq_list(["(%s)" % x for x in hl]))
    if not rows:
        return
    rc, cout, cerr = ctx.coq_eval("npd_header_cases", "\n".join(body) + "\n", timeout=600)
    if rc != 0:
        ctx.obligation("tie:npd_header_model", False, "model evaluation failed: " + cerr[-300:])
        broken.append("NPD header model cannot be evaluated: " + cerr[-300:])
        return
    blocks = re.findall(r"=\s*\((\d+),\s*(\d+),\s*(\d+)\)", cout)
    bad = 0
    for (cid, cols, nf, nparam), (mp, mf, ml) in zip(rows, blocks):
        ctx.traces_validated += 1
        if (int(mp), int(mf), int(ml)) != (cols, nf, nparam):
            bad += 1
            if bad <= 3:
                ctx.violation({"kind": "disagreement", "op": "npd_header", "class": "model_vs_c"},
                              "NPD header of %s: loader gives ports %d, frequencies %d, %d parameters; model %s %s %s"
                              % (cid, cols, nf, nparam, mp, mf, ml), {"file": info[cid][3]})
    ctx.obligation("tie:npd_header_model", bad == 0 and len(blocks) == len(rows), "%d of %d differ" % (bad, len(rows)))
    ctx.extra["npd_header_cases"] = len(rows)
