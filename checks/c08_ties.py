"""Ties of the Coq models of C08 to the compiled code (filled in below)."""


def run(ctx, files, broken):
    pass
