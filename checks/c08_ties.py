"""Tie of the NPD header model (coq/Files/NpdScan.v hrun/header_result) to _vnadata_load_npd: for the
generated NPD spellings (shuffled header lines, legacy rows/columns) the model's (ports, frequencies,
number of parameters) must be what vnadata_fload produced."""
import re

import c06_ties


def run(ctx, files, broken, info=None, results=None):
    if not info:
        return
    body = ["Require Import List Bool Arith.", "Require Import LV.Files.NpdScan.", "Import ListNotations."]
    rows = []
    for cid, (kind, truth, sp, text, name) in info.items():
        if kind != "npd":
            continue
        hl = []
        ok = True
        for ln in text.split("\n"):
            m = re.match(r"^\s*#:([a-z0-9]+)\s*(.*)$", ln)
            if not m:
                continue
            k, rest = m.group(1), re.sub(r"\s#.*$", "", m.group(2)).split()
            if k == "version":
                hl.append("HVersion %s" % ("true" if rest[:1] == ["1.0"] else "false"))
            elif k in ("ports", "rows", "columns", "frequencies", "fprecision", "dprecision"):
                hl.append("H%s %s" % (k.capitalize(), rest[0]))
            elif k == "parameters":
                ents = [c06_ties.entry_term(e) for e in ",".join(rest).split(",")]
                if any(e is None for e in ents):
                    ok = False
                hl.append("HParameters %s" % c06_ties.coq_list(["(%s)" % e for e in ents if e]))
            elif k == "z0":
                pass             # not in the model (must follow the port count)
        lines = results.get(cid) or []
        dump = [l for l in lines if l.startswith("DUMP")]
        load = [l for l in lines if l.startswith("LOAD")]
        if not ok or not dump or not load or not load[0].startswith("LOAD 0"):
            continue
        h = dump[0].split("|")[0].split()
        rows.append((cid, int(h[3]), int(h[4]), len(h[9].split(",")) if len(h) > 9 else 0))
        body.append("Eval vm_compute in (match header_result (hrun %s) with Some (p, f, l) => (p, f, length l) | None => (999, 999, 999) end)."
                    % c06_ties.coq_list(["(%s)" % x for x in hl]))
    if not rows:
        return
    rc, cout, cerr = ctx.coq_eval("npd_header_cases", "\n".join(body) + "\n", timeout=600)
    if rc != 0:
        ctx.obligation("tie:npd_header_model", False, "model evaluation failed: " + cerr[-300:])
        broken.append("NPD header model cannot be evaluated: " + cerr[-300:])
        return
    blocks = re.findall(r"=\s*\((\d+),\s*(\d+),\s*(\d+)\)", cout)
    bad = 0
    for (cid, cols, nf, nparam), (mp, mf, ml) in zip(rows, blocks):
        ctx.traces_validated += 1
        if (int(mp), int(mf), int(ml)) != (cols, nf, nparam):
            bad += 1
            if bad <= 3:
                ctx.violation({"kind": "disagreement", "op": "npd_header", "class": "model_vs_c"},
                              "NPD header of %s: loader gives ports %d, frequencies %d, %d parameters; model %s %s %s"
                              % (cid, cols, nf, nparam, mp, mf, ml), {"file": info[cid][3]})
    ctx.obligation("tie:npd_header_model", bad == 0 and len(blocks) == len(rows), "%d of %d differ" % (bad, len(rows)))
    ctx.extra["npd_header_cases"] = len(rows)


# ----------------------------------------------------------------------------------------------------------------
# RI / MA / DB (Files/TsFormat.v convert_value_pair, extracted, against the compiled function and the ground truth)
# ----------------------------------------------------------------------------------------------------------------
def _hexf(x):
    return float(x).hex()


def _parse_v(line):
    t = line.split()
    if len(t) != 3 or t[0] != "V":
        return None
    return complex(float.fromhex(t[1]) if "x" in t[1] else float(t[1]), float.fromhex(t[2]) if "x" in t[2] else float(t[2]))


def format_pairs(rng, n):
    """(truth, ri, ma, db): one complex number and its three spellings; magnitudes 1e-4 .. 1e4 (the conditioning filter:
    inside it cexp / log10 lose at most a few ulp), every quadrant, the axes, angles beyond +-180 degrees."""
    import cmath
    import math
    out = []
    for k in range(n):
        mag = 10.0 ** rng.uniform(-4, 4) if k % 7 else rng.choice([1.0, 10.0, 0.1, 2.0, 100.0])
        ang = rng.uniform(-180, 180) if k % 5 else rng.choice([0.0, 90.0, -90.0, 180.0, -180.0, 45.0, 270.0, -450.0, 360.0])
        z = cmath.rect(mag, math.radians(ang))
        out.append((z, (z.real, z.imag), (mag, ang), (20.0 * math.log10(mag), ang)))
    return out


def format_tie(ctx, H):
    import vplib
    rng = ctx.rng
    try:
        drv = ctx.ocaml_driver("drv_tsfmt")
        exe = ctx.build_harness("tstone_fmt", san=True, exclude=("vnadata_load_touchstone.c",))
    except Exception as e:                                  # pragma: no cover
        ctx.obligation("tie:format_model", False, "cannot build: %s" % str(e)[-300:])
        ctx.unproved("tie:format_model", "driver / harness does not build: %s" % str(e)[-300:], "nothing was compared")
        return
    n = 400 if ctx.tier == "quick" else 4000
    trip = format_pairs(rng, n)
    cmds = []
    for z, ri, ma, db in trip:
        cmds += ["conv RI %s %s" % (_hexf(ri[0]), _hexf(ri[1])), "conv MA %s %s" % (_hexf(ma[0]), _hexf(ma[1])),
                 "conv DB %s %s" % (_hexf(db[0]), _hexf(db[1]))]
    # pairs that are not spellings of one number: the case splits of the function itself (sign of dB, zero magnitude, ...)
    extra = []
    for _ in range(n // 2):
        f = rng.choice(["RI", "MA", "DB"])
        a = rng.choice([0.0, -0.0, 1.0, -1.0, rng.uniform(-60, 60), rng.uniform(-1e3, 1e3)])
        b = rng.choice([0.0, 180.0, -180.0, rng.uniform(-720, 720)])
        extra.append("conv %s %s %s" % (f, _hexf(a), _hexf(b)))
    allc = cmds + extra
    rc1, out1, err1 = vplib.sh([exe], input="\n".join(allc) + "\n", timeout=300, env=ctx.run_env(leak=True))
    rc2, out2, err2 = vplib.sh([drv], input="\n".join(allc) + "\n", timeout=300)
    cl, ml = out1.split("\n")[:len(allc)], out2.split("\n")[:len(allc)]
    if rc1 != 0 or rc2 != 0 or len([x for x in cl if x]) != len(allc) or len([x for x in ml if x]) != len(allc):
        sig = vplib.asan_signature(err1) or {"kind": "fault", "error": "rc %s/%s" % (rc1, rc2), "function": "convert_value_pair"}
        ctx.violation(sig, "convert_value_pair harness or model driver failed: %s %s" % (err1[-300:], err2[-300:]), {"commands": allc[:20]})
        ctx.obligation("tie:format_model", False, "harness rc %s, driver rc %s" % (rc1, rc2))
        return
    bad_model = bad_equiv = 0
    TOLM = 1e-13          # compiled function vs extracted model on the same binary64 inputs (libm's cexp vs exp/cos/sin)
    TOLE = 5e-12          # three spellings of one number vs each other and vs the ground truth
    for i, cmd in enumerate(allc):
        c, m = _parse_v(cl[i]), _parse_v(ml[i])
        ctx.traces_validated += 1
        ok = c is not None and m is not None and (abs(c - m) <= TOLM * max(abs(c), abs(m)) or (c != c and m != m))
        if not ok:
            bad_model += 1
            if bad_model <= 2:
                ctx.violation({"kind": "disagreement", "op": "convert_value_pair", "class": "model_vs_c"},
                              "convert_value_pair and its model (Files/TsFormat.v, binary64 instance) disagree on '%s': C %r, model %r"
                              % (cmd, c, m), {"command": cmd, "c": cl[i], "model": ml[i]})
    for k, (z, ri, ma, db) in enumerate(trip):
        vals = [_parse_v(cl[3 * k + j]) for j in range(3)]
        ctx.count(("fmt", k))
        if any(v is None for v in vals):
            continue
        dev = max(abs(v - z) for v in vals)
        if not dev <= TOLE * abs(z):
            bad_equiv += 1
            if bad_equiv <= 2:
                ctx.violation({"kind": "spelling_changes_data", "class": "format", "filetype": "ts"},
                              "RI %r, MA %r and DB %r spell %r but convert_value_pair gives %r" % (ri, ma, db, z, vals),
                              {"ri": ri, "ma": ma, "db": db, "truth": repr(z), "c": [cl[3 * k + j] for j in range(3)]})
    ctx.obligation("tie:format_model", bad_model == 0, "%d of %d conversions differ from the model" % (bad_model, len(allc)))
    ctx.obligation("tie:format_equiv", bad_equiv == 0, "%d of %d triples convert differently" % (bad_equiv, len(trip)))
    ctx.extra["format_conversions"] = len(allc)
