"""Ties of the byte-level loader models (coq/Files/TsTok.v, TsParse.v, NpdLoad.v; lib/tstone.py) used by
checks/C08.py and checks/c09_data.py (agent tstone).

Every function records one obligation `tie:...` and, for each class of disagreement between the extracted
model and the C code, a violation whose replay holds the input (the failing input *is* the disagreement)."""
import tstone as T

# Coq obligations of C08 (equivalent spellings) and of the network-data half of C09 (totality)
COQ_FILES_C08 = ["Files/NpdScan.v", "Files/NpdScanProofs.v", "Files/TsTok.v", "Files/TsTokProofs.v", "Files/TsParse.v",
                 "Files/TsParseBasics.v", "Files/TsSpec.v", "Files/TsSpecV2.v", "Files/TsSpecV1.v", "Files/TsMatrix.v",
                 "Files/TsLoadV2.v", "Files/TsLoadV1.v", "Files/TsEquiv.v", "Files/TsRender.v", "Files/NpdLoad.v", "Files/NpdLoadProofs.v",
                 "Files/TsExamples.v", "Files/TsFormat.v", "Files/TsFormatProofs.v", "Files/TsV2Order.v", "Files/TsV2OrderProofs.v",
                 "Files/TsV2OrderExamples.v", "Files/NpdCols.v", "Files/NpdColsProofs.v", "Files/NpdColsExamples.v", "Files/TsFormatV2g.v", "Files/NpdHeaderOrder.v", "Properties_C08.v",
                 "Files/TsFormatReal.v", "Properties_C08_real.v"]
COQ_FILES_C09 = ["Files/TsTok.v", "Files/TsTokProofs.v", "Files/TsParse.v", "Files/TsParseBasics.v", "Files/TsTotal.v",
                 "Files/TsWf.v", "Files/NpdScan.v", "Files/NpdLoad.v", "Files/NpdLoadProofs.v", "Files/NpdWf.v", "Files/TsExamples.v",
                 "Properties_C09.v"]


def models(ctx):
    m = getattr(ctx, "_tstone_models", None)
    if m is None:
        m = T.Models(ctx)
        ctx._tstone_models = m
    return m


def _hexfile(text):
    return text.encode("latin-1").hex()


def tie_tokens(ctx, M, texts, label, flagsets=(0, 4, 2, 1), pick=None):
    """texts: list of (id, text) of Touchstone inputs.  pick: None or a function id -> tuple of flag sets."""
    if not texts:
        return 0
    cmds, keys = [], []
    for cid, text in texts:
        hx = _hexfile(text) or "-"
        for fl in (pick(cid) if pick else flagsets):
            cmds.append("tok %d %s" % (fl, hx))
            keys.append((cid, fl))
    c = M.white(cmds)
    m = M.model(cmds)
    byid = dict(texts)
    classes = {}
    for k, cl, ml in zip(keys, c, m):
        d = T.compare_tokens(cl, ml)
        ctx.traces_validated += 1
        if d is None:
            continue
        cls = "fault" if cl.startswith("FAULT") else ("allocation" if "ALLOC" in d else "token")
        classes[cls] = classes.get(cls, 0) + 1
        if classes[cls] <= 2:
            if cls == "fault":
                import vplib
                sig = vplib.asan_signature(cl.replace(" | ", "\n")) or {"kind": "fault", "error": cl[:60], "function": "next_token"}
            else:
                sig = {"kind": "disagreement", "op": "ts_tokens", "class": cls}
            ctx.violation(sig, "[%s] next_token(flags=%d) and the tokenizer model disagree on input %s: %s" % (label, k[1], k[0], d),
                          {"file": byid[k[0]], "file_hex": _hexfile(byid[k[0]]), "flags": k[1], "c": cl[:2000], "model": ml[:2000]})
    ctx.obligation("tie:tokenizer_model[%s]" % label, not classes, "%d of %d token streams differ %s" % (sum(classes.values()), len(cmds), classes or ""))
    ctx.extra["token_streams_%s" % label] = len(cmds)
    return len(cmds)


def tie_npd_scan(ctx, M, texts, label):
    if not texts:
        return 0
    bad, n = T.npd_scan_tie(M, texts)
    byid = dict(texts)
    ctx.traces_validated += n
    for cid, d in bad[:2]:
        ctx.violation({"kind": "disagreement", "op": "npd_scan", "class": "fault" if "died" in d else "fields"},
                      "[%s] scan_line and the NPD scanner model disagree on input %s: %s" % (label, cid, d),
                      {"file": byid[cid], "file_hex": _hexfile(byid[cid])})
    ctx.obligation("tie:npd_scanner_model[%s]" % label, not bad, "%d of %d field lists differ" % (len(bad), n))
    ctx.extra["npd_scans_%s" % label] = n
    return n


def tie_loads(ctx, M, inputs, results, label, timeout=900):
    """inputs: (id, filename, text); results: output lines of datafiles_harness per id, the first LOAD / DUMP being the
    load of the input into a fresh object."""
    todo = []
    for cid, name, text in inputs:
        lines = results.get(cid)
        if lines is None or any(l.startswith("FAULT") for l in lines):
            continue
        ld = [l for l in lines if l.startswith("LOAD")]
        dp = [l for l in lines if l.startswith("DUMP")]
        if ld and dp:
            todo.append((cid, name, text, ld[0], dp[0]))
    cmds = [("ts %s" if T.is_touchstone_name(name) else "nl %s") % (_hexfile(text) or "-") for cid, name, text, _, _ in todo]
    mlines = M.model(cmds, timeout=timeout)
    classes = {}
    stats = {"compared": 0, "ok_loads": 0, "rejected": 0, "skipped": 0}
    for (cid, name, text, ld, dp), ml in zip(todo, mlines):
        ts = T.is_touchstone_name(name)
        r = T.compare_ts(T.parse_model_ts(ml), ld, dp) if ts else T.compare_npd(T.parse_model_npd(ml), ld, dp)
        if r is None:
            stats["compared"] += 1
            stats["ok_loads" if ml.startswith("OK") else "rejected"] += 1
            ctx.traces_validated += 1
            continue
        if r[0] == "skip":
            stats["skipped"] += 1
            continue
        key = ("ts_load" if ts else "npd_load", r[1])
        classes[key] = classes.get(key, 0) + 1
        if classes[key] <= 2:
            ctx.violation({"kind": "disagreement", "op": key[0], "class": r[1]},
                          "[%s] vnadata_fload and the loader model disagree on input %s (%s): %s" % (label, cid, name, r[2]),
                          {"file": text, "file_hex": _hexfile(text), "filename": name, "c": [ld[:1500], dp[:1500]], "model": ml[:1500]})
    ctx.obligation("tie:loader_model[%s]" % label, not classes,
                   "%d compared (%d loaded, %d rejected, %d skipped), %d differ %s"
                   % (stats["compared"], stats["ok_loads"], stats["rejected"], stats["skipped"], sum(classes.values()),
                      dict(("%s/%s" % k, v) for k, v in classes.items()) or ""))
    ctx.extra["model_loads_%s" % label] = stats
    # more than a quarter skipped would hollow the tie out
    if stats["skipped"] * 4 > max(1, len(todo)):
        ctx.obligation("tie:loader_model[%s]:coverage" % label, False, "%d of %d inputs skipped" % (stats["skipped"], len(todo)))
    return stats


# --------------------------------------------------------------------------------------------------
# decorations (tok_decoration / npd_comment_blank_invariance on the C side)
# --------------------------------------------------------------------------------------------------
def decorate_ts(rng, text):
    """Insert blanks, comments and blank lines at token boundaries and change letter case; the positions are found by a
    plain reading of the text (outside [..] and outside comments), not by the model."""
    out = []
    in_br = in_c = False
    prev = "\n"
    for ch in text:
        if in_c:
            if ch == "\n":
                in_c = False
        elif in_br:
            if ch == "]" or ch == "\n":
                in_br = False
        elif ch == "!":
            in_c = True
        elif ch == "[":
            in_br = True
        boundary = not in_c and not in_br and (ch in " \t\r\n") and ch != "\r"
        if boundary and prev not in "\r" and rng.random() < 0.25:
            out.append(rng.choice([" ", "\t", "  ", " \t", "\x0b", "\x0c"]))
        if boundary and ch == "\n" and prev != "\r" and rng.random() < 0.2:
            out.append(rng.choice(["! c", " !# [x] 9", "!"]))
        out.append(ch)
        if not in_c and not in_br and ch == "\n" and rng.random() < 0.15:
            out.append(rng.choice(["\n", "  \n", "! only a comment\n", "\t\n"]))
        prev = ch
    s = "".join(out)
    mode = rng.choice(["swap", "upper", "lower", "asis"])
    if mode == "swap":
        s = s.swapcase()
    elif mode == "upper":
        s = s.upper()
    elif mode == "lower":
        s = s.lower()
    return s


def decorate_npd(rng, text):
    out = []
    prev = "\n"
    for ln in text.split("\n"):
        if ln.strip() == "":
            out.append(ln)
            continue
        # widen existing blanks, add a trailing comment (never on a #:parameters line: everything after it is a parameter)
        ln2 = "".join((ch + rng.choice(["", " ", "\t"])) if ch in " \t" else ch for ch in ln)
        if rng.random() < 0.3:
            ln2 = rng.choice([" ", "\t"]) + ln2
        if rng.random() < 0.3 and not ln.lstrip().startswith("#:parameters"):
            ln2 = ln2 + rng.choice([" # c", "\t#", " #: x", " #!"])
        out.append(ln2)
        if rng.random() < 0.2:
            out.append(rng.choice(["", "# comment line", "   ", "#"]))
    return "\n".join(out)


def tie_decorations(ctx, M, files, label, count):
    """files: (id, kind, text) well-formed files.  For `count` of them a decorated variant must give the same C token
    stream (flags none and F_EOL) / the same NPD field lists as the original."""
    import re
    ts = [(cid, text) for cid, kind, text in files if kind == "ts"][:count]
    nf = [(cid, text) for cid, kind, text in files if kind == "npd"][:count]
    cmds, meta = [], []
    for cid, text in ts:
        var = decorate_ts(ctx.rng, text)
        for fl in (0, 4):
            cmds.append("tok %d %s" % (fl, _hexfile(text)))
            cmds.append("tok %d %s" % (fl, _hexfile(var)))
            meta.append((cid, "ts", text, var))
    for cid, text in nf:
        var = decorate_npd(ctx.rng, text)
        cmds.append("npd %s" % _hexfile(text))
        cmds.append("npd %s" % _hexfile(var))
        meta.append((cid, "npd", text, var))
    if not cmds:
        return
    c = M.white(cmds)
    m = M.model(cmds)
    bad = 0
    for i, (cid, kind, text, var) in enumerate(meta):
        a, b = c[2 * i], c[2 * i + 1]
        ma, mb = m[2 * i], m[2 * i + 1]
        # the allocation of the token buffer may differ (a comment does not go through it; longer keywords do not occur)
        # and a blank line adds one T_EOL when every call has F_EOL (the parser never asks for that after a T_EOL:
        # parse_nl_after_nl): runs of EOL are compared as one
        strip = (lambda s: re.sub(r"( EOL)+", " EOL", re.sub(r" ALLOC:\d+$", "", s)))
        ctx.traces_validated += 1
        if strip(a) != strip(b) or strip(ma) != strip(mb):
            bad += 1
            if bad <= 2:
                who = "C" if strip(a) != strip(b) else "the model"
                ctx.violation({"kind": "decoration_changes_tokens", "filetype": kind, "side": who},
                              "[%s] comments / blanks / blank lines / letter case change what %s scans (file %s)" % (label, who, cid),
                              {"file": text, "decorated": var, "c": [a[:1500], b[:1500]], "model": [ma[:1500], mb[:1500]]})
    ctx.obligation("tie:decoration_invariance[%s]" % label, bad == 0, "%d of %d decorated variants scan differently" % (bad, len(meta)))
    ctx.extra["decorated_variants_%s" % label] = len(meta)


# --------------------------------------------------------------------------------------------------
# long tokens (tok_buffer_no_overflow on the C side)
# --------------------------------------------------------------------------------------------------
def long_token_inputs(rng, tier):
    """Touchstone inputs with a word, a number and a keyword text of every length 1..300 (exactly the sizes 64, 128,
    256 of the scanner's buffer included), alone and after the buffer has grown."""
    out = []
    lengths = list(range(1, 301)) if tier != "quick" else sorted(set(list(range(1, 301, 7)) + list(range(60, 70)) +
                                                                   list(range(124, 133)) + list(range(252, 261))))
    for L in lengths:
        num = ("1." + "0" * (L - 2)) if L >= 3 else "1" * L
        out.append(("long-num-%d" % L, "x.s1p", "# GHz S RI R 50\n1 %s 0\n" % num))
        out.append(("long-word-%d" % L, "x.ts", "a" * L + "\n"))
        out.append(("long-kw-%d" % L, "x.ts", "[" + "k" * L + "]\n"))
    for L in (64, 128, 256):
        # the buffer has grown before: first a token of 2 L - 1 characters, then one that exactly fills the new size
        out.append(("grown-%d" % L, "x.s1p", "# GHz S RI R 50\n1 %s 0\n2 %s 0\n" % ("1." + "0" * (L - 3), "1." + "0" * (2 * L - 2))))
        out.append(("valid-%d" % L, "x.s1p", "# GHz S RI R 50\n1 0.5%s 0.25\n" % ("0" * (L - 3))))
    return out
