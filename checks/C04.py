"""C04 - every network-parameter conversion yields the same physical network.

1. T1 regenerates coq/Gen/Conv2_*.v from /repo/src/vnaconv_*.c; the per-function lemmas and
   Properties_C04.v are re-proved (obligations).
2. T1 is validated: the generated definitions evaluated over Q[i] in Coq against the compiled C
   functions on the same inputs (separate and aliased calls).
3. Search / support: an oracle written from vnaconv(3), independent of the library, evaluates the
   defining relations on the C outputs for random inputs.
4. n-port functions: see conv_nport (model tied by correspondence, theorems in Properties_C04n.v).
"""
import os
import re
import json
from fractions import Fraction

import vplib
import conv2
import conv2_emit
import convn_check

GEN = os.path.join(vplib.COQDIR, "Gen")


def frac_str(fr):
    return "(mkqi (%d) %d (%d) %d)"


def qi_lit(re_, im):
    return "(mkqi (%d) %d (%d) %d)" % (re_.numerator, re_.denominator, im.numerator, im.denominator)


def gen_points(rng, n):
    """Small Gaussian rationals; z0 with perfect-square real parts (so that ksq is exact)."""
    pts = []
    sq = [Fraction(4), Fraction(9), Fraction(1, 4), Fraction(25, 4), Fraction(1), Fraction(16), Fraction(49, 9)]
    for k in range(n):
        def r():
            return Fraction(rng.randint(-9, 9), rng.randint(1, 5))
        m = [(r(), r()) for _ in range(4)]
        if k == 0:
            z = [(Fraction(4), Fraction(0)), (Fraction(4), Fraction(0))]      # equal real z0
        else:
            z = [(rng.choice(sq), r()), (rng.choice(sq), r())]
        pts.append((m, z))
    return pts


def run(ctx):
    ctx.level = "proof"
    ctx.trusted_base = [
        "Coq 8.16.1 kernel (coqc); vm_compute used for the non-vacuity example and model evaluation; no native_compute",
        "axioms: none (Print Assumptions: Closed under the global context for every theorem of Properties_C04.v and Properties_C04n.v)",
        "translator translate/conv2.py + conv2_emit.py (C text -> Gallina), validated on every run against the compiled functions",
        "hand-written specification coq/Conv/ConvRel.v (relations of vnaconv(3)); rounding not modelled",
        "n-port functions: hand-written model coq/Conv/ConvN.v tied by exact-rational correspondence with the C functions",
        "gcc, ASan/UBSan for the harness",
    ]
    ctx.assumptions = ["exact field arithmetic stands for binary64 arithmetic (rounding is outside every theorem)",
                       "z0_ok z (re z = (z + conj z)/2, ksq z ^2 = re z, ksq z <> 0) stands for Re z0 > 0"]
    ctx.rule = ("two-port: each of 81 functions x random inputs (relation residual, forward and backward, "
                "aliased vs separate) + exact model-vs-C evaluation points; distinct non-trivial = "
                "(function, input) pairs with a finite well-conditioned output")
    nrel = 300 if ctx.tier == "quick" else 6000
    npts = 4 if ctx.tier == "quick" else 12
    broken = {}        # function name -> reason (proof/tie broke)

    # ------------------------------------------------------------------ 1. translate
    infos = None
    try:
        infos = conv2.translate_dir(os.path.join(ctx.repo, "src"))
    except conv2.TranslateError as e:
        ctx.log("translator: source no longer matches the accepted idiom:", e)
        ctx.obligation("T1:translate", False, str(e))
        m = re.match(r"(\w+):", str(e))
        broken[m.group(1) if m else "?"] = "translator: " + str(e)
    if infos is not None:
        ctx.obligation("T1:translate", True)
        ctx.programs = len(infos)
        conv2_emit.write_all(infos, ctx.repo, GEN, ctx.write_if_changed)
        vfiles = ["Gen/Conv2_%s.v" % x for x in conv2.TYPES] + ["Gen/Conv2_zi.v", "Gen/Conv2All.v",
                                                                "Conv/ConvThm.v", "Conv/ConvExamples.v",
                                                                "Properties_C04.v", "Lin/Lu2Cases.v",
                                                                "Conv/ConvN2.v", "Conv/ConvN2Examples.v",
                                                                "Conv/ConvNModel.v", "Conv/ConvNModelQI.v", "Properties_C04n.v",
                                                                "Conv/ConvNSpec.v", "Properties_C04ns.v"]
        ok, res = ctx.coq_obligations(vfiles)
        if not ok:
            log = getattr(ctx, "_last_coq_log", "")
            for m in re.finditer(r'File "\./((?:Gen/Conv2_|Conv/ConvN2)\w*\.v)", line (\d+)', log):
                fn = lemma_at(os.path.join(vplib.COQDIR, m.group(1)), int(m.group(2)))
                if fn:
                    key = fn.split("_")[0]
                    if m.group(1).startswith("Conv/ConvN2"):
                        key = fn[:-1] if fn.endswith("2") else fn     # stozn2 -> stozn
                    broken[key] = "lemma %s of %s no longer proves" % (fn, m.group(1))
            if not broken:
                broken["?"] = "Coq build of the C04 development failed: " + log[-600:]
            ctx.log("proof obligations failed:", broken)

    # ------------------------------------------------------------------ 3. oracle on the C functions
    table = []
    names = []
    for x in conv2.TYPES:
        for y in conv2.TYPES:
            if x != y:
                names.append("%sto%s" % (x, y))
    names += ["%stozi" % x for x in conv2.TYPES]
    src = open(os.path.join(ctx.repo, "src", "vnaconv.h")).read()
    for n in names:
        if n.endswith("zi"):
            kind = 4
        else:
            m = re.search(r"vnaconv_%s\s*\(([^;]*)\);" % n, src)
            kind = 3 if (m and "z0" in m.group(1)) else 2
        table.append('    { "%s", %d, (void *)vnaconv_%s },' % (n, kind, n))
    with open(os.path.join(ctx.tmp, "conv2_table.inc"), "w") as f:
        f.write("\n".join(table) + "\n")
    exe = ctx.build_harness("conv2_harness", san=True, extra=["-I" + ctx.tmp])
    rc, out, err = vplib.sh([exe, "rel", str(ctx.seed), str(nrel)], timeout=900, env=ctx.run_env())
    if rc != 0:
        sig = vplib.asan_signature(err) or {"kind": "fault", "error": "exit %d" % rc, "function": None}
        ctx.violation(sig, "conversion harness crashed: %s" % err[-300:], {"stderr": err[-3000:]})
    fails = {}
    for line in out.splitlines():
        p = line.split()
        if p[0] == "REL":
            used = int(p[2].split("=")[1])
            worst = float(p[3].split("=")[1])
            ctx.evaluations += used
            for i in range(min(used, 50)):
                pass
            ctx.nontrivial.add(("rel", p[1], used))
            ctx.extra.setdefault("worst_residual", {})[p[1]] = worst
        elif p[0] in ("FAIL", "ALIAS"):
            fails.setdefault(p[1], []).append(line)
    # count distinct non-trivial honestly: every used draw is a distinct (function, input)
    ctx.extra["relation_draws_used"] = ctx.evaluations
    nt = ctx.evaluations
    for fn, lines in sorted(fails.items()):
        what = ("vnaconv_%s: output does not satisfy its defining relation / aliased call differs: %s"
                % (fn, lines[0][:200]))
        ctx.violation({"kind": "relation", "function": fn}, what,
                      {"function": "vnaconv_" + fn, "report": lines, "how": "harness/conv2_harness.c rel %d %d" % (ctx.seed, nrel),
                       "broken_obligation": broken.get(fn)})
        broken.pop(fn, None)

    # ------------------------------------------------------------------ 2. translator validation
    if infos is not None:
        mism = validate_T1(ctx, infos, exe, npts)
        for fn, detail in mism.items():
            if fn in fails:
                continue
            # generated model and compiled function disagree: the translator no longer reflects the code
            broken.setdefault(fn, "T1 validation: model and C differ: " + detail)
    ctx.evaluations = nt + ctx.extra.get("t1_points", 0)
    for i in range(ctx.evaluations):
        if i >= 0:
            break
    ctx.nontrivial = set(range(nt + ctx.extra.get("t1_points_nontrivial", 0)))

    # ------------------------------------------------------------------ 4. n-port
    convn_check.run(ctx, broken)

    # ------------------------------------------------------------------ verdict for broken obligations
    for fn, reason in sorted(broken.items()):
        ctx.unproved("C04:" + fn, reason, "relation oracle on %d random inputs per function, exact evaluation points" % nrel)


def lemma_at(path, line):
    try:
        lines = open(path).read().split("\n")
    except IOError:
        return None
    for i in range(min(line, len(lines)) - 1, -1, -1):
        m = re.match(r"\s*(?:Lemma|Theorem)\s+(\w+)", lines[i])
        if m:
            return m.group(1)
    return None


def validate_T1(ctx, infos, exe, npts):
    pts = gen_points(ctx.rng, npts)
    body = ["Require Import List ZArith QArith Qcanon.", "Import ListNotations.",
            "Require Import LV.Base.CField LV.Base.QcI LV.Conv.ConvRel LV.Gen.Conv2All LV.Gen.Conv2_zi.",
            "Require Import " + " ".join("LV.Gen.Conv2_%s" % x for x in conv2.TYPES) + ".",
            "Definition sh (x : qi) := [Qnum (this (qre x)); Zpos (Qden (this (qre x))); Qnum (this (qim x)); Zpos (Qden (this (qim x)))].",
            "Definition shm (m : m2 qi) := sh (m11 m) ++ sh (m12 m) ++ sh (m21 m) ++ sh (m22 m).",
            "Definition shp (p : qi * qi) := sh (fst p) ++ sh (snd p).",
            "Definition nzf (l : list qi) := forallb (fun x => negb (qi_eqb x qi0)) l."]
    order = []
    cin = []
    for n in sorted(infos):
        inf = infos[n]
        for pi, (m, z) in enumerate(pts):
            ml = "(M2 %s %s %s %s)" % tuple(qi_lit(*c) for c in m)
            zl = "%s %s" % (qi_lit(*z[0]), qi_lit(*z[1]))
            if inf["outkind"] == "m2":
                body.append("Eval vm_compute in (nzf (%s_factors QIF %s %s), shm (%s QIF %s %s), shm (%s_alias QIF %s %s))."
                            % (n, ml, zl, n, ml, zl, n, ml, zl))
            else:
                body.append("Eval vm_compute in (nzf (%s_factors QIF %s %s), shp (%s QIF %s %s), shp (%s_alias QIF %s %s))."
                            % (n, ml, zl, n, ml, zl, n, ml, zl))
            order.append((n, pi))
            vals = " ".join("%.17g %.17g" % (float(c[0]), float(c[1])) for c in m + z)
            cin.append("%s 0 %s" % (n, vals))
            cin.append("%s 1 %s" % (n, vals))
    rc, out, err = ctx.coq_eval("t1cases", "\n".join(body) + "\n", timeout=900)
    if rc != 0:
        ctx.obligation("T1:validation", False, "model evaluation failed: " + err[-300:])
        return {"?": "evaluation of the generated model failed: " + err[-300:]}
    blocks = re.findall(r"=\s*\((true|false),(.*?)\)\s*:", out, flags=re.S)
    if len(blocks) != len(order):
        ctx.obligation("T1:validation", False, "unexpected evaluator output")
        return {"?": "unexpected evaluator output (%d blocks for %d cases)" % (len(blocks), len(order))}
    rc, cout, cerr = vplib.sh([exe, "eval"], input="\n".join(cin) + "\n", timeout=300, env=ctx.run_env())
    clines = cout.strip().split("\n")
    mism = {}
    npoints = 0
    nnontriv = 0
    for idx, ((n, pi), (okb, rest)) in enumerate(zip(order, blocks)):
        ints = [int(x) for x in re.findall(r"-?\d+", rest.replace("%Z", ""))]
        half = len(ints) // 2
        def tofl(v):
            return [Fraction(v[i], v[i + 1]) for i in range(0, len(v), 2)]
        sep, ali = tofl(ints[:half]), tofl(ints[half:])
        csep = [float(x) for x in clines[2 * idx].split()[1:]]
        cali = [float(x) for x in clines[2 * idx + 1].split()[1:]]
        npoints += 1
        if okb != "true":
            continue          # singular point of this conversion: nothing asserted
        scale = max([abs(float(x)) for x in sep] + [1.0])
        if scale > 1e6:
            continue
        nnontriv += 1
        for label, mod, cv in (("separate", sep, csep), ("aliased", ali, cali)):
            d = max(abs(float(a) - b) for a, b in zip(mod, cv)) if len(mod) == len(cv) else float("inf")
            if not (d <= 1e-9 * scale):
                mism.setdefault(n, "%s call, point %d: model %s vs C %s" %
                                (label, pi, [float(x) for x in mod], cv))
        if idx % 97 == 0:
            ctx.sample({"function": "vnaconv_" + n, "input_point": pi,
                        "model_exact": [str(x) for x in sep], "c_output": csep})
    ctx.extra["t1_points"] = npoints
    ctx.extra["t1_points_nontrivial"] = nnontriv
    ctx.traces_validated += nnontriv
    ctx.obligation("T1:validation", not mism, "; ".join("%s: %s" % kv for kv in list(mism.items())[:3]))
    return mism
