"""Ties of the Coq tokenizer / scanner models to the compiled code on the C09 inputs (filled in below)."""


def run(ctx, inputs, broken):
    pass
