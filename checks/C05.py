"""C05 - vnadata_convert applies the right conversion with the right impedances.

1. T2 (translate/convtable.py) regenerates coq/Gen/ConvTableGen.v from vnadata_convert.c / vnaconv.h;
   Data/ConvertProofs.v, Data/ConvertRefine.v, Data/ConvertTheorems.v, Data/ConvertExamples.v and
   Properties_C05.v are re-proved (table_sound over all 121 pairs by vm_compute + forallb_forall,
   arity against the prototypes, rejection, refinement of every accepted conversion - copy, matrix
   to matrix, matrix to Zin, in place and into any second object - to the array specification,
   in-place = out-of-place, machine invariant, concrete examples).
2. T2 is validated exhaustively against the compiled table (harness/convtable_harness.c includes
   vnadata_convert.c and resolves the selected function pointers to names).
3. Correspondence: conversion-centred op scripts (every type pair x in-place / out-of-place x
   ordinary / per-frequency z0 x 2x2 and NxN shapes, followed by resize / convert histories) run
   through the extracted model and the library; the model's claim "cell = vnaconv_f(matrix, z0)[i]"
   is evaluated by calling vnaconv_f itself, so the comparison is bit exact.
   Directed scripts aim at the case splits of the proofs: destination smaller / larger than the
   result, holding old contents and per-frequency impedances; sources without frequencies or
   without ports in per-frequency mode; the source is digested after every out-of-place call.
4. Twin test of the clause "in-place conversion equals conversion into a second object" on the
   implementation alone: the same source is converted into itself and into a second object that
   holds something else; the two digests (type, dimensions, frequencies, cells, z0 mode and
   values, save options) must be equal.
5. On a broken obligation or tie: search (all pairs, more histories), shrink, report.
"""
import os

import vplib
import datalib
import datagen
import convtable
import C15 as c15

SRC22 = ["0 init 1 2 2 2", "0 setmat 0 4 1,1 2,0 0,3 1,-1", "0 setmat 1 4 2,1 1,0 1,3 0,-1", "0 setfv 2 10 20",
         "0 setz0v 2 50,0 75,1", "0 setfz0v 1 2 60,0 85,-2", "0 setfmt 2", "0 setfprec 9"]
BIGDST = ["1 init 4 3 3 3", "1 setmat 0 9 9,1 9,2 9,3 9,4 9,5 9,6 9,7 9,8 9,9", "1 setmat 1 9 8,1 8,2 8,3 8,4 8,5 8,6 8,7 8,8 8,9",
          "1 setmat 2 9 7,1 7,2 7,3 7,4 7,5 7,6 7,7 7,8 7,9", "1 setfv 3 1 2 3", "1 setfz0v 2 3 11,0 12,0 13,0", "1 setft 2"]
LOOK1 = ["1 meta", "1 getfv", "1 getmat 0", "1 getmat 1", "1 hasfz0", "1 getfz0v 0", "1 getfz0v 1", "0 meta",
         "1 resize 4 3 3 3", "1 getmat 0", "1 getmat 2", "1 getfz0v 2", "1 getfv"]

DIRECTED = {
    "empty_matrix_to_zin": ["0 init 1 0 0 1", "conv 0 1 10"],
    # the concrete objects of coq/Data/ConvertExamples.v (ex_src, ex_dst)
    "example_sz_outofplace": SRC22 + BIGDST + ["conv 0 1 4"] + LOOK1,
    "example_zin_outofplace": SRC22 + BIGDST + ["conv 0 1 10"] + LOOK1,
    "example_copy_outofplace": SRC22 + BIGDST + ["conv 0 1 1"] + LOOK1,
    "example_sz_inplace": SRC22 + ["conv 0 0 4", "0 meta", "0 getmat 1", "0 getfz0v 1", "0 resize 4 3 3 3", "0 getmat 1"],
    "example_zin_inplace": SRC22 + ["conv 0 0 10", "0 meta", "0 getmat 1", "0 getfz0v 1", "0 resize 0 2 2 2", "0 getmat 0",
                                    "0 getmat 1"],
    "example_copy_inplace": SRC22 + ["conv 0 0 1", "0 meta", "0 getmat 1"],
    # destination smaller than the result in every direction
    "small_destination": SRC22 + ["1 init 10 1 1 1", "1 setmat 0 1 7,7", "1 setfz0 0 0 3,3", "conv 0 1 5"] + LOOK1[:8],
    # per-frequency mode without frequencies / without ports (setup_perf, copyz of the proof)
    "perf_without_frequencies": ["0 init 1 2 2 1", "0 setfz0v 0 2 60,0 85,0", "0 resize 1 2 2 0", "0 hasfz0", "conv 0 1 4", "1 hasfz0",
                                 "1 resize 4 2 2 1", "1 getfz0v 0", "1 getz0v", "conv 0 0 4", "0 hasfz0", "0 resize 4 2 2 1",
                                 "0 getfz0v 0", "0 getz0v"],
    "perf_without_ports_to_zin": ["0 init 1 0 0 2", "0 setfz0v 1 0", "0 hasfz0", "conv 0 1 10", "1 meta", "1 hasfz0", "1 getfz0v 1",
                                  "conv 0 0 10", "0 hasfz0", "0 getfz0v 1", "0 resize 10 1 2 2", "0 getfz0v 1"],
    "ordinary_without_frequencies": ["0 init 5 3 3 0", "0 setz0v 3 1,0 2,0 3,0", "1 init 1 2 2 2", "1 setfz0 1 1 9,9", "conv 0 1 1",
                                     "1 hasfz0", "1 getz0v", "1 resize 1 3 3 1", "1 getfz0v 0"],
    # the format carried by the set-up is the one vnadata_get_format of the source reports, also after a clear
    "format_cleared_before_convert": SRC22 + ["0 setfmt -1", "0 meta", "1 setfmt 4", "conv 0 1 4", "1 meta", "0 meta",
                                              "0 setfmt 1", "0 setfmtbad 2", "conv 0 1 5", "1 meta", "1 setfmt -1", "conv 1 0 1",
                                              "0 meta", "conv 0 0 10", "0 meta"],
    # a two-sided sweep: the container takes any frequency through set_frequency / set_frequency_vector
    # (negative, zero, unordered, repeated); a conversion carries the vector unchanged, in place and out of place
    "two_sided_sweep": ["0 init 1 2 2 3", "0 setfv 3 -2 0 2", "0 setmat 0 4 1,1 2,0 0,3 1,-1", "0 setmat 1 4 2,1 1,0 1,3 0,-1",
                        "0 setmat 2 4 1,2 1,1 0,1 3,0", "1 init 4 2 2 3", "1 setfv 3 7 8 9", "conv 0 1 4", "1 getfv", "0 getfv",
                        "conv 0 2 10", "2 getfv", "conv 0 0 5", "0 getfv", "0 setfreq 1 -5", "0 setfreq 2 -5", "conv 0 3 1",
                        "3 getfv", "3 fmin", "3 fmax", "3 addfreq -1", "3 addfreq 0", "conv 3 1 1", "1 getfv"],
    # refused conversions leave a used destination and the source as they are
    "refused_keeps_destination": SRC22 + BIGDST + ["conv 0 1 11", "1 meta", "conv 0 1 -1", "1 getmat 2", "conv 0 1 0", "1 getfz0v 2",
                                                   "0 settype 0", "0 resize 0 2 3 2", "conv 0 1 4", "1 getmat 1", "0 meta",
                                                   "conv 1 0 2", "0 meta", "1 meta"],
}


def dest_setup(rng, inplace):
    """what object 1 holds before the conversion: nothing, bare dimensions (smaller or larger than
    the result), or a used object (old contents, frequencies, per-frequency impedances, options)"""
    k = rng.random()
    if inplace or k < 0.2:
        return ["1 resize 0 %d %d %d" % (rng.randint(0, 3), rng.randint(0, 3), rng.randint(0, 4))]
    if k < 0.4:
        return ["1 dims"]
    n = rng.choice((1, 2, 3, 4, 5))
    f = rng.randint(1, 4)
    ops = ["1 init %d %d %d %d" % (rng.choice((1, 4, 5)), n, n, f)]
    for fi in range(f):
        ops.append("1 setmat %d %s" % (fi, datagen.vlist(rng, n * n, datagen.val)))
    ops.append("1 setfv %s" % datagen.fvals(rng, f))
    if rng.random() < 0.7:
        ops.append("1 setfz0v %d %s" % (rng.randrange(f), datagen.vlist(rng, n, datagen.zval)))
    else:
        ops.append("1 setz0v %s" % datagen.vlist(rng, n, datagen.zval))
    if rng.random() < 0.5:
        ops.append("1 setft %d" % rng.randint(0, 3))
        ops.append("1 setfmt %d" % rng.randint(0, 5))
    if rng.random() < 0.3:
        ops.append("1 resize 0 %d %d %d" % (rng.randint(0, 2), rng.randint(0, 2), rng.randint(0, 2)))   # allocation larger than the logical box
    return ops


def pair_scripts(rng, quick):
    """one script per (from, to, in-place?, per-frequency z0?) with suitable dimensions"""
    out = []
    for frm in range(0, 11):
        for to in range(-1, 12):
            for inplace in (True, False):
                for perf in (False, True):
                    shapes = []
                    if frm in datagen.SQUARE:
                        shapes = [2, rng.choice((1, 3)), rng.choice((0, 4, 5))] if not quick else [2, rng.choice((1, 3, 4))]
                    elif frm in datagen.TWO_PORT:
                        shapes = [2]
                    elif frm == 10:
                        shapes = [rng.randint(0, 3)]
                    else:
                        shapes = [rng.randint(0, 2)]
                    for n in shapes:
                        f = rng.randint(1, 3)
                        r = 1 if frm == 10 else n
                        ops = dest_setup(rng, inplace)
                        ops.append("0 init %d %d %d %d" % (frm, r, n, f))
                        for fi in range(f):
                            ops.append("0 setmat %d %s" % (fi, datagen.vlist(rng, r * n, datagen.val)))
                        ops.append("0 setfv %s" % datagen.fvals(rng, f))
                        ops.append("0 setz0v %s" % datagen.vlist(rng, max(r, n), datagen.zval))
                        if perf:
                            for fi in range(f):
                                if rng.random() < 0.7:
                                    ops.append("0 setfz0v %d %s" % (fi, datagen.vlist(rng, max(r, n), datagen.zval)))
                        if rng.random() < 0.3:
                            ops.append("0 setfmt %d" % rng.randint(0, 5))
                            ops.append("0 setfprec %d" % rng.randint(1, 9))
                            ops.append("0 setft %d" % rng.randint(0, 3))
                        dst = 0 if inplace else 1
                        ops.append("conv 0 %d %d" % (dst, to))
                        ops.append("%d meta" % dst)
                        if not inplace:
                            ops.append("0 meta")          # digest of the source after the call
                        # later history: chain another conversion, regrow, look
                        ops.append("conv %d %d %d" % (dst, rng.randint(0, 1), rng.randint(0, 10)))
                        ops.append("%d resize 0 %d %d %d" % (dst, rng.randint(0, 4), rng.randint(0, 4), f + rng.randint(0, 1)))
                        ops.append("%d getmat 0" % dst)
                        ops.append("%d getfz0v 0" % dst)
                        out.append(ops)
    return out


def twin_scripts(rng, count):
    """(ops of the in-place run, ops of the out-of-place run, from, to): the same source converted
    into itself and into a second object that holds something else"""
    out = []
    matrix = (1, 2, 3, 4, 5, 6, 7, 8, 9)
    for i in range(count):
        frm = rng.choice(matrix + (0, 10))
        to = frm if frm in (0, 10) or rng.random() < 0.1 else rng.choice(matrix + (10,))
        k = rng.random()
        if k < 0.05:
            to = rng.choice((-1, 11, 0))                   # refused: invalid code / matrix to undefined
        if frm in datagen.SQUARE:
            n = rng.choice((0, 1, 2, 2, 3, 4)) if to in datagen.SQUARE + (10,) or k > 0.95 else 2    # k > 0.95: wrong dimensions
        elif frm in datagen.TWO_PORT:
            n = 2
        else:
            n = rng.randint(0, 3)
        r = 1 if frm == 10 else n
        f = rng.choice((0, 1, 2, 3))
        src = ["0 init %d %d %d %d" % (frm, r, n, max(f, 1))]
        for fi in range(max(f, 1)):
            src.append("0 setmat %d %s" % (fi, datagen.vlist(rng, r * n, datagen.val)))
        src.append("0 setfv %s" % datagen.fvals(rng, max(f, 1)))
        src.append("0 setz0v %s" % datagen.vlist(rng, max(r, n), datagen.zval))
        if rng.random() < 0.6:
            for fi in range(max(f, 1)):
                if fi == 0 or rng.random() < 0.6:
                    src.append("0 setfz0v %d %s" % (fi, datagen.vlist(rng, max(r, n), datagen.zval)))
        if f == 0:
            src.append("0 resize %d %d %d 0" % (frm, r, n))
        if rng.random() < 0.4:
            src += ["0 setfmt %d" % rng.randint(0, 5), "0 setfprec %d" % rng.randint(1, 9), "0 setft %d" % rng.randint(0, 3)]
        src.append("0 meta")
        out.append((src + ["conv 0 0 %d" % to], src + dest_setup(rng, False) + ["conv 0 1 %d" % to], frm, to))
    return out


def digest_fields(tokens):
    """D <i> t <ty> <r> <c> <f> A <pa> <fa> <ma> J <junk> F .. M .. Z <perf> .. X ..  ->  comparable sections"""
    pos = dict((k, tokens.index(k)) for k in ("t", "A", "J", "F", "M", "Z", "X"))
    return {"dims": tokens[pos["t"]:pos["A"]], "junk": tokens[pos["J"]:pos["F"]], "frequencies": tokens[pos["F"]:pos["M"]],
            "cells": tokens[pos["M"]:pos["Z"]], "z0mode": tokens[pos["Z"]:pos["Z"] + 2], "z0": tokens[pos["Z"] + 2:pos["X"]],
            "options": tokens[pos["X"]:]}


def twin_check(ctx, runner, count):
    """The clause `in-place conversion equals conversion into a second object`, on the
    implementation alone (bit-exact: both runs call the same vnaconv function on the same doubles)."""
    tw = twin_scripts(ctx.rng, count)
    ops = []
    where = []
    for a, b, frm, to in tw:
        ia = len(ops) + 1 + len(a) - 1
        ops += ["reset"] + a
        ib = len(ops) + 1 + len(b) - 1
        ops += ["reset"] + b
        where.append((ia, ib))
    rc, out, err = runner.impl("\n".join(ops) + "\n")
    lines = [l.split() for l in out.strip().split("\n")] if out.strip() else []
    if rc != 0 or len(lines) != 2 * len(ops):
        # a crash here is found (and shrunk) by the correspondence on the same kind of scripts
        ctx.obligation("tie:in-place == out-of-place (implementation)", False, "harness failed: rc %d, %d lines for %d ops" % (rc, len(lines), len(ops)))
        ctx.unproved("tie:in-place == out-of-place (implementation)", "the harness did not complete the twin scripts: " + err[-300:],
                     "%d twin scripts" % len(tw))
        return
    nbad = 0
    ncmp = 0
    seen = set()
    for (a, b, frm, to), (ia, ib) in zip(tw, where):
        ra, da, rb, db = lines[2 * ia], lines[2 * ia + 1], lines[2 * ib], lines[2 * ib + 1]
        ctx.count(("twin", frm, to, tuple(da[2:7]), ra[1]))
        ctx.traces_validated += 1
        diff = None
        if ra != rb:
            diff = "outcome"
        elif ra[1] == "ok":
            ncmp += 1
            fa, fb = digest_fields(da), digest_fields(db)
            for k in ("dims", "junk", "frequencies", "cells", "z0mode", "z0", "options"):
                if fa[k] != fb[k]:
                    diff = k
                    break
        if diff is None:
            continue
        # the source as the implementation itself shows it just before the call (`0 meta`)
        sd = digest_fields(lines[2 * (ia - 1) + 1])
        src_perf = sd["z0mode"][1] == "1"
        nofreq = sd["dims"][4] == "0"
        noports = sd["dims"][2] == "0" and sd["dims"][3] == "0" and to == 10
        source = "per_frequency_z0_without_frequencies_or_ports" if src_perf and (nofreq or noports) else "other"
        sig = {"kind": "inplace_vs_outofplace", "differs": diff, "source": source}
        key = (diff, source)
        if key in seen:
            continue
        seen.add(key)
        nbad += 1
        ctx.violation(sig, "vnadata_convert %d -> %d of the same source in place and into a second object: %s differ%s"
                      % (frm, to, diff, " (source in per-frequency z0 mode without frequencies / ports)" if source != "other" else ""),
                      {"in_place_script": a, "out_of_place_script": b, "in_place": " ".join(ra + da), "out_of_place": " ".join(rb + db),
                       "how": "harness data_harness run < script (twice); compare the digests after the conv line"})
    ctx.extra["twin_conversions_compared"] = ncmp
    new = [v for v in c15.unknown_violations(ctx) if v.sig.get("kind") == "inplace_vs_outofplace"]
    ctx.obligation("tie:in-place == out-of-place (implementation)", not new, "%d differing twins" % len(new))
    ctx.log("%d twin conversions (%d accepted and compared field by field): %d classes of difference" % (len(tw), ncmp, nbad))


def run(ctx):
    ctx.level = "proof"
    ctx.trusted_base = [
        "Coq 8.16.1 kernel; vm_compute for the two 121-pair table checks",
        "axioms: none (Print Assumptions: Closed under the global context for every theorem of Properties_C05.v)",
        "translator translate/convtable.py (C initialisers -> Gallina table), validated exhaustively against the compiled table on every run",
        "hand-written coq/Data/ConvertModel.v (conv_spec, convert) tied by op-script correspondence; the vnaconv functions are abstract here (C04)",
        "extraction + ocaml/drv_data.ml, harness/data_harness.c, harness/convtable_harness.c, gcc ASan/UBSan/LSan",
        "coq/Data/ChainModel.v: conv instantiated by the generated two-port functions (Gen/Conv2All.v, property C04); the N x N functions "
        "between S, Z, Y are identified at n = 2 with the two-port functions in c05_convert_chain_nport_identified; coq/Data/ChainNModel.v "
        "interprets them by their own LU model (Conv/ConvN.v, tied by checks/convn_check.py) for the two constant pivot comparators",
        "lib/datalib.py: a probe script on the compiled library selects which of the two model variants (finding DD2 present / repaired, "
        "ConvertModel.dd2_fixed) the correspondence uses; every theorem is proved for both",
    ]
    ctx.assumptions = ["what each vnaconv function computes is property C04; here a conversion result is the symbolic application of the named function",
                       "in-place and out-of-place calls of one vnaconv function on equal inputs give bit-identical doubles (checked by the correspondence)"]
    ctx.rule = ("one evaluation = one (from, to, in-place, z0 mode, shape) conversion script compared op by op; "
                "distinct non-trivial = distinct (from, to, in-place, z0 mode, n, outcome) tuples")
    quick = ctx.tier == "quick"

    # ------------------------------------------------------------------ 1. translate + prove
    info = None
    try:
        info = convtable.generate(ctx)
        ctx.obligation("T2:translate", True)
    except (convtable.TranslateError, KeyError, ValueError) as e:
        ctx.obligation("T2:translate", False, str(e))
        ctx.log("T2: source no longer matches the accepted idiom:", e)
    ok, res = ctx.coq_obligations(["Gen/ConvTableGen.v", "Data/ConvertProofs.v", "Data/ConvertRefine.v", "Data/ConvertTheorems.v",
                                    "Data/ConvertExamples.v", "Data/TwoObjProofs.v", "Data/ChainProofs.v", "Data/ChainExamples.v",
                                    "Data/ChainLift.v", "Data/ChainNProofs.v", "Data/ChainNExamples.v", "Data/TwoObjVariants.v",
                                    "Properties_C05.v"])

    # ------------------------------------------------------------------ 2. validate T2
    runner = datalib.Runner(ctx)
    ctx.log("finding DD2 (mode lost out of place without frequencies): %s" % ("repaired in the code" if runner.dd2_fixed else "present in the code"))
    exe = ctx.build_harness("convtable_harness", san=True, extra=["-I" + ctx.tmp], exclude=("vnadata_convert.c",))
    rc, out, err = vplib.sh([exe], timeout=60, env=ctx.run_env())
    compiled = {}
    for line in out.splitlines():
        p = line.split()
        compiled[(int(p[0]), int(p[1]))] = None if p[2] == "INVAL" else (p[2], p[3] == "1", p[4], "" if p[5] == "-" else p[5])
    t2ok = rc == 0 and len(compiled) == 121 and info is not None
    if t2ok:
        for f in range(11):
            for t in range(11):
                if convtable.decode(info, f, t) != compiled[(f, t)]:
                    t2ok = False
                    ctx.notes.append("T2: pair (%d,%d): translator %s, compiled %s" % (f, t, convtable.decode(info, f, t), compiled[(f, t)]))
    ctx.obligation("T2:validation(121 pairs)", t2ok, "; ".join(ctx.notes[:3]))

    # ------------------------------------------------------------------ 3. correspondence
    seqs = [v for k, v in sorted(DIRECTED.items())] + pair_scripts(ctx.rng, quick)
    if not quick or not ok or not t2ok:
        for i in range(300):
            seqs.append(datagen.random_script(ctx.rng, 80, maxdim=3, maxfreq=3))
    seqs += [datagen.multi_object_script(ctx.rng) for _ in range(100 if quick else 1500)]
    nbad = 0
    for i in range(0, len(seqs), 200):
        nbad += c15.run_batch(ctx, runner, seqs[i:i + 200], "conversion scripts")
        if nbad >= 8:
            break
    ctx.log("%d conversion scripts: %d differ" % (len(seqs), nbad))
    ctx.sample({"conversion_script": seqs[len(seqs) // 2]})
    # ------------------------------------------------------------------ 4. in place == out of place
    twin_check(ctx, runner, 300 if quick else 4000)

    # accounting
    ops = []
    for s in seqs:
        ops.append("reset")
        ops.extend(s)
    raw, _, _ = runner.model("\n".join(ops) + "\n")
    lines = [l for l in raw.split("\n") if l and not l.startswith("def")]
    ndef = len([l for l in raw.split("\n") if l.startswith("def")])
    for k in range(len(ops)):
        if ops[k].startswith("conv") and 2 * k + 1 < len(lines):
            r, d = lines[2 * k].split(), lines[2 * k + 1].split()
            ctx.count((ops[k], r[1], d[3], d[4], d[5], d[6], d[d.index("Z") + 1]))
    ctx.extra["vnaconv_calls_resolved"] = ndef
    ctx.extra.pop("_seen", None)
    new = [v for v in c15.unknown_violations(ctx) if v.sig.get("kind") != "inplace_vs_outofplace"]
    ctx.obligation("tie:convert_model_vs_implementation", not new, "%d differing scripts" % len(new))
    if (not ok or not t2ok) and not new:
        ctx.unproved("Properties_C05", "Coq build / table validation failed: " +
                     (getattr(ctx, "_last_coq_log", "")[-300:] if not ok else "; ".join(ctx.notes[:2])),
                     "%d conversion scripts over all type pairs, 121-pair table comparison" % len(seqs))
