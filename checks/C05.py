"""C05 - vnadata_convert applies the right conversion with the right impedances.

1. T2 (translate/convtable.py) regenerates coq/Gen/ConvTableGen.v from vnadata_convert.c / vnaconv.h;
   Data/ConvertProofs.v and Properties_C05.v are re-proved (table_sound over all 121 pairs by
   vm_compute + forallb_forall, arity against the prototypes, rejection, in-place pointwise).
2. T2 is validated exhaustively against the compiled table (harness/convtable_harness.c includes
   vnadata_convert.c and resolves the selected function pointers to names).
3. Correspondence: conversion-centred op scripts (every type pair x in-place / out-of-place x
   ordinary / per-frequency z0 x 2x2 and NxN shapes, followed by resize / convert histories) run
   through the extracted model and the library; the model's claim "cell = vnaconv_f(matrix, z0)[i]"
   is evaluated by calling vnaconv_f itself, so the comparison is bit exact.
4. On a broken obligation or tie: search (all pairs, more histories), shrink, report.
"""
import os

import vplib
import datalib
import datagen
import convtable
import C15 as c15

DIRECTED = {
    "empty_matrix_to_zin": ["0 init 1 0 0 1", "conv 0 1 10"],
}


def pair_scripts(rng, quick):
    """one script per (from, to, in-place?, per-frequency z0?) with suitable dimensions"""
    out = []
    for frm in range(0, 11):
        for to in range(-1, 12):
            for inplace in (True, False):
                for perf in (False, True):
                    shapes = []
                    if frm in datagen.SQUARE:
                        shapes = [2, rng.choice((1, 3)), rng.choice((0, 4, 5))] if not quick else [2, rng.choice((1, 3, 4))]
                    elif frm in datagen.TWO_PORT:
                        shapes = [2]
                    elif frm == 10:
                        shapes = [rng.randint(0, 3)]
                    else:
                        shapes = [rng.randint(0, 2)]
                    for n in shapes:
                        f = rng.randint(1, 3)
                        r = 1 if frm == 10 else n
                        ops = ["1 init %d %d %d %d" % (rng.choice((0, 1, 4)), rng.randint(0, 3), 0, 0)]
                        ops[0] = "1 resize 0 %d %d %d" % (rng.randint(0, 3), rng.randint(0, 3), rng.randint(0, 4))
                        ops.append("0 init %d %d %d %d" % (frm, r, n, f))
                        for fi in range(f):
                            ops.append("0 setmat %d %s" % (fi, datagen.vlist(rng, r * n, datagen.val)))
                        ops.append("0 setfv %s" % datagen.vlist(rng, f, lambda g: str(g.randint(1, 9))))
                        ops.append("0 setz0v %s" % datagen.vlist(rng, max(r, n), datagen.zval))
                        if perf:
                            for fi in range(f):
                                if rng.random() < 0.7:
                                    ops.append("0 setfz0v %d %s" % (fi, datagen.vlist(rng, max(r, n), datagen.zval)))
                        if rng.random() < 0.3:
                            ops.append("0 setfmt %d" % rng.randint(0, 5))
                            ops.append("0 setfprec %d" % rng.randint(1, 9))
                            ops.append("0 setft %d" % rng.randint(0, 3))
                        dst = 0 if inplace else 1
                        ops.append("conv 0 %d %d" % (dst, to))
                        ops.append("%d meta" % dst)
                        # later history: chain another conversion, regrow, look
                        ops.append("conv %d %d %d" % (dst, rng.randint(0, 1), rng.randint(0, 10)))
                        ops.append("%d resize 0 %d %d %d" % (dst, rng.randint(0, 4), rng.randint(0, 4), f + rng.randint(0, 1)))
                        ops.append("%d getmat 0" % dst)
                        ops.append("%d getfz0v 0" % dst)
                        out.append(ops)
    return out


def run(ctx):
    ctx.level = "proof"
    ctx.trusted_base = [
        "Coq 8.16.1 kernel; vm_compute for the two 121-pair table checks",
        "axioms: none (Print Assumptions: Closed under the global context for every theorem of Properties_C05.v)",
        "translator translate/convtable.py (C initialisers -> Gallina table), validated exhaustively against the compiled table on every run",
        "hand-written coq/Data/ConvertModel.v (conv_spec, convert) tied by op-script correspondence; the vnaconv functions are abstract here (C04)",
        "extraction + ocaml/drv_data.ml, harness/data_harness.c, harness/convtable_harness.c, gcc ASan/UBSan/LSan",
    ]
    ctx.assumptions = ["what each vnaconv function computes is property C04; here a conversion result is the symbolic application of the named function",
                       "in-place and out-of-place calls of one vnaconv function on equal inputs give bit-identical doubles (checked by the correspondence)"]
    ctx.rule = ("one evaluation = one (from, to, in-place, z0 mode, shape) conversion script compared op by op; "
                "distinct non-trivial = distinct (from, to, in-place, z0 mode, n, outcome) tuples")
    quick = ctx.tier == "quick"

    # ------------------------------------------------------------------ 1. translate + prove
    info = None
    try:
        info = convtable.generate(ctx)
        ctx.obligation("T2:translate", True)
    except (convtable.TranslateError, KeyError, ValueError) as e:
        ctx.obligation("T2:translate", False, str(e))
        ctx.log("T2: source no longer matches the accepted idiom:", e)
    ok, res = ctx.coq_obligations(["Gen/ConvTableGen.v", "Data/ConvertProofs.v", "Properties_C05.v"])

    # ------------------------------------------------------------------ 2. validate T2
    runner = datalib.Runner(ctx)
    exe = ctx.build_harness("convtable_harness", san=True, extra=["-I" + ctx.tmp], exclude=("vnadata_convert.c",))
    rc, out, err = vplib.sh([exe], timeout=60, env=ctx.run_env())
    compiled = {}
    for line in out.splitlines():
        p = line.split()
        compiled[(int(p[0]), int(p[1]))] = None if p[2] == "INVAL" else (p[2], p[3] == "1", p[4], "" if p[5] == "-" else p[5])
    t2ok = rc == 0 and len(compiled) == 121 and info is not None
    if t2ok:
        for f in range(11):
            for t in range(11):
                if convtable.decode(info, f, t) != compiled[(f, t)]:
                    t2ok = False
                    ctx.notes.append("T2: pair (%d,%d): translator %s, compiled %s" % (f, t, convtable.decode(info, f, t), compiled[(f, t)]))
    ctx.obligation("T2:validation(121 pairs)", t2ok, "; ".join(ctx.notes[:3]))

    # ------------------------------------------------------------------ 3. correspondence
    seqs = [v for k, v in sorted(DIRECTED.items())] + pair_scripts(ctx.rng, quick)
    if not quick or not ok or not t2ok:
        for i in range(300):
            seqs.append(datagen.random_script(ctx.rng, 80, maxdim=3, maxfreq=3))
    nbad = 0
    for i in range(0, len(seqs), 200):
        nbad += c15.run_batch(ctx, runner, seqs[i:i + 200], "conversion scripts")
        if nbad >= 8:
            break
    ctx.log("%d conversion scripts: %d differ" % (len(seqs), nbad))
    ctx.sample({"conversion_script": seqs[len(seqs) // 2]})
    # accounting
    ops = []
    for s in seqs:
        ops.append("reset")
        ops.extend(s)
    raw, _, _ = runner.model("\n".join(ops) + "\n")
    lines = [l for l in raw.split("\n") if l and not l.startswith("def")]
    ndef = len([l for l in raw.split("\n") if l.startswith("def")])
    for k in range(len(ops)):
        if ops[k].startswith("conv") and 2 * k + 1 < len(lines):
            r, d = lines[2 * k].split(), lines[2 * k + 1].split()
            ctx.count((ops[k], r[1], d[3], d[4], d[5], d[6], d[d.index("Z") + 1]))
    ctx.extra["vnaconv_calls_resolved"] = ndef
    ctx.extra.pop("_seen", None)
    new = c15.unknown_violations(ctx)
    ctx.obligation("tie:convert_model_vs_implementation", not new, "%d differing scripts" % len(new))
    if (not ok or not t2ok) and not new:
        ctx.unproved("Properties_C05", "Coq build / table validation failed: " +
                     (getattr(ctx, "_last_coq_log", "")[-300:] if not ok else "; ".join(ctx.notes[:2])),
                     "%d conversion scripts over all type pairs, 121-pair table comparison" % len(seqs))
