"""C02, Levenberg-Marquardt path on data that are NOT exactly consistent, and the role of et_tolerance
(review round 3, findings C02-1 and C02-2).

Family "perturbed": over-determined self-calibrations whose measurements carry additive noise of
standard deviation 1e-6 .. 1e-3 (one fixed realisation per data set), solved with
p_tolerance = et_tolerance = t for t in 1e-4 .. 1e-12 and the iteration limit 100.  With noise the
parameters cannot equal the truth to within t, so what the property text entitles the check to assert
on these inputs is
  (i)   every call returns (per-scenario wall clock) and fails only with the documented discipline
        (-1, EDOM, one VNAERR_MATH report)                                   [check_common];
  (ii)  the iteration is deterministic and the convergence test is monotone in the tolerance: a solve
        that succeeds at tolerance t succeeds at every looser tolerance      [tolerance_monotonicity];
  (iii) "tightening the tolerances tightens the result": among the successful solves of one data set
        the distance to the tightest successful result is at most 100 t      [tightening_worse_perturbed];
  (iv)  tightening the tolerance inside the stated range 1e-4 .. 1e-12 does not turn a successful
        solve into "failed to converge" on the same data                     [tolerance_stall].
(iv) fails on the real code (known finding DE90): the accept test `sum_k_squared < best_sum_k_squared`
cannot resolve steps whose effect on sum_k_squared is below its rounding noise, no later pass is
"best", the convergence test (evaluated on best passes only) is never reached again and the
multiplier doubles until the limit.  The directed one-port witness of the review is part of every run.

Family "et_tolerance": exact data, p_tolerance = 1e-4, et_tolerance = 1e-12 against et_tolerance = 1e-4.
The property makes the calibration accurate "to within a small multiple of the configured iteration
tolerances"; with et_tolerance = 1e-12 the corrected device must meet the bound the check uses for
t = 1e-12.  On the real code et_tolerance has no effect in _vnacal_new_solve_auto (x_vector is copied
into best_x_vector before the difference is formed: the sum is identically 0), both runs return
bit-identical results and the error terms lag one step behind the parameters (known finding DE91).
"""
import random

import selfcal_gen as G

TOLS = [1e-4, 1e-6, 1e-8, 1e-10, 1e-12]


def witness_scenario(sid, tol, seed=3, noise=1e-3, limit=100):
    """the review's witness: one-port T8, m(s) = (2 s + 1) / (s + 1), six reflects, the one at s = 3
    unknown, guess 2, Gaussian noise on every measurement"""
    rng = random.Random(seed)
    sc = G.Scenario(sid, "T8", 1, [1.0e9])
    g = sc.known_vec([2.0])
    sc.lines.append("unknown u %s" % g)
    sc.truth["u"] = [3.0 + 0j]
    for i, s in enumerate([0.0, 1.0, None, -0.5, -3.0, 7.0]):
        sv = 3.0 if s is None else s
        mv = (2 * sv + 1) / (sv + 1) + complex(rng.gauss(0, noise), rng.gauss(0, noise))
        if s is None:
            nm = "u"
        else:
            nm = "w%d" % i
            sc.lines.append("scalar %s %s" % (nm, G.cnum(s)))
        sc.lines.append("mapped 1 1 %s - 1 1 %s" % (nm, G.cnum(mv)))
    sc.meta.update({"family": "perturbed", "type": "T8", "n": 1, "noise": noise, "tol": tol, "witness": True})
    sc.cmd("ptol %s" % G.fnum(tol))
    sc.cmd("ettol %s" % G.fnum(tol))
    sc.cmd("itlimit %d" % limit)
    sc.solve()
    sc.getparams()
    return sc


def part_perturbed(ctx, rec, exe, check_common, ndata):
    quick = ctx.tier == "quick"
    scs, groups = [], []
    shapes = [("T8", 1), ("U8", 1), ("UE14", 1), ("T16", 1), ("T8", 2), ("UE14", 2), ("TE10", 2), ("E12", 1)]
    for k in range(ndata):
        typ, n = shapes[k % len(shapes)]
        noise = [1e-3, 1e-4, 1e-6, 1e-3][k % 4]
        seed = ctx.rng.getrandbits(48)
        nu, nc = [(1, 0), (2, 0), (1, 1)][k % 3]
        grp = []
        for tol in TOLS:
            rng = random.Random(seed)
            nrng = random.Random(seed ^ 0x5A5A)
            sc = G.build_general(rng, "pert%d_%g" % (k, tol), typ, n, 1, nu, nc, radius=0.1,
                                 noise=(noise, 0.0, nrng))
            sc.meta.update({"family": "perturbed", "noise": noise, "tol": tol})
            sc.cmd("ptol %s" % G.fnum(tol))
            sc.cmd("ettol %s" % G.fnum(tol))
            sc.cmd("itlimit 100")
            sc.solve()
            sc.getparams()
            grp.append(sc)
        scs += grp
        groups.append(grp)
    # the directed witness (seeds whose noise realisation stalls at 1e-10 / 1e-12 on the reviewed code)
    for wseed in ([3] if quick else [3, 26, 7]):
        grp = [witness_scenario("pertw%d_%g" % (wseed, tol), tol, seed=wseed) for tol in TOLS]
        scs += grp
        groups.append(grp)
    res = G.run_batch(ctx, exe, scs)
    stats = {"solves": 0, "ok": 0, "notconverged": 0, "stalls": 0}
    for grp in groups:
        rows = []
        for sc in grp:
            r = res.get(sc.sid)
            if r is None:
                continue
            s = check_common(rec, sc, r, "LM perturbed %s" % sc.typ)
            ctx.count(("perturbed", sc.sid))
            if s is None:
                continue
            stats["solves"] += 1
            ok = s["rc"] == 0
            msg = s.get("msg", "") if not ok else ""
            vals = None
            if ok:
                stats["ok"] += 1
                vals = [r["params"][nm][0][0] for nm in sorted(sc.truth) if r["params"].get(nm)]
                if len(vals) != len(sc.truth):
                    rec.add({"kind": "writeback", "param": "any"},
                            "vnacal_get_parameter_value failed after a successful solve", sc, r)
                    vals = None
            elif "converge" in msg:
                stats["notconverged"] += 1
            rows.append((sc.meta["tol"], ok, msg, vals, sc, r))
        rows.sort(key=lambda x: -x[0])                    # loosest first
        succ = [x for x in rows if x[1] and x[3] is not None]
        # (ii) success at t => success at every looser tolerance
        for i, row in enumerate(rows):
            if row[1]:
                for loose in rows[:i]:
                    if not loose[1]:
                        rec.add({"kind": "tolerance_monotonicity", "type": row[4].typ},
                                "the solve succeeds at tolerance %g but fails (%s) at the looser tolerance %g on the same data"
                                % (row[0], loose[2][:50], loose[0]), loose[4], loose[5])
        # (iv) tightening turns success into "failed to converge"
        for i, row in enumerate(rows):
            if not row[1] and "converge" in row[2] and any(x[1] for x in rows[:i]):
                stats["stalls"] += 1
                loose = [x for x in rows[:i] if x[1]][-1]
                rec.add({"kind": "tolerance_stall", "family": "perturbed"},
                        "tightening p_tolerance / et_tolerance from %g to %g (both inside 1e-4 .. 1e-12) turns a successful "
                        "self-calibration into 'failed to converge' on the same slightly inconsistent data (noise %g, limit 100)"
                        % (loose[0], row[0], row[4].meta.get("noise", 0.0)), row[4], row[5],
                        extra={"looser": loose[0], "looser_result": [str(v) for v in (loose[3] or [])]})
        # (iii) distance to the tightest successful result
        if len(succ) >= 2:
            ref = succ[-1][3]
            for (tol, _, _, vals, sc, r) in succ[:-1]:
                dist = max(abs(a - b) for a, b in zip(vals, ref))
                if dist > 100.0 * tol + 1e-9:
                    rec.add({"kind": "tightening_worse_perturbed", "type": sc.typ},
                            "result at tolerance %g is %.3g away from the result at tolerance %g (bound %.3g)"
                            % (tol, dist, succ[-1][0], 100.0 * tol + 1e-9), sc, r)
    ctx.extra["lm_perturbed"] = stats
    return stats


def part_et_tolerance(ctx, rec, exe, check_common, ndata):
    scs, pairs = [], []
    shapes = [("T8", 1), ("U8", 2), ("TE10", 1), ("UE14", 2), ("T16", 1), ("E12", 2)]
    for k in range(ndata):
        typ, n = shapes[k % len(shapes)]
        seed = ctx.rng.getrandbits(48)
        pair = []
        for et in (1e-4, 1e-12):
            rng = random.Random(seed)
            sc = G.build_general(rng, "ettol%d_%g" % (k, et), typ, n, 1, 1, 0, radius=0.1)
            sc.meta.update({"family": "et_tolerance", "ptol": 1e-4, "ettol": et})
            sc.cmd("ptol 1e-4")
            sc.cmd("ettol %s" % G.fnum(et))
            sc.solve()
            sc.getparams()
            G.add_dut(rng, sc)
            pair.append(sc)
        scs += pair
        pairs.append(pair)
    res = G.run_batch(ctx, exe, scs)
    dead = 0
    worst = 0.0
    for a, b in pairs:
        ra, rb = res.get(a.sid), res.get(b.sid)
        if ra is None or rb is None:
            continue
        sa = check_common(rec, a, ra, "LM et_tolerance %s" % a.typ)
        sb = check_common(rec, b, rb, "LM et_tolerance %s" % b.typ)
        ctx.count(("ettol", a.sid))
        if sa is None or sb is None or sa["rc"] != 0 or sb["rc"] != 0:
            continue
        de = G.dut_error(b, rb)
        if de is None:
            continue
        worst = max(worst, de)
        bound = 1000.0 * 1e-12 + 1e-7                       # the device bound of C02.bounds at t = 1e-12
        same = ra["params"] == rb["params"] and ra["S"] == rb["S"]
        if de > bound:
            dead += 1
            rec.add({"kind": "et_tolerance_dead", "identical_to_loose_run": same},
                    "with et_tolerance = 1e-12 (p_tolerance 1e-4) the solved error terms correct a device only to %.3g "
                    "(bound %.3g); the result is %s the one obtained with et_tolerance = 1e-4"
                    % (de, bound, "bit-identical to" if same else "different from"), b, rb)
    ctx.extra["lm_et_tolerance"] = {"pairs": len(pairs), "beyond_bound": dead, "worst_device_error": worst}
    return dead
