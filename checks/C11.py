"""C11 - failures are reported as documented and leave objects unchanged and usable.

1. T3 (translate/errno_table.py, translate/errno_orders.py) regenerates coq/Gen/ErrnoGen.v from src/vnaerr.h,
   vnaerr_verror.c, vnaerr.3, the four z0 accessors and - for every modelled API function - the ORDER of its handle
   tests, refusing argument checks, early exits and writes and whether its NULL test precedes every dereference;
   coq/Err/*.v and Properties_C11.v are re-proved (the *_orders_checks_first theorems stop holding when a function
   writes before it has finished checking).
2. T3 validation: the generated table evaluated by the extracted model against the compiled
   _vnaerr_verror / _vnacal_error / _vnadata_error for every category value -1..8.
3. Model tie: the extracted decision functions (argument-checking prologues of the vnadata family
   and of the vnacal query family, add_calibration) against the library on the same (state summary,
   argument) tuples: dimensions 0..3, indices {-1, 0, n-1, n, n+1}.
4. API failure-contract catalogue (checks/c11_catalogue.py): one row per API function x argument
   class with the documented expectation (failure value, errno class, number of error-function
   calls, object observably unchanged, object still usable), run through harness/err_harness.c
   under ASan/UBSan/LSan.  A failing row is shrunk to the smallest state that still fails and
   reported as (function, argument class, state).
5. Allocation failures of the vnadata family followed by further valid use (checks/c11_catalogue.py run_alloc_faults,
   harness/err_alloc_harness.c + harness/allocwrap.c): for every allocation request k of a call, the call with request
   k failing, then the same call again, resize / init to sizes up to the failed request with every cell set and read
   back, save, free - under ASan, compared with the run in which nothing fails.
"""
import os
import re

import vplib
import errno_table
import errno_orders
import contracts
import c11_catalogue as cat
import c11_contracts

DOC_ERRNO = {0: None, 1: "EINVAL", 2: "ENOPROTOOPT", 3: "EBADMSG", 4: "0", 5: "EDOM", 6: "ENOSYS"}
MODEL_NAMES = {"SYS": None, "0": "0", "EINVAL": "EINVAL", "EDOM": "EDOM", "EBADMSG": "EBADMSG",
               "ENOENT": "ENOENT", "ENOPROTOOPT": "ENOPROTOOPT", "ENOSYS": "ENOSYS"}


def run(ctx):
    del cat.SKIPPED[:]
    ctx.level = "proof"
    ctx.trusted_base = [
        "Coq 8.16.1 kernel (coqc); vm_compute for the finite table comparison and the examples; no native_compute",
        "axioms: none (Print Assumptions: Closed under the global context for every theorem of Properties_C11.v)",
        "translator translate/errno_table.py (enum, switch, manual-page table, z0 port comparison operators), validated "
        "on every run against the compiled error reporters for category values -1..8",
        "translator translate/errno_orders.py (statement classifier: order of checks and writes, NULL / magic tests; its "
        "tables PURE / MUTATOR / SYSTEM_FAIL of callees are hand-written), checked per run by the behavioural tie: "
        "digest unchanged on every refused call, library does not return where the model says a NULL pointer is dereferenced",
        "translator translate/contracts.py (per function: ordered steps, the CONDITION of every refusing test, category, "
        "return value; the table ATOMS names the tests outside its expression grammar; tables REPORTING_CALLEES / LATE_CALLEES "
        "/ PURE_MACROS are hand-written), validated per run by harness/err_contract.c: ~1900 calls with explicit arguments, "
        "outcome / errno / callback count / category / digest compared with the generated contract run by coqc",
        "coq/Err/New2Model.v: what the variables of the generated conditions stand for (one environment per function), tied "
        "by the same rows",
        "hand-written models coq/Err/ContractModel.v, NewModel.v, RefutedModel.v of what each check tests (vnadata family, "
        "vnacal query family, add_calibration, vnacal_new family, parameter family, vnadata_convert, vnaproperty_vset on "
        "map-key paths), tied by small-scope correspondence with the library",
        "Section variables of coq/Err/*.v (ordinary premises): valid, unknown = _vnacal_get_parameter / parameter type; "
        "work, pre = the abstracted mutations; payload = the rest of an object; effect = what a clean-up call does to errno",
        "hand-written reading of the manual pages: coq/Err/ErrBase.v (doc_errno), ContractModel.v (doc_data_valid, "
        "doc_query_refusal) and the expectation columns of checks/c11_catalogue.py",
        "extraction (ExtrOcamlBasic only) + ocaml/drv_err.ml; gcc, ASan/UBSan/LSan for the harness",
    ]
    ctx.assumptions = ["C int arguments are modelled as Z (no wrap-around except the INT_MAX / rows test of vnadata_resize)",
                       "a NULL object pointer is the only invalid handle modelled (None); a pointer to something else is outside "
                       "the model; allocation failures (EvA events, C12) and failures inside the numeric kernels are outside it",
                       "the work behind a passed prologue is abstracted: only its effect on type/dimensions/z0 mode "
                       "(sum_after) and on the slot table is modelled"]
    ctx.rule = ("one evaluation = one (API function, argument class, object state) row run on the library, or one "
                "(state summary, argument tuple) compared between extracted model and library; distinct non-trivial = "
                "distinct (function, argument class, state) with a refusal or a state change")
    broken = {}

    # ------------------------------------------------------------------ 1. translate + proofs
    info = None
    # contracts (ordered steps with conditions, categories, return values) of the vnacal_new settings, vnacal_apply,
    # the queries ...: coq/Gen/ContractGen.v
    cinfo = None
    try:
        cinfo = contracts.generate(ctx)
        ctx.obligation("T3:contracts", True)
        ctx.extra["contract_functions"] = [fn for fn, _, _ in cinfo["contracts"]]
        ctx.extra["verror_paths"] = dict((k, " ".join(v)) for k, v in cinfo["verror"])
    except (contracts.ContractError, errno_orders.OrderError, OSError) as e:
        ctx.log("contracts: source no longer matches the accepted idiom:", e)
        ctx.obligation("T3:contracts", False, str(e))
        broken["T3:contracts"] = "translate/contracts.py: %s" % e
    try:
        info = errno_table.generate(ctx, with_contracts=False)
        ctx.obligation("T3:translate", True)
    except errno_table.TranslateError as e:
        ctx.log("T3: source no longer matches the accepted idiom:", e)
        ctx.obligation("T3:translate", False, str(e))
        broken["T3:translate"] = str(e)
    if info is not None:
        ctx.extra["z0_port_test_strict"] = info["z0"]
        ctx.extra["add_common_prevalidates"] = info["add_common_prevalidates"]
        ctx.extra["check_parameter_recurses"] = info["check_parameter_recurses"]
        ctx.extra["get_parameter_recurses"] = info["get_parameter_recurses"]
        ctx.extra["generated_orders"] = dict((k, "".join(v)) for k, v in sorted(info["orders"].items()))
        ctx.extra["functions_without_null_test"] = sorted(k for k, (n, m) in info["handles"].items() if not n
                                                          and not k.startswith(("vnaproperty_", "vnacal_new_solve_internal")))
        ctx.extra["functions_without_magic_test"] = sorted(k for k, (n, m) in info["handles"].items() if n and not m)
        cat.NULL_UNCHECKED.clear()
        for k, (n, m) in info["handles"].items():
            if k.startswith("vnadata_") and not n:
                cat.NULL_UNCHECKED.add(k[len("vnadata_"):])
                cat.SKIPPED.append(("catalogue rows %s [handle=NULL]" % k,
                                    "the C function has no NULL test in front of its first dereference of the object pointer; a NULL "
                                    "object pointer is outside the property's 'valid object pointers': the model answers Fault and the "
                                    "tie checks that the library does not return (evidence: null_pointer_dereferenced_by)"))
        if info["order_notes"]:
            ctx.notes.append("order translator: " + "; ".join(info["order_notes"]))
        ok, res = ctx.coq_obligations(["Err/OrderProofs.v", "Err/ContractProofs.v", "Err/ContractProofs2.v", "Err/NewProofs.v",
                                       "Err/DataGetters.v", "Err/HistProofs.v", "Err/New2Model.v", "Err/New2Proofs.v",
                                       "Properties_C11.v"])
        if not ok:
            log = getattr(ctx, "_last_coq_log", "")
            m = re.search(r'File "\./([^"]+)", line (\d+)', log)
            where = "%s line %s" % (m.group(1), m.group(2)) if m else "?"
            broken["C11:proofs"] = "Coq build of the C11 development failed at %s: %s" % (where, log[-500:].replace("\n", " "))
            ctx.log("proof obligations failed:", where)

    # ------------------------------------------------------------------ harness
    exe = ctx.build_harness("err_harness", san=True)
    env = ctx.run_env(leak=True)
    runner = cat.Runner(ctx, exe, env)

    # ------------------------------------------------------------------ 2. T3 validation
    validate_T3(ctx, exe, env, info, broken)

    # ------------------------------------------------------------------ 3. model tie
    if "C11:proofs" not in broken and info is not None:
        drv = fresh_driver(ctx, info, broken)
        if drv is not None:
            cat.model_tie(ctx, runner, drv, broken)
            cat.model_tie2(ctx, runner, drv, broken)
            cat.history_tie(ctx, runner, drv, broken)

    # ------------------------------------------------------------------ 3d. generated contracts against the library
    c11_contracts.run_tie(ctx, broken, cinfo)

    # ------------------------------------------------------------------ 4. catalogue
    cat.run_catalogue(ctx, runner)
    cat.history_pairs_new(ctx, runner)

    # ------------------------------------------------------------------ 5. allocation failures, then further use
    try:
        exe_a = ctx.build_harness("err_alloc_harness", san=True, wrap=True)
    except vplib.BuildError as e:
        broken["harness:err_alloc_harness"] = str(e)[-600:]
        ctx.obligation("catalogue:usable-after-allocation-failure", False, "harness does not build")
    else:
        cat.run_alloc_faults(ctx, exe_a, ctx.run_env(leak=False))

    # ------------------------------------------------------------------ 6. vnacal family: allocation failure, then the same call again
    try:
        exe_c = ctx.build_harness("err_calfault", san=True, wrap=True)
    except vplib.BuildError as e:
        broken["harness:err_calfault"] = str(e)[-600:]
        ctx.obligation("catalogue:vnacal-fault-then-retry", False, "harness does not build")
    else:
        cat.run_cal_faults(ctx, exe_c, ctx.run_env(leak=False))

    ctx.extra["skipped"] = [{"what": w, "reason": r} for w, r in cat.SKIPPED]
    if runner.leak_reports:
        ctx.notes.append("LeakSanitizer reports seen while running the catalogue (memory leaks are property C03's "
                         "subject, not counted here): " + "; ".join(sorted(runner.leak_reports))[:600])
    found = [v for v in ctx.violations if v.sig.get("kind") != "unproved"
             and vplib.match_known(ctx.prop, v.sig, vplib.load_known()) is None]
    for name, reason in sorted(broken.items()):
        if found:
            # the search did find failing inputs: they are the report; the broken obligation is named in them
            for v in found:
                v.replay.setdefault("broken_obligations", {})[name] = reason[:400]
            continue
        ctx.unproved(name, reason, "errno of every category value -1..8 on the compiled reporters; %d catalogue rows; "
                     "model/library comparison" % ctx.evaluations)


def fresh_driver(ctx, info, broken):
    """The extracted driver contains the generated facts (errno table, z0 port operators, add_common
    order, the orders of checks and writes); ask the executable which facts it was extracted with and
    re-extract when they are not those of the working tree."""
    want = "".join("1" if info["z0"][f] else "0" for f in errno_table.Z0_FILES) + (
        "1" if info["add_common_prevalidates"] else "0") + ("1" if info["check_parameter_recurses"] else "0") + (
        "1" if info["get_parameter_recurses"] else "0") + "-%d" % info["orders_digest"]
    for attempt in (0, 1):
        try:
            drv = ctx.ocaml_driver("drv_err")
        except vplib.BuildError as e:
            broken["tie:driver"] = str(e)
            return None
        rc, out, err = vplib.sh([drv], input="g\n", timeout=60)
        if rc == 0 and out.strip() == want:
            return drv
        if attempt == 0:
            ctx.log("extracted driver is stale with respect to coq/Gen/ErrnoGen.v (%s, want %s): re-extracting"
                    % (out.strip(), want))
            os.utime(os.path.join(vplib.VERIF, "ocaml", "Extract_err.v"), None)
    broken["tie:driver"] = "extracted driver does not carry the generated facts of the working tree"
    return None


def validate_T3(ctx, exe, env, info, broken):
    rc, out, err = vplib.sh([exe, "errno"], timeout=120, env=env)
    rows = []
    for line in out.splitlines():
        if line.startswith("ERRNO "):
            rows.append(dict(kv.split("=", 1) for kv in line.split()[1:]))
    if rc not in (0,) or not rows:
        sig = vplib.asan_signature(err) or {"kind": "fault", "error": "exit %d" % rc, "function": "_vnaerr_verror"}
        ctx.violation(sig, "error reporter harness failed: %s" % err[-300:], {"stderr": err[-3000:]})
        ctx.obligation("T3:validation", False, "harness failed")
        return
    # model side: the table the translator has just generated (the same data coq/Gen/ErrnoGen.v holds and
    # theorem errno_table speaks about); when the translator broke, only the documented table is used
    model = {}
    if info is not None:
        conv = {"E_SYS": None, "E_ZERO": "0", "E_INVAL": "EINVAL", "E_DOM": "EDOM", "E_BADMSG": "EBADMSG",
                "E_NOENT": "ENOENT", "E_NOPROTOOPT": "ENOPROTOOPT", "E_NOSYS": "ENOSYS"}
        by_code = dict((code, conv[info["table"][name]]) for name, code in info["enum"])
        model = dict((c, by_code.get(c, conv[info["default"]])) for c in range(-1, 9))
    bad = []
    ncmp = 0
    for r in rows:
        c = int(r["cat"])
        documented = DOC_ERRNO.get(c, "ENOSYS")
        expect_doc = r["entry"] if documented is None else documented
        want_cb = 1 if r["fn"] == "1" else 0
        ctx.count(("errno", r["path"], c, r["entry"], r["fn"]))
        ncmp += 1
        problems = []
        if r["ret"] != expect_doc:
            problems.append("errno on return %s, documented %s" % (r["ret"], expect_doc))
        if want_cb and r["incb"] != expect_doc:
            problems.append("errno inside the error function %s, documented %s" % (r["incb"], expect_doc))
        if int(r["cb"]) != want_cb:
            problems.append("%s calls of the error function, expected %d" % (r["cb"], want_cb))
        if int(r["nl"]) != 0:
            problems.append("message contains a newline")
        if model:
            m = model[c]
            expect_model = r["entry"] if m is None else m
            if r["ret"] != expect_model:
                problems.append("generated table says %s, compiled function gives %s" % (expect_model, r["ret"]))
        if problems:
            bad.append((r, problems))
    ctx.traces_validated += ncmp
    ctx.obligation("T3:validation", not bad and bool(model) or (info is None and not bad),
                   "; ".join("%s cat %s: %s" % (r["path"], r["cat"], p[0]) for r, p in bad[:3]))
    seen = set()
    for r, problems in bad:
        key = (r["cat"], problems[0])
        if key in seen:
            continue
        seen.add(key)
        names = ["SYSTEM", "USAGE", "VERSION", "SYNTAX", "WARNING", "MATH", "INTERNAL"]
        c = int(r["cat"])
        cname = "VNAERR_" + names[c] if 0 <= c < 7 else "category value %d" % c
        ctx.violation({"kind": "errno_table", "category": cname},
                      "error reporter, %s: %s" % (cname, "; ".join(problems)),
                      {"how": "harness/err_harness.c errno", "row": r, "problems": problems,
                       "documented": "vnaerr(3) Category/errno table", "broken_obligation": broken.get("T3:translate")})
        broken.pop("T3:translate", None)
