"""C10, parameter chains (called from checks/C10.py).

Tie of coq/Interp/FrangeModel.v (+ the regenerated frange_clamp / range_new_parameter_reject_x of
Gen/RangeGen.v) and of coq/Interp/SigmaSplineModel.v to the code:

  * generated chains scalar | vector <- (unknown | correlated)*, sigma grids of 1, 2, 3, 5 points, their
    own or borrowed (NULL), shorter than / equal to / longer than the correlate and the calibration
    band at either end, a few calls that vnacal_make_correlated_parameter must refuse;
  * harness op `chain`: the range of EVERY parameter of the chain from _vnacal_get_parameter_frange
    (compared exactly with the model), the verdict of adding the head through the public
    vnacal_new_add_single_reflect_m after / before vnacal_new_set_frequency_vector (compared with
    add_ok / set_ok of the model, and with the property: a band that misses any consumed range by
    >= 5 % must be refused, a band covered by all must be accepted), _vnacal_get_correlated_sigma of
    the head at and between the given points (compared with the extracted sigma_interp);
  * the model is evaluated by Coq (vm_compute of FrangeRun.chain_report); the Python mirror
    lib/interp_py.py is compared exactly with it on every case.
On a disagreement of the ranges the check looks for a band on which the implementation's verdict
contradicts the property (follow-up cases built from the two ranges) before it reports an unproved tie.
"""
import re
from fractions import Fraction

import vplib
import ranges
import interp_py as ip

FR = Fraction
INF = ip.INF


def base():
    import C10
    return C10


def dblf(v):
    return FR(float(v))


# ----------------------------------------------------------------------------- generation
def pick_end(rng, lo, hi, kind, low_side):
    """One end of a supplied range relative to the needed band [lo, hi]."""
    if low_side:
        v = {"cover": lo * FR(rng.randint(50, 100), 100), "exact": lo, "miss": lo * FR(rng.randint(105, 130), 100),
             "between": lo * FR(rng.randint(1001, 1040), 1000)}[kind]
    else:
        v = {"cover": hi * FR(rng.randint(100, 200), 100), "exact": hi, "miss": hi * FR(rng.randint(60, 95), 100),
             "between": hi * FR(rng.randint(960, 999), 1000)}[kind]
    return dblf(v)


def grid(rng, a, b, n):
    if n == 1:
        return [a]
    return base().fill(rng, a, b, n)


def gen_chain(rng, min_dx):
    """-> (cf, nodes, qs) or None"""
    B = base()
    nf = rng.choice([1, 2, 2, 3, 5])
    lo = FR(rng.randint(8, 400), 8)
    hi = lo if nf == 1 else dblf(lo * FR(rng.randint(150, 1000), 100))
    cf = [lo] if nf == 1 else B.fill(rng, lo, hi, nf)
    depth = rng.choice([1, 1, 2, 2, 3, 4, 5])
    kinds = [rng.choice("KKU") for _ in range(depth)]
    if rng.random() < 0.7:
        kinds[-1] = "K"
    nranges = 1 + kinds.count("K")
    profile = rng.choice(["cover", "cover", "one_miss", "one_miss", "one_miss", "random", "random"])
    miss_at = rng.randrange(nranges) if profile == "one_miss" else -1
    idx = [0]

    def ends():
        """(kind of the low end, kind of the high end) for the next range of the chain"""
        i = idx[0]
        idx[0] += 1
        if profile == "random":
            return rng.choice(["cover", "exact", "miss", "between"]), rng.choice(["cover", "exact", "miss", "between"])
        if i == miss_at:
            side = rng.choice(["lo", "hi", "both"])
            return ("miss" if side in ("lo", "both") else rng.choice(["cover", "exact"]),
                    "miss" if side in ("hi", "both") else rng.choice(["cover", "exact"]))
        return rng.choice(["cover", "exact"]), rng.choice(["cover", "exact"])

    nodes = []
    endv = None
    if rng.random() < 0.35:
        nodes.append(("S",))
        idx[0] += 1
    else:
        kl, kh = ends()
        a, b = pick_end(rng, lo, hi, kl, True), pick_end(rng, lo, hi, kh, False)
        if not a < b:
            return None
        endv = grid(rng, a, b, rng.choice([2, 3, 5]))
        nodes.append(("V", endv))
    for k in kinds:
        if k == "U":
            nodes.append(("U",))
            continue
        n = rng.choice([1, 2, 2, 3, 5])
        sigma = [FR(rng.randint(1, 200), 64) for _ in range(n)]
        if n == 1:
            idx[0] += 1
            # the frequency vector of a single sigma value is ignored, whatever it holds
            nodes.append(("K", 1, None if rng.random() < 0.5 else [dblf(hi * 3)], sigma))
            continue
        if endv is not None and rng.random() < 0.2:
            # borrowed grid: NULL frequency vector, as many sigma values as the vector at the end has points
            idx[0] += 1
            n = len(endv)
            nodes.append(("K", n, None, [FR(rng.randint(1, 200), 64) for _ in range(n)]))
            continue
        kl, kh = ends()
        r = rng.random()
        if endv is not None and r < 0.25:                 # equal to the correlate at one end or both
            a = endv[0] if rng.random() < 0.7 else pick_end(rng, lo, hi, kl, True)
            b = endv[-1] if rng.random() < 0.7 else pick_end(rng, lo, hi, kh, False)
        else:
            a, b = pick_end(rng, lo, hi, kl, True), pick_end(rng, lo, hi, kh, False)
        if not a < b or (b - a) / (4 * n) < 2 * min_dx:
            return None
        nodes.append(("K", n, grid(rng, a, b, n), sigma))
    # a call that must be refused, now and then
    if rng.random() < 0.12:
        ks = [i for i, nd in enumerate(nodes) if nd[0] == "K" and nd[1] >= 2 and nd[2] is not None]
        if ks:
            i = rng.choice(ks)
            _, n, g, sg = nodes[i]
            g, sg = list(g), list(sg)
            how = rng.choice(["descending", "equal", "negative", "sigma0", "sigmaneg", "null", "disjoint_hi", "disjoint_lo", "tiny_gap", "touch"])
            if how == "descending":
                g[0], g[1] = g[1], g[0]
            elif how == "equal":
                g[1] = g[0]
            elif how == "negative":
                g[0] = -g[0] - 1
            elif how == "sigma0":
                sg[rng.randrange(n)] = FR(0)
            elif how == "sigmaneg":
                sg[rng.randrange(n)] = FR(-1, 4)
            elif how == "null":
                g = None                                   # count or type of the end will not match (mostly)
            elif how in ("disjoint_hi", "touch") and endv is not None:
                top = endv[-1]
                first = top if how == "touch" else dblf(top * FR(101, 100))
                g = grid(rng, first, dblf(first * 2), n)
            elif how == "disjoint_lo" and endv is not None and endv[0] > 1:
                g = grid(rng, dblf(endv[0] / 4), dblf(endv[0] * FR(99, 100)), n)
            elif how == "tiny_gap":
                g[1] = g[0] + FR(1, 2 ** 15)               # exact in binary64, below MIN_DX = 1e-4
                if n > 2 and not g[1] < g[2]:
                    return None
            nodes[i] = ("K", n, g, sg)
    # queries for the sigma of the head
    qs = []
    head = nodes[-1]
    if head[0] == "K":
        g = head[2] if head[1] >= 2 else None
        if g is None and head[1] >= 2 and endv is not None:
            g = endv
        if g is not None and len(g) >= 2 and all(x < y for x, y in zip(g, g[1:])):
            qs = base().queries(rng, g, rng.randint(3, 6), lo=FR(0))
            qs += [rng.choice(g)]
            qs += [f for f in cf if f not in qs][:3]
        else:
            qs = list(cf[:3])
    return cf, nodes, qs


def gen_chain_cases(rng, count, min_dx):
    B = base()
    out = []
    tries = 0
    while len(out) < 2 * count and tries < 50 * count:
        tries += 1
        g = gen_chain(rng, min_dx)
        if g is None:
            continue
        cf, nodes, qs = g
        try:
            for order in (0, 1):
                c = B.Case("chain", order=order, cf=cf, nodes=nodes, qs=qs)
                c.c_line()
                out.append(c)
        except AssertionError:
            continue
    return out


# ----------------------------------------------------------------------------- model evaluation
def coq_q(v):
    return "(%d # %d)" % (v.numerator, v.denominator) if v.numerator >= 0 else "((%d) # %d)" % (v.numerator, v.denominator)


def coq_list(l):
    return "[" + "; ".join(coq_q(v) for v in l) + "]"


def coq_node(nd):
    if nd[0] == "S":
        return "NS"
    if nd[0] == "U":
        return "NU"
    if nd[0] == "V":
        return "NV " + coq_list(nd[1])
    return "NK %d%%Z %s %s" % (nd[1], "None" if nd[2] is None else "(Some %s)" % coq_list(nd[2]), coq_list(nd[3]))


def coq_reports(ctx, R, keys):
    """keys = [(nl, nh, nodes)] -> list of integer lists (FrangeRun.chain_report) or None"""
    if not keys:
        return []
    items = ["chain_report %s %s %s [%s]" % (coq_q(R.min_dx), coq_q(nl), coq_q(nh), "; ".join(coq_node(nd) for nd in nodes))
             for nl, nh, nodes in keys]
    body = ["Require Import List ZArith QArith.", "Require Import LV.Interp.FrangeRun.", "Import ListNotations.",
            "Eval vm_compute in [" + ";\n ".join(items) + "]."]
    src = "\n".join(body) + "\n"
    rc, out, err = ctx.coq_eval("chaincases", src, timeout=600)
    if rc != 0:
        ctx.coq_make(["Interp/FrangeRun.vo"])
        rc, out, err = ctx.coq_eval("chaincases", src, timeout=600)
    if rc != 0:
        ctx.log("coq_eval of the chain model failed:", err[-300:])
        return None
    txt = out.split(": list (list Z)")[0]
    txt = txt[txt.index("=") + 1:]
    inner = re.findall(r"\[([^\[\]]*)\]", txt)
    res = [[int(t) for t in re.findall(r"-?\d+", blk.replace("%Z", ""))] for blk in inner]
    return res if len(res) == len(keys) else None


def decode_report(ints):
    """-> (made, [(lo, hi)], None | (add_ok, set_ok))"""
    made = ints[0]
    fr = []
    pos = 1
    for _ in range(made):
        vals = []
        for _ in range(2):
            n, d = ints[pos], ints[pos + 1]
            pos += 2
            vals.append(INF if d == 0 else FR(n, d))
        fr.append(tuple(vals))
    if ints[pos] == 1:
        return made, fr, (ints[pos + 1] == 1, ints[pos + 2] == 1)
    return made, fr, None


# ----------------------------------------------------------------------------- property-level verdict
def verdict(nl, nh, cons):
    """What the property demands for a band [nl, nh] (nl > 0) given the consumed ranges."""
    miss = []
    cover = True
    for lo, hi in cons:
        if lo * 100 >= nl * 105:
            miss.append("low")
        if hi != INF and hi * 100 <= nh * 95:
            miss.append("high")
        if not (lo <= nl and (hi == INF or nh <= hi)):
            cover = False
    if miss:
        return "miss_" + ("both" if len(set(miss)) == 2 else miss[0])
    return "cover" if cover else "between"


def near_bound(R, nl, nh, franges):
    f = R.fext
    for lo, hi in franges:
        if abs(lo - (1 + f) * nl) <= abs((1 + f) * nl) / 10 ** 9:
            return True
        if hi != INF and abs(hi - (1 - f) * nh) <= abs((1 - f) * nh) / 10 ** 9:
            return True
    return False


def parse_c(co):
    """harness line -> (made, [(lo, hi)], verdict or None, sigma tokens)"""
    B = base()
    if co is None or co[0] != "chain" or co[1] != "MK":
        raise ValueError("no chain output")
    made = int(co[2])
    fr = []
    pos = 3
    for _ in range(made):
        vals = []
        for _ in range(2):
            t = co[pos]
            pos += 1
            if t in ("inf", "+inf", "infinity"):
                vals.append(INF)
            else:
                v = B.cfloat(t)
                if B.isbad(v):
                    raise ValueError("range end %s" % t)
                vals.append(v)
        fr.append(tuple(vals))
    dec, sig = None, []
    if pos < len(co):
        dec = co[pos]
        if pos + 1 < len(co) and co[pos + 1] == "SIG":
            sig = co[pos + 2:]
    return made, fr, dec, sig


def show_r(r):
    return "%s..%s" % ("%.9g" % float(r[0]), "inf" if r[1] == INF else "%.9g" % float(r[1]))


# ----------------------------------------------------------------------------- the check
def check_chains(ctx, R, rng, broken, count, corpus_chain=()):
    B = base()
    tr = R.tr
    cases = list(corpus_chain) + gen_chain_cases(rng, count, R.min_dx)
    couts, sig, err = R.run_c(cases)
    if sig is not None:
        B.report_fault(ctx, R, cases, couts, sig, err)
        return
    # model: Coq (authoritative) and the Python mirror
    keys, kidx = [], {}
    for c in cases:
        k = (c.cf[0], c.cf[-1], tuple(B.chain_node_text(nd) for nd in c.nodes))
        if k not in kidx:
            kidx[k] = len(keys)
            keys.append((c.cf[0], c.cf[-1], c.nodes))
    mirror = [ip.chain_report(ranges, tr, R.min_dx, nl, nh, nodes) for nl, nh, nodes in keys]
    cq = coq_reports(ctx, R, keys) if not tr.get("fallback") else None
    if cq is None:
        ctx.obligation("tie:evaluation of the chain model by Coq (FrangeRun.chain_report)", False,
                       "coq_eval failed or Gen/RangeGen.v is stale; using the Python mirror of the parsed statements")
        model = mirror
    else:
        model = [decode_report(x) for x in cq]
        bad = next((i for i, (a, b) in enumerate(zip(model, mirror)) if a != b), None)
        ctx.obligation("tie:mirror==Coq chain model (lib/interp_py.py vs FrangeRun.chain_report, %d chains)" % len(keys), bad is None,
                       "" if bad is None else "chain %s: Coq %s, mirror %s" % ([B.chain_node_text(n) for n in keys[bad][2]], model[bad], mirror[bad]))
        if bad is not None:
            broken["tie:chain mirror"] = "Python mirror and Coq model of the parameter chains differ"
    stats = {"chains": len(keys), "made_refused": 0, "frange_compared": 0, "decisions": {}, "sigma_cases": 0, "skipped_near_bound": 0}
    tie_bad = None
    followups = []
    sigma_jobs = []
    violated = False
    nviol = 0
    for c, co in zip(cases, couts):
        k = (c.cf[0], c.cf[-1], tuple(B.chain_node_text(nd) for nd in c.nodes))
        made, mfr, mdec = model[kidx[k]]
        try:
            cmade, cfr, cdec, csig = parse_c(co)
        except (ValueError, IndexError) as e:
            tie_bad = tie_bad or "unparsable harness output %s (%s) on %s" % (co, e, c.c_line()[:160])
            continue
        ctx.traces_validated += 1
        nl, nh = c.cf[0], c.cf[-1]
        if cmade != made:
            msg = ("vnacal_make_*_parameter: the implementation made %d of %d parameters of the chain, the model %d: %s"
                   % (cmade, len(c.nodes), made, [B.chain_node_text(nd) for nd in c.nodes]))
            tie_bad = tie_bad or msg
            continue
        if made < len(c.nodes):
            stats["made_refused"] += 1
            ctx.count(("chain-refused", k[2]))
        # ranges of every made parameter
        diff = [i for i in range(made) if cfr[i] != mfr[i]]
        stats["frange_compared"] += made
        if diff:
            i = diff[0]
            msg = ("_vnacal_get_parameter_frange of parameter %d of the chain %s: implementation %s, model %s"
                   % (i, [B.chain_node_text(nd) for nd in c.nodes[:i + 1]], show_r(cfr[i]), show_r(mfr[i])))
            tie_bad = tie_bad or msg
            if len(followups) < 12:
                followups.append((c, i, cfr[i], mfr[i]))
        if mdec is None or cdec is None:
            continue
        # verdicts
        built, _ = ip.build(R.min_dx, c.nodes)
        head = built[-1]
        cons = ip.consumed(head)
        lab = verdict(nl, nh, cons) if nl > 0 else "between"
        want_model = mdec[0] if c.order == 0 else mdec[1]
        if cdec not in ("ACC", "REJ"):
            tie_bad = tie_bad or "unexpected outcome %s on %s" % (cdec, c.c_line()[:160])
            continue
        rej = cdec == "REJ"
        key = "%s/%s/order%d" % (lab, cdec, c.order)
        stats["decisions"][key] = stats["decisions"].get(key, 0) + 1
        ctx.count(("chain", k, c.order))
        want = {"cover": False, "miss_low": True, "miss_high": True, "miss_both": True}.get(lab)
        if want is not None and rej != want:
            violated = True
            nviol += 1
            if nviol <= 3:                                 # (the first three; the rest are counted)
                report_property_violation(ctx, B, c, co, lab, rej, cons, nl, nh, want_model, broken)
            continue
        members = ip.hash_members(head)
        mfr_members = [ip.frange(ranges, tr, p) for p in members]
        if rej != want_model:
            pass                                           # implementation and model agree
        elif near_bound(R, nl, nh, mfr_members):
            stats["skipped_near_bound"] += 1               # rounding of (1 +- F) * f may decide
        elif not diff:
            tie_bad = tie_bad or ("chain %s, calibration band %.9g..%.9g, order %d: model says %s, implementation %s"
                                  % ([B.chain_node_text(nd) for nd in c.nodes], float(nl), float(nh), c.order,
                                     "accept" if want_model else "refuse", cdec))
        # sigma of the head
        if head[0] == "K" and c.order == 0 and c.qs:
            nd = c.nodes[-1]
            g = head[1]
            sigma_jobs.append((c, csig, g, nd[3]))
    # follow-ups for differing ranges: bands on which the property decides
    if followups and not violated:
        violated = run_followups(ctx, R, B, followups, broken)
    # sigma values
    sig_bad = check_sigma_values(ctx, R, B, sigma_jobs, stats)
    if sig_bad:
        violated = True
    stats["verdicts_against_the_property"] = nviol
    ctx.extra["parameter_chains"] = stats
    ctx.obligation("tie:chain model==implementation (parameters made, ranges of every parameter, accept/refuse in both orders)",
                   tie_bad is None, tie_bad or "")
    if tie_bad is not None and not violated:
        broken["tie:chain model"] = tie_bad
    if tie_bad is None and not violated:
        need = ["cover/ACC/order0", "cover/ACC/order1"]
        reached_miss = any(k.startswith("miss_") and "/REJ/" in k for k in stats["decisions"])
        missing = [n for n in need if not stats["decisions"].get(n)] + ([] if reached_miss else ["miss_*/REJ"])
        ctx.obligation("tie:chain verdicts reached (accepted in both orders, refused for a >= 5 % miss)", not missing,
                       "not reached: %s" % missing if missing else "")
    if violated:
        for k in list(broken):
            if k.startswith("coq:") or k.startswith("T6:") or k.startswith("tie:chain"):
                broken.pop(k, None)


def report_property_violation(ctx, B, c, co, lab, rej, cons, nl, nh, want_model, broken):
    ctx.violation({"kind": "range", "site": "parameter_chain", "class": lab},
                  "parameter chain %s: calibration band %.9g..%.9g, ranges read by the solver %s (%s): %s by the implementation (%s set_frequency_vector)"
                  % ([B.chain_node_text(nd) for nd in c.nodes], float(nl), float(nh), [show_r(r) for r in cons], lab,
                     "refused" if rej else "accepted", "add after" if c.order == 0 else "add before"),
                  {"case": c.to_json(), "c_output": co, "model_says": "accept" if want_model else "refuse",
                   "expected": "refuse" if lab != "cover" else "accept", "how": "harness/interp_harness.c, one line on stdin",
                   "broken_obligations": sorted(broken)})


def run_followups(ctx, R, B, followups, broken):
    """The implementation's range of a parameter differs from the model's: try calibration bands
    equal to either range (and 7 % inside / outside them); the property decides on the verdicts."""
    cases = []
    for c, i, cr, mr in followups:
        nodes = c.nodes[:i + 1]
        for r in (cr, mr):
            lo, hi = r
            if lo <= 0:
                lo = FR(1, 8)
            if hi == INF:
                hi = lo * 1000
            if not lo < hi:
                continue
            for a, b in ((lo, hi), (lo, dblf(hi * FR(93, 100))), (dblf(lo * FR(107, 100)), hi)):
                if not a < b:
                    continue
                for order in (0, 1):
                    try:
                        cc = B.Case("chain", order=order, cf=[a, b], nodes=nodes, qs=[])
                        cc.c_line()
                        cases.append(cc)
                    except AssertionError:
                        pass
    if not cases:
        return False
    couts, sig, err = R.run_c(cases)
    if sig is not None:
        B.report_fault(ctx, R, cases, couts, sig, err)
        return True
    found = False
    for c, co in zip(cases, couts):
        try:
            cmade, cfr, cdec, csig = parse_c(co)
        except (ValueError, IndexError):
            continue
        built, ok = ip.build(R.min_dx, c.nodes)
        if not ok or cdec not in ("ACC", "REJ"):
            continue
        cons = ip.consumed(built[-1])
        lab = verdict(c.cf[0], c.cf[-1], cons)
        want = {"cover": False, "miss_low": True, "miss_high": True, "miss_both": True}.get(lab)
        if want is not None and (cdec == "REJ") != want and not found:
            found = True
            report_property_violation(ctx, B, c, co, lab, cdec == "REJ", cons, c.cf[0], c.cf[-1], not want, broken)
    return found


def check_sigma_values(ctx, R, B, jobs, stats):
    """_vnacal_get_correlated_sigma of the head against the extracted SigmaSplineModel.sigma_interp."""
    if not jobs:
        return False
    pq = B.pq
    lines = []
    for c, csig, g, sigma in jobs:
        xs = g if g is not None else []
        ys = sigma if g is not None else sigma[:1]
        lines.append("sigma %d %s %d %s %d %s" % (len(xs), " ".join(pq(v) for v in xs), len(ys), " ".join(pq(v) for v in ys),
                                                   len(c.qs), " ".join(pq(v) for v in c.qs)))
    inp = "const %s %s %s\n" % (pq(R.eps), pq(R.cut), pq(R.min_dx)) + "\n".join(lines) + "\n"
    rc, out, err = vplib.sh([R.drv], input=inp, timeout=900)
    if rc != 0:
        raise vplib.BuildError("model driver failed (%d): %s" % (rc, err[-500:]))
    mouts = [l.split() for l in out.strip().split("\n")][1:]
    st = {"knot": 0, "interp": 0, "einval": 0, "skipped": 0}
    bad = None
    for (c, csig, g, sigma), mo in zip(jobs, mouts):
        stats["sigma_cases"] += 1
        if len(csig) != len(c.qs):
            bad = bad or (c, "implementation printed %d sigma values for %d queries" % (len(csig), len(c.qs)))
            continue
        xs = g if g is not None else [FR(0)]
        ys = sigma if g is not None else sigma[:1]
        sc = B.Case("corr", xp=xs, ys=ys, qs=c.qs)
        try:
            r = B.check_spline_case(R, sc, ["corr"] + list(csig), ["spline"] + mo[1:], st)
        except (ValueError, OverflowError, IndexError, ZeroDivisionError) as e:
            r = "unparsable output %s / %s (%s)" % (csig, mo, e)
        for q in c.qs:
            ctx.count(("chain-sigma", tuple(xs), tuple(ys), q) if len(xs) >= 2 else None)
        if r is not None and bad is None:
            bad = (c, r)
    stats["sigma_comparisons"] = st
    ctx.obligation("tie:sigma of the chain head (_vnacal_get_correlated_sigma) == SigmaSplineModel", bad is None, bad[1] if bad else "")
    if bad is not None:
        c, why = bad
        nd = c.nodes[-1]
        ctx.violation({"kind": "disagreement", "op": "chain-sigma", "class": "knot" if "knot" in why else "interpolation", "n": nd[1]},
                      "sigma of a correlated parameter given at %d point(s), grid %s: %s"
                      % (nd[1], "NULL (borrowed)" if nd[2] is None else [float(v) for v in nd[2]], why),
                      {"case": c.to_json(), "how": "harness/interp_harness.c, one line on stdin; model: ocaml/drv_interp.ml op sigma"})
        return True
    return False
