"""C11 catalogue: API function x argument-validity class -> documented expectation, kept as data.

A row (Case) names a family (data / cal / new / prop), an object state, the function, the argument
class (which argument is invalid and how) and the expectation taken from the manual pages:

  ret        failure value: "m1" (-1), "null", "huge" (HUGE_VAL)  - or None when success is expected
  errno      set of admissible errno classes on failure
  cb         admissible numbers of (non-warning) error-function calls
  unchanged  True: the digest through the public getters / savers must be the same before and after
             None: not required (calls that "fail later in their work": init, load, ...)
  Always: the message is one line, errno inside the callback = errno on return, a call that reports
  success has not called the error function except with VNAERR_WARNING, the object survives the
  fixed suffix of valid calls.

Sources of the expectation columns:
  vnadata(3) RETURN VALUE / ERRORS -> vnaerr(3): -1 / NULL / HUGE_VAL, EINVAL, reported through error_fn
  vnacal(3) RETURN VALUE: create, load, save, add_calibration, apply(_m) report through error_fn;
      find_calibration, delete_calibration, get_*, property_* "set errno and return -1, NULL or
      HUGE_VAL on failure, but don't invoke the error function"; ERRORS: EBADMSG, EDOM, EINVAL,
      ENOENT (name / key / file not found), ENOPROTOOPT
  vnacal_new(3) ERRORS: "invoke the error_fn ... EDOM too few standards / singular, EINVAL invalid parameter"
  vnacal_parameter(3) ERRORS: "invoke the error_fn ... EINVAL"
  vnaproperty(3) ERRORS: EINVAL (syntax, wrong type), ENOENT (key / subscript does not exist); no error_fn
      argument exists for these functions, so nothing can be reported through one
"""
import os
import re

import vplib

FAIL_RETS = ("m1", "null", "huge")

# Paths used for the "device full" rows (per family): symbolic links in the scratch directory that point to /dev/full
# (never /dev/full itself: the check runs as root, and a library change that unlinks the target of a failed save
# - seeded change C11-2 does - would remove the device node for every later run).  None = rows skipped, see
# probe_devfull.
DEVFULL = None
SKIPPED = []            # (what, reason): everything the catalogue / tie leaves out, copied into the evidence


def probe_devfull(ctx):
    """/dev/full must be the character device (1, 7) and a write to it must fail with ENOSPC."""
    import errno as _errno
    import stat
    global DEVFULL
    DEVFULL = None
    reason = None
    try:
        st = os.stat("/dev/full")
        if not stat.S_ISCHR(st.st_mode):
            reason = "/dev/full is not a character device (mode %o)" % st.st_mode
        else:
            fd = os.open("/dev/full", os.O_WRONLY)
            try:
                os.write(fd, b"x")
                reason = "a write to /dev/full succeeded"
            except OSError as e:
                if e.errno != _errno.ENOSPC:
                    reason = "a write to /dev/full failed with errno %d, not ENOSPC" % e.errno
            finally:
                os.close(fd)
    except OSError as e:
        reason = "/dev/full cannot be used: %s" % e
    if reason is None:
        # one link per family: a library change that unlinks the target of a failed save removes the link of the
        # function it is in, not the one the other family's rows use
        try:
            links = {}
            for fam in ("data", "cal"):
                link = os.path.join(ctx.tmp, "devfull_" + fam)
                if os.path.lexists(link):
                    os.unlink(link)
                os.symlink("/dev/full", link)
                links[fam] = link
            DEVFULL = links
        except OSError as e:
            reason = "cannot create the symbolic links to /dev/full: %s" % e
    if reason is not None:
        SKIPPED.append(("catalogue rows save [device-full] (vnadata_save, vnacal_save)", reason))
        ctx.notes.append("catalogue rows save [device-full] skipped: " + reason)
    return DEVFULL


def hx(s):
    return s.encode("utf-8", "surrogateescape").hex() if s else "-"


class Case(object):
    def __init__(self, fam, state, func, cls, args, exp, text=""):
        self.fam, self.state, self.func, self.cls, self.args, self.exp, self.text = fam, state, func, cls, args, exp, text
        self.id = None

    def line(self):
        s = self.state
        a = list(self.args)
        if self.fam == "data":
            a = (a + [0, 0, 0, 0])[:4]
            return "data %s %d %d %d %d %d %d %s %s %s" % (self.id, s["type"], s["rows"], s["cols"], s["freqs"], s["fz0"],
                                                        s["seed"], self.func, " ".join(str(x) for x in a), hx(self.text))
        if self.fam == "cal":
            a = (a + [0, 0, 0, 0])[:4]
            return "cal %s %d %d %d %s %s %s" % (self.id, s["ncal"], s["holes"], s["seed"], self.func,
                                               " ".join(str(x) for x in a), hx(self.text))
        if self.fam == "new":
            a = (a + [0] * 8)[:8]
            return "new %s %d %d %d 3 %d %d %s %s %s" % (self.id, s["type"], s["rows"], s["cols"], s["nstd"], s["seed"],
                                                       self.func, " ".join(str(x) for x in a), hx(self.text))
        if getattr(self, "ptie", False):
            return "ptie %s %s %s" % (self.id, self.func, hx(self.text))
        return "prop %s %d %s %s" % (self.id, s["variant"], self.func, hx(self.text))

    def describe(self):
        return {"family": self.fam, "function": self.func, "argument_class": self.cls, "state": self.state,
                "arguments": self.args, "text": self.text, "expected": {k: (sorted(v) if isinstance(v, (set, frozenset)) else v)
                                                                       for k, v in self.exp.items()},
                "harness_line": self.line()}


def fail(ret, errno=("EINVAL",), cb=(1,), unchanged=True):
    return {"ret": ret, "errno": frozenset(errno), "cb": frozenset(cb), "unchanged": unchanged}


def silent(ret, errno=("EINVAL",), unchanged=True):
    return fail(ret, errno, (0,), unchanged)


OK = {"ret": None}


# ----------------------------------------------------------------------------- running the harness
class Runner(object):
    def __init__(self, ctx, exe, env):
        self.ctx, self.exe, self.env = ctx, exe, env
        self.n = 0
        self.leak_reports = set()

    def run(self, cases):
        """-> dict id -> result dict (or {"crash": sig, "stderr": ...})."""
        for c in cases:
            self.n += 1
            c.id = "k%d" % self.n
        results = {}
        todo = list(cases)
        restarts = 0
        while todo:
            restarts += 1
            if restarts > 40:
                for c in todo:
                    results[c.id] = {"crash": {"kind": "fault", "error": "not run (too many crashes before it)", "function": None},
                                     "stderr": ""}
                break
            script = "\n".join(c.line() for c in todo) + "\n"
            rc, out, err = vplib.sh([self.exe, "run", self.ctx.tmp], input=script, timeout=1200, env=self.env)
            last_begin = None
            for line in out.splitlines():
                if line.startswith("BEGIN "):
                    last_begin = line.split()[1]
                elif line.startswith("RES "):
                    p = line.split()
                    d = {"raw": line}
                    for kv in p[2:]:
                        if "=" in kv:
                            k, v = kv.split("=", 1)
                            d[k] = v
                    results[p[1]] = d
                    last_begin = None
                elif line.startswith(("STATE-ERROR", "UNKNOWN-")):
                    results[last_begin] = {"crash": {"kind": "harness", "error": line.split()[0], "function": None},
                                           "stderr": line}
            if last_begin is not None and last_begin not in results:
                sig = vplib.asan_signature(err) or {"kind": "fault", "error": "exit %d" % rc, "function": None}
                results[last_begin] = {"crash": sig, "stderr": err[-3000:]}
            elif rc != 0 and "LeakSanitizer" in err and "ERROR: AddressSanitizer:" not in err.replace(
                    "ERROR: LeakSanitizer", ""):
                for m in re.finditer(r"#\d+ 0x[0-9a-f]+ in (\S+) \S*/src/(vna\w+\.c)", err):
                    self.leak_reports.add("%s (%s)" % (m.group(1), m.group(2)))
                    break
                for m in re.finditer(r"Direct leak.*?\n(?:\s+#\d+.*\n)*?\s+#\d+ 0x[0-9a-f]+ in (\w+) [^\n]*/src/(vna\w+\.c)", err):
                    self.leak_reports.add("%s (%s)" % (m.group(1), m.group(2)))
            done = set(results)
            rest = [c for c in todo if c.id not in done]
            if len(rest) == len(todo):
                # nothing progressed (harness did not start): give up on the rest
                for c in rest:
                    results[c.id] = {"crash": {"kind": "fault", "error": "harness exit %d" % rc, "function": None},
                                     "stderr": err[-2000:]}
                rest = []
            todo = rest
        return results


def has_failed(r):
    """A NULL pointer with errno untouched and no report is a legitimate empty answer (zero-length
    vector, empty subtree), not a failure."""
    if r["ret"] not in FAIL_RETS:
        return False
    if r["ret"] == "null" and r["errno"] == "0" and r["cb"] == "0":
        return False
    return True


CAT_ERRNO = {"1": "EINVAL", "2": "ENOPROTOOPT", "3": "EBADMSG", "5": "EDOM", "6": "ENOSYS"}


def judge(case, r):
    """-> list of (problem key, text); empty when the row meets its expectation."""
    if "crash" in r:
        s = r["crash"]
        return [("crash", "the call did not return: %s in %s" % (s.get("error"), s.get("function")))]
    out = []
    e = case.exp
    cb = int(r["cb"])
    failed = has_failed(r)
    if e["ret"] is None:
        if failed and not e.get("may_fail"):
            out.append(("refused-valid", "valid call failed: ret=%s errno=%s msg=%s" % (r["ret"], r["errno"], r.get("msg"))))
        elif not failed and cb != 0:
            out.append(("callback-on-success", "call reported success but invoked the error function %d time(s) (categories %s)"
                        % (cb, r["cats"])))
    else:
        if not failed:
            out.append(("accepted-invalid", "invalid call reported success (ret=%s), expected %s" % (r["ret"], e["ret"])))
        elif r["ret"] != e["ret"]:
            out.append(("failure-value", "failure value %s, documented %s" % (r["ret"], e["ret"])))
    if failed and e["ret"] is not None or failed and e.get("may_fail"):
        ee = e.get("errno") or frozenset(["EINVAL", "EDOM"])
        if e.get("any_system_errno"):
            if r["errno"] in ("0", "EINVAL", "EDOM", "EBADMSG", "ENOPROTOOPT", "ENOSYS") or "0" not in r["cats"]:
                out.append(("errno", "errno %s with categories %s, expected the errno of the failing system call, "
                            "category VNAERR_SYSTEM" % (r["errno"], r["cats"])))
        elif r["errno"] not in ee:
            out.append(("errno", "errno %s, documented %s" % (r["errno"], "/".join(sorted(ee)))))
        ecb = e.get("cb") or frozenset([1])
        if cb not in ecb:
            out.append(("callbacks", "error function called %d time(s), documented %s (categories %s, last message %s)"
                        % (cb, "/".join(str(x) for x in sorted(ecb)), r["cats"], r.get("msg"))))
        if cb > 0:
            if r["ecb"] != r["errno"]:
                out.append(("errno-in-callback", "errno inside the error function %s, on return %s" % (r["ecb"], r["errno"])))
            last = r["cats"][-1:]
            if last in CAT_ERRNO and CAT_ERRNO[last] != r["errno"]:
                out.append(("category-errno", "category %s reported but errno %s" % (last, r["errno"])))
        if e.get("unchanged"):
            if r["d0"] != r["d1"] or r.get("x0") != r.get("x1"):
                out.append(("changed", "refused call changed the object: digest %s -> %s%s" %
                            (r["d0"], r["d1"], (" (bookkeeping %s -> %s)" % (r["w0"], r["w1"])) if "w0" in r else "")))
    if int(r["nl"]) != 0:
        out.append(("multi-line", "error message contains a newline: %s" % r.get("msg")))
    if r.get("honour", "1") != "1":
        out.append(("index-not-honoured", "index returned by vnacal_add_calibration is not the one find/get_* honour (ci=%s)"
                    % r.get("ci")))
    if r.get("sfx") != "ok" and e.get("sfx_free") and not failed:
        pass        # an ACCEPTED standard with unknown / correlated parameters: the fixed list of standards need not determine them
    elif r.get("sfx") != "ok":
        out.append(("unusable", "object not usable after the call: suffix %s %s" % (r.get("sfx"), r.get("smsg", ""))))
    elif r.get("sfxcb", "0") != "0":
        out.append(("suffix-callback", "valid calls after the failure invoked the error function %s time(s)" % r["sfxcb"]))
    return out


# ----------------------------------------------------------------------------- vnadata family
DATA_SHAPES = [(0, 0, 0), (0, 0, 3), (0, 2, 0), (0, 2, 3), (0, 3, 1), (1, 1, 1), (1, 2, 2), (1, 3, 3), (4, 2, 2), (5, 3, 3), (2, 2, 2),
               (6, 2, 2), (8, 2, 2), (10, 1, 1), (10, 1, 3)]
MATRIX2 = (2, 3, 6, 7, 8, 9)
SQUARE = (1, 4, 5)


def vtype_ok(t, r, c):
    if t == 0:
        return True
    if t in SQUARE:
        return r == c
    if t in MATRIX2:
        return r == 2 and c == 2
    if t == 10:
        return r == 1
    return False


def data_state(rng, shape=None, freqs=None, fz0=None):
    t, r, c = shape if shape else rng.choice(DATA_SHAPES)
    f = rng.randint(0, 3) if freqs is None else freqs
    z = rng.randint(0, 1) if fz0 is None else fz0
    if f == 0 or max(r, c) == 0:
        z = 0
    return {"type": t, "rows": r, "cols": c, "freqs": f, "fz0": z, "seed": rng.randint(1, 10 ** 6)}


def idx_classes(n):
    seen = []
    for lab, v in (("-1", -1), ("0", 0), ("n-1", n - 1), ("n", n), ("n+1", n + 1)):
        if v not in [x[1] for x in seen]:
            seen.append((lab, v))
    return seen


# function -> (parameter dimensions, failure value).  f = frequencies, r = rows, c = columns, p = ports
DATA_INDEXED = {
    "get_frequency": ("f", "huge"), "set_frequency": ("f", "m1"),
    "get_cell": ("frc", "huge"), "set_cell": ("frc", "m1"),
    "get_matrix": ("f", "null"), "set_matrix": ("f", "m1"),
    "get_to_vector": ("rc", "m1"), "set_from_vector": ("rc", "m1"),
    "get_z0": ("p", "huge"), "set_z0": ("p", "m1"),
    "get_fz0": ("fp", "huge"), "set_fz0": ("fp", "m1"),
    "get_fz0_vector": ("f", "null"), "set_fz0_vector": ("f", "m1"),
}
DIMNAME = {"f": "findex", "r": "row", "c": "column", "p": "port"}


def dim_of(s, d):
    return {"f": s["freqs"], "r": s["rows"], "c": s["cols"], "p": max(s["rows"], s["cols"])}[d]


def data_indexed_valid(s, func, vals, dims):
    ok = all(0 <= v < dim_of(s, d) for v, d in zip(vals, dims))
    if func == "get_z0" and s["fz0"]:
        ok = False          # vnadata(3): "If frequency-dependent impedances are in-use, vnadata_get_z0() ... return failure"
    return ok


def data_cases_for_state(s, rng, funcs=None):
    out = []
    for func, (dims, ret) in sorted(DATA_INDEXED.items()):
        if funcs and func not in funcs:
            continue
        base = [max(0, dim_of(s, d) - 1) // 1 if dim_of(s, d) > 0 else 0 for d in dims]
        base = [rng.randint(0, dim_of(s, d) - 1) if dim_of(s, d) > 0 else 0 for d in dims]
        tuples = [("all-valid", list(base))]
        for k, d in enumerate(dims):
            for lab, v in idx_classes(dim_of(s, d)):
                a = list(base)
                a[k] = v
                tuples.append(("%s=%s" % (DIMNAME[d], lab), a))
        for cls, a in tuples:
            valid = data_indexed_valid(s, func, a, dims)
            if func == "get_z0" and s["fz0"] and all(0 <= v < dim_of(s, d) for v, d in zip(a, dims)):
                cls += ",fz0-in-use"
            out.append(Case("data", s, func, cls, a, OK if valid else fail(ret)))
    if not funcs or "get_fmin" in funcs:
        for func in ("get_fmin", "get_fmax"):
            out.append(Case("data", s, func, "frequencies=%d" % s["freqs"], [], OK if s["freqs"] > 0 else fail("huge")))
    if not funcs or "get_z0_vector" in funcs:
        if max(s["rows"], s["cols"]) > 0:
            out.append(Case("data", s, "get_z0_vector", "fz0-in-use" if s["fz0"] else "z0-mode", [],
                            fail("null") if s["fz0"] else OK))
        if max(s["rows"], s["cols"]) > 0:
            out.append(Case("data", s, "set_z0_vector", "valid", [], OK))
        out.append(Case("data", s, "set_all_z0", "valid", [], OK))
    return out


RESHAPE_CLASSES = [
    ("rows=-1", lambda t, r, c, f: (t, -1, c, f)), ("columns=-1", lambda t, r, c, f: (t, r, -1, f)),
    ("frequencies=-1", lambda t, r, c, f: (t, r, c, -1)), ("type=-1", lambda t, r, c, f: (-1, r, c, f)),
    ("type=11", lambda t, r, c, f: (11, r, c, f)), ("type=99", lambda t, r, c, f: (99, r, c, f)),
    ("S-not-square", lambda t, r, c, f: (1, 2, 3, f)), ("Y-not-square", lambda t, r, c, f: (5, 3, 1, f)),
    ("T-not-2x2", lambda t, r, c, f: (2, 3, 3, f)), ("H-not-2x2", lambda t, r, c, f: (6, 1, 1, f)),
    ("Zin-two-rows", lambda t, r, c, f: (10, 2, 2, f)),
    ("valid-grow", lambda t, r, c, f: (1, 3, 3, f + 2)), ("valid-shrink", lambda t, r, c, f: (0, 1, 1, max(0, f - 1))),
    ("valid-empty", lambda t, r, c, f: (0, 0, 0, 0)), ("valid-zin", lambda t, r, c, f: (10, 1, 4, 2)),
    ("valid-two-port", lambda t, r, c, f: (8, 2, 2, 1)), ("valid-same", lambda t, r, c, f: (t, r, c, f)),
]


def reshape_cases(s, rng):
    out = []
    for cls, fn in RESHAPE_CLASSES:
        t, r, c, f = fn(s["type"], s["rows"], s["cols"], s["freqs"])
        valid = r >= 0 and c >= 0 and f >= 0 and vtype_ok(t, r, c)
        out.append(Case("data", s, "resize", cls, [t, r, c, f], OK if valid else fail("m1")))
        # a failed init need not leave the object unchanged, only usable
        out.append(Case("data", s, "init", cls, [t, r, c, f], OK if valid else fail("m1", unchanged=None)))
        out.append(Case("data", s, "alloc_and_init", cls, [t, r, c, f], OK if valid else fail("null")))
    for t in (-1, 0, 1, 2, 4, 6, 10, 11, 99):
        valid = vtype_ok(t, s["rows"], s["cols"])
        out.append(Case("data", s, "set_type", "type=%d with %dx%d" % (t, s["rows"], s["cols"]), [t],
                        OK if valid else fail("m1")))
    return out


def conv_valid(s, new):
    t, r, c = s["type"], s["rows"], s["cols"]
    if not 0 <= new <= 10:
        return False
    if new == t:
        return True
    if t in (0, 10) or new == 0:
        return False
    if new in MATRIX2 and not (r == 2 and c == 2):
        return False
    return True


def settings_cases(s, rng):
    out = []
    for v in (-1, 0, 1, 2, 3, 4, 99):
        out.append(Case("data", s, "set_filetype", "filetype=%d" % v, [v], OK if 0 <= v <= 3 else fail("m1")))
    for func in ("set_fprecision", "set_dprecision"):
        for v in (-1, 0, 1, 6, 1000):
            out.append(Case("data", s, func, "precision=%d" % v, [v], OK if v >= 1 else fail("m1")))
    out.append(Case("data", s, "add_frequency", "frequency<0", [-1], fail("m1")))
    out.append(Case("data", s, "add_frequency", "valid", [5], OK))
    for cls, text, valid in (("unknown-parameter", "Q", False), ("bad-coordinates", "Sxx", False), ("empty-field", "S,,Z", False),
                             ("valid-list", "Sri,Zma,zin", True), ("valid-upper", "SDB", True), ("valid-rl", "il,RL,vswr", True)):
        out.append(Case("data", s, "set_format", cls, [], OK if valid else fail("m1"), text))
    # conversions
    for new in (-1, 11, 0, 1, 2, 4, 6, 10):
        for mode, mname in ((0, "in-place"), (1, "other-object")):
            if rng.random() < 0.5 and new not in (-1, 11):
                continue
            valid = conv_valid(s, new)
            cls = "type %d %dx%d -> %d %s" % (s["type"], s["rows"], s["cols"], new, mname)
            out.append(Case("data", s, "convert", cls, [new, mode], dict(OK, may_fail=True, errno=frozenset(["EDOM"]))
                            if valid else fail("m1")))
    out.append(Case("data", s, "convert", "destination=NULL", [s["type"], 2], fail("m1")))
    return out


FLOAD_TEXTS = [
    ("touchstone1-even-field-count", "x.s2p", "# GHz S RI R 50\n1.0 0.1 0.2 0.3\n", ("EBADMSG",)),
    ("touchstone1-short-second-line", "x.s2p", "# GHz S RI R 50\n1.0 0.1 0.2 0.3 0.4 0.5 0.6 0.7 0.8\n2.0 0.1 0.2 0.3 0.4 0.5\n",
     ("EBADMSG",)),
    ("touchstone1-bad-option", "x.s2p", "# GHz Q RI R 50\n1.0 0 0 0 0 0 0 0 0\n", ("EBADMSG",)),
    ("touchstone1-not-a-number", "x.s1p", "# Hz S MA R 50\n1e9 abc 0\n", ("EBADMSG",)),
    ("touchstone2-unknown-keyword", "x.ts", "[Version] 2.0\n# GHz S RI R 50\n[Number of Ports] 1\n[Bogus] 1\n", ("EBADMSG",)),
    ("touchstone2-version", "x.ts", "[Version] 3.0\n# GHz S RI R 50\n[Number of Ports] 1\n", ("ENOPROTOOPT", "EBADMSG")),
    ("touchstone2-missing-ports", "x.ts", "[Version] 2.0\n# GHz S RI R 50\n[Network Data]\n1.0 0.1 0.2\n[End]\n", ("EBADMSG",)),
    ("npd-garbage", "x.npd", "#NPD 1.0\n#:ports 2\nfoo bar\n", ("EBADMSG",)),
    ("npd-version", "x.npd", "#NPD 9.0\n", ("ENOPROTOOPT", "EBADMSG")),
    ("npd-no-header", "x.npd", "1.0 2.0 3.0\n", ("EBADMSG",)),
    ("empty-file", "x.npd", "", ("EBADMSG",)),
]


def file_cases(s, rng):
    out = []
    savable = s["type"] != 0 and s["freqs"] >= 1
    for cls, name, text, errnos in FLOAD_TEXTS:
        out.append(Case("data", s, "fload", cls, [], fail("m1", errnos, unchanged=None), name + "\n" + text))
    out.append(Case("data", s, "load", "no-such-file", [], fail("m1", ("ENOENT",), unchanged=None), "/nonexistent-dir/x.npd"))
    # failures reported from inside the work, followed by the function's own clean-up (fclose / free):
    # errno on return must still be the reported one
    for cls, name, text, errnos in FLOAD_TEXTS[:4] + FLOAD_TEXTS[6:8]:
        out.append(Case("data", s, "load_text", cls + " (by name)", [], fail("m1", errnos, unchanged=None), name + "\n" + text))
    if savable and DEVFULL:
        out.append(Case("data", s, "save", "device-full", [], dict(fail("m1", cb=(1,), unchanged=None), any_system_errno=True),
                        DEVFULL["data"]))
    out.append(Case("data", s, "save", "no-such-directory", [],
                    fail("m1", ("ENOENT",) if savable else ("ENOENT", "EINVAL"), unchanged=None), "/nonexistent-dir/x.npd"))
    if s["type"] == 0:
        out.append(Case("data", s, "fsave", "undefined-type", [], fail("m1", unchanged=None), "x.npd"))
        out.append(Case("data", s, "cksave", "undefined-type", [], fail("m1", unchanged=None), "x.npd"))
    elif s["type"] == 10:
        out.append(Case("data", s, "fsave", "zin-as-touchstone", [], fail("m1", unchanged=None), "x.ts"))
    elif s["type"] == 1 and s["rows"] >= 1 and s["freqs"] >= 1:
        out.append(Case("data", s, "fsave", "valid-npd", [], OK, "x.npd"))
        out.append(Case("data", s, "cksave", "valid-npd", [], OK, "x.npd"))
    return out


NULL_FUNCS = [("resize", "m1", [1, 1, 1, 1]), ("set_type", "m1", [0]), ("init", "m1", [1, 1, 1, 1]), ("get_frequency", "huge", [0]),
              ("get_fmin", "huge", []), ("get_fmax", "huge", []), ("get_cell", "huge", [0, 0, 0]), ("set_cell", "m1", [0, 0, 0]),
              ("get_matrix", "null", [0]), ("set_matrix", "m1", [0]), ("get_to_vector", "m1", [0, 0]),
              ("set_from_vector", "m1", [0, 0]), ("get_z0", "huge", [0]), ("set_z0", "m1", [0]), ("get_z0_vector", "null", []),
              ("set_z0_vector", "m1", []), ("set_all_z0", "m1", []), ("get_fz0", "huge", [0, 0]), ("set_fz0", "m1", [0, 0]),
              ("get_fz0_vector", "null", [0]), ("set_fz0_vector", "m1", [0]), ("add_frequency", "m1", [1]),
              ("set_filetype", "m1", [0]), ("set_fprecision", "m1", [3]), ("set_dprecision", "m1", [3]),
              ("get_fprecision", "m1", []), ("get_filetype", "m1", []), ("get_format", "null", []), ("convert", "m1", [1, 0])]


# functions of the vnadata family whose C text has no NULL test in front of the first dereference of the object
# pointer (filled by checks/C11.py from the translator: info["handles"]).  A NULL object pointer is outside the
# property's "valid object pointers": their handle=NULL rows are not run by the catalogue (recorded in SKIPPED); the
# model answers Fault for them and the tie checks that the library indeed does not return.
NULL_UNCHECKED = set()


def null_cases(s):
    out = []
    for f, ret, a in NULL_FUNCS + [("set_frequency", "m1", [0])]:
        if f in NULL_UNCHECKED:
            continue
        out.append(Case("data", s, f + "@null", "handle=NULL", a, silent(ret)))
    return out


# ----------------------------------------------------------------------------- vnacal_t family
def cal_state(rng, ncal=None, holes=None):
    n = rng.randint(0, 3) if ncal is None else ncal
    h = rng.randint(0, (1 << n) - 1) if holes is None else holes
    return {"ncal": n, "holes": h, "seed": rng.randint(1, 10 ** 6)}


def cal_alloc(s):
    return 0 if s["ncal"] == 0 else 1 if s["ncal"] == 1 else 8


def cal_live(s, ci):
    return 0 <= ci < s["ncal"] and not (s["holes"] >> ci) & 1


GETTERS = [("get_name", "null"), ("get_type", "m1"), ("get_rows", "m1"), ("get_columns", "m1"), ("get_frequencies", "m1"),
           ("get_fmin", "huge"), ("get_fmax", "huge"), ("get_frequency_vector", "null"), ("get_z0", "huge")]
H_SCALAR, H_VECTOR, H_UNKNOWN, H_DELETED = 3, 4, 5, 6      # handles created by the harness, in this order


def ci_classes(s):
    al = cal_alloc(s)
    vals = [-1, 0, s["ncal"] - 1, s["ncal"], al, al + 1, 1000]
    vals += [i for i in range(s["ncal"]) if (s["holes"] >> i) & 1]
    seen = []
    for v in vals:
        if v not in seen:
            seen.append(v)
    return seen


def ci_label(s, ci):
    if cal_live(s, ci):
        return "ci=%d live" % ci
    if 0 <= ci < s["ncal"]:
        return "ci=%d deleted" % ci
    return "ci=%d of %d slots" % (ci, cal_alloc(s))


def cal_cases_for_state(s, rng):
    out = []
    for func, ret in GETTERS:
        for ci in ci_classes(s):
            out.append(Case("cal", s, func, ci_label(s, ci), [ci], OK if cal_live(s, ci) else silent(ret)))
    for i in range(s["ncal"]):
        live = cal_live(s, i)
        out.append(Case("cal", s, "find", "name live" if live else "name deleted", [], OK if live else silent("m1", ("ENOENT",)),
                        "cal%d" % i))
    out.append(Case("cal", s, "find", "name unknown", [], silent("m1", ("ENOENT",)), "no-such-calibration"))
    for ci in ci_classes(s):
        out.append(Case("cal", s, "delete_calibration", ci_label(s, ci), [ci],
                        OK if cal_live(s, ci) else silent("m1", ("ENOENT", "EINVAL"))))
    # add_calibration
    out.append(Case("cal", s, "add_calibration", "solved, new name", [0], OK, "nw"))
    if s["ncal"] > 0:
        live = [i for i in range(s["ncal"]) if cal_live(s, i)]
        if live:
            out.append(Case("cal", s, "add_calibration", "solved, existing name", [4], OK, "cal%d" % live[0]))
    out.append(Case("cal", s, "add_calibration", "not solved", [1], fail("m1"), "nw"))
    out.append(Case("cal", s, "add_calibration", "vnp=NULL", [2], fail("m1"), "nw"))
    out.append(Case("cal", s, "add_calibration", "vnp of another vnacal_t", [3], fail("m1"), "nw"))
    # precision: vnacal(3) does not say whether these report through error_fn
    for func in ("set_fprecision", "set_dprecision"):
        for v in (-1, 0):
            out.append(Case("cal", s, func, "precision=%d" % v, [v], fail("m1", cb=(0, 1))))
        out.append(Case("cal", s, func, "precision=4", [4], OK))
    # parameters (vnacal_parameter(3): error_fn, EINVAL)
    for mode, cls in ((1, "frequencies=0"), (7, "frequencies=-1"), (2, "frequency_vector=NULL"), (3, "gamma_vector=NULL"),
                      (4, "negative frequency"), (5, "descending frequencies"), (6, "repeated frequency")):
        out.append(Case("cal", s, "make_vector", cls, [mode], fail("m1")))
    out.append(Case("cal", s, "make_vector", "valid", [0], OK))
    for h, cls in ((-1, "handle=-1"), (99, "handle beyond table"), (H_DELETED, "deleted handle"), (7, "never allocated")):
        out.append(Case("cal", s, "make_unknown", cls, [h], fail("m1")))
        out.append(Case("cal", s, "make_correlated", cls, [h, 0], fail("m1")))
        out.append(Case("cal", s, "delete_parameter", cls, [h], fail("m1")))
        out.append(Case("cal", s, "get_parameter_value", cls, [h, 20], fail("huge")))
    out.append(Case("cal", s, "make_unknown", "valid", [H_SCALAR], OK))
    out.append(Case("cal", s, "make_correlated", "valid", [H_SCALAR, 0], OK))
    for mode, cls in ((1, "sigma_frequencies=0"), (2, "sigma_vector=NULL"), (3, "descending sigma frequencies"),
                      (4, "negative sigma frequency")):
        out.append(Case("cal", s, "make_correlated", cls, [H_SCALAR, mode], fail("m1")))
    out.append(Case("cal", s, "delete_parameter", "valid", [H_VECTOR], OK))
    out.append(Case("cal", s, "delete_parameter", "predefined", [1], OK))
    out.append(Case("cal", s, "get_parameter_value", "valid vector", [H_VECTOR, 20], OK))
    out.append(Case("cal", s, "get_parameter_value", "frequency above range", [H_VECTOR, 100], fail("huge")))
    out.append(Case("cal", s, "get_parameter_value", "frequency below range", [H_VECTOR, 1], fail("huge")))
    out.append(Case("cal", s, "get_parameter_value", "unknown not yet solved", [H_UNKNOWN, 20], fail("huge")))
    # properties: silent
    live = [i for i in range(s["ncal"]) if cal_live(s, i)]
    roots = [(-1, "global")] + [(live[0], "ci live")] if live else [(-1, "global")]
    badci = [ci for ci in ci_classes(s) if not cal_live(s, ci) and ci != -1][:3]
    for ci in badci:
        for func, ret in (("property_type", "m1"), ("property_count", "m1"), ("property_keys", "null"), ("property_get", "null"),
                          ("property_set", "m1"), ("property_delete", "m1"), ("property_set_subtree", "null")):
            text = {"property_set": "k=v", "property_set_subtree": "k"}.get(func, ".")
            out.append(Case("cal", s, func, ci_label(s, ci), [ci], silent(ret), text))
    for ci, rl in roots:
        key = "instrument.model" if ci == -1 else "label"
        out.append(Case("cal", s, "property_get", rl + " valid", [ci], OK, key))
        out.append(Case("cal", s, "property_get", rl + " missing key", [ci], silent("null", ("ENOENT",)), "nokey"))
        out.append(Case("cal", s, "property_get", rl + " not a scalar", [ci], silent("null"), "."))
        out.append(Case("cal", s, "property_get", rl + " syntax", [ci], silent("null"), "[x]"))
        out.append(Case("cal", s, "property_type", rl + " missing key", [ci], silent("m1", ("ENOENT",)), "nokey"))
        out.append(Case("cal", s, "property_count", rl + " scalar", [ci], silent("m1"), key))
        out.append(Case("cal", s, "property_keys", rl + " scalar", [ci], silent("null"), key))
        out.append(Case("cal", s, "property_delete", rl + " missing key", [ci], silent("m1", ("ENOENT",)), "nokey"))
        out.append(Case("cal", s, "property_set", rl + " syntax", [ci], silent("m1"), "[x]=1"))
        out.append(Case("cal", s, "property_set", rl + " missing value", [ci], silent("m1"), key + ".sub"))
        out.append(Case("cal", s, "property_set", rl + " valid", [ci], OK, "added.key[0]=1"))
        out.append(Case("cal", s, "property_delete", rl + " valid", [ci], OK, key))
    # load / save (error_fn)
    out.append(Case("cal", s, "load", "no-such-file", [1], fail("null", ("ENOENT",), unchanged=True), "/nonexistent-dir/x.vnacal"))
    out.append(Case("cal", s, "load", "not-yaml", [0], fail("null", ("EBADMSG",)), "#VNACal 1.0\n{{{ not yaml\n"))
    out.append(Case("cal", s, "load", "bad-version", [0], fail("null", ("ENOPROTOOPT",)), "#VNACal 99.0\ncalibrations: []\n"))
    out.append(Case("cal", s, "load", "no-magic", [0], fail("null", ("EBADMSG",)), "calibrations: []\n"))
    out.append(Case("cal", s, "load", "wrong-structure", [0], fail("null", ("EBADMSG",)), "#VNACal 1.0\ncalibrations: 5\n"))
    out.append(Case("cal", s, "save", "no-such-directory", [], fail("m1", ("ENOENT",)), "/nonexistent-dir/x.vnacal"))
    if s["ncal"] > 0 and s["holes"] != (1 << s["ncal"]) - 1 and DEVFULL:
        out.append(Case("cal", s, "save", "device-full", [], dict(fail("m1", cb=(1,), unchanged=None), any_system_errno=True),
                        DEVFULL["cal"]))
    # apply (error_fn)
    for ci in ci_classes(s):
        if not cal_live(s, ci):
            out.append(Case("cal", s, "apply_m", ci_label(s, ci), [ci, 1, 1, 0], fail("m1")))
    return out


# ----------------------------------------------------------------------------- vnacal_new_t family
T8, U8, TE10, UE10, T16, U16, UE14, E12 = 0, 1, 2, 3, 4, 5, 6, 8
NEW_SHAPES = [(T8, 1, 1), (T8, 2, 2), (U8, 2, 2), (TE10, 2, 2), (UE10, 2, 2), (T16, 2, 2), (U16, 2, 2), (UE14, 2, 2),
              (E12, 2, 2), (E12, 1, 1), (UE14, 1, 1), (E12, 2, 1), (U8, 2, 1), (T8, 1, 2)]


def new_state(rng, shape=None, nstd=None):
    t, r, c = shape if shape else rng.choice(NEW_SHAPES)
    count = 5 if max(r, c) > 1 else 4
    return {"type": t, "rows": r, "cols": c, "nstd": rng.randint(0, count) if nstd is None else nstd,
            "count": count, "seed": rng.randint(1, 10 ** 6)}


def new_cases_for_state(s, rng):
    out = []
    t, r, c = s["type"], s["rows"], s["cols"]
    square = r == c
    n = max(r, c)
    # vnacal_new_alloc
    for cls, a in (("rows=0", [T8, 0, 1, 3]), ("columns=0", [T8, 1, 0, 3]), ("rows=-1", [U8, -1, 1, 3]),
                   ("frequencies=-1", [T8, 1, 1, -1]), ("type=-1", [-1, 1, 1, 3]), ("type=99", [99, 1, 1, 3]),
                   ("type=internal E12_UE14", [7, 1, 1, 3]), ("T with rows>columns", [T8, 2, 1, 3]),
                   ("T16 with rows>columns", [T16, 3, 2, 3]), ("U with rows<columns", [U8, 1, 2, 3]),
                   ("E12 with rows<columns", [E12, 1, 2, 3])):
        out.append(Case("new", s, "new_alloc", cls, a, fail("null")))
    out.append(Case("new", s, "new_alloc", "valid", [E12, 2, 1, 2], OK))
    for mode, cls in ((1, "frequency_vector=NULL"), (2, "negative frequency"), (3, "descending"), (4, "repeated"), (5, "NaN")):
        out.append(Case("new", s, "set_frequency_vector", cls, [mode], fail("m1")))
    out.append(Case("new", s, "set_frequency_vector", "valid", [0], OK))
    for func, div, bad, good in (("set_pvalue_limit", 1000, (0, -1, 1500), (1, 1000)), ("set_et_tolerance", 1000, (-1,), (0, 1)),
                                 ("set_p_tolerance", 1000, (-1,), (0, 1)), ("set_iteration_limit", 1, (0, -1), (1, 50))):
        for v in bad:
            out.append(Case("new", s, func, "value=%g" % (v / div), [v], fail("m1")))
        for v in good:
            out.append(Case("new", s, func, "value=%g valid" % (v / div), [v], OK))
    for mode, cls in ((1, "frequencies=0"), (2, "sigma_tr without sigma_nf"), (3, "negative sigma"), (4, "range too narrow"),
                      (5, "descending")):
        out.append(Case("new", s, "set_m_error", cls, [mode], fail("m1")))
    # standards: only square calibrations (which ports a rectangular calibration accepts is not
    # spelled out in vnacal_new(3))
    if square:
        full = [r, c]
        SH, OP, MA = 2, 1, 0
        def sr(cls, s11, port, mr, mc, null=0, exp=None):
            out.append(Case("new", s, "add_single_reflect_m", cls, [s11, port, 0, 0, mr, mc, null, 0], exp or fail("m1")))
        sr("valid", SH, 1, r, c, exp=OK)
        sr("valid scalar parameter", H_SCALAR, n, r, c, exp=OK)
        sr("port=0", SH, 0, r, c)
        sr("port=-1", SH, -1, r, c)
        sr("port=n+1", SH, n + 1, r, c)
        sr("m_rows=n+1", SH, 1, r + 1, c)
        sr("m_columns=n+1", SH, 1, r, c + 1)
        sr("m_rows=0", SH, 1, 0, c)
        sr("m=NULL", SH, 1, r, c, null=1)
        sr("s11 handle beyond table", 99, 1, r, c)
        sr("s11 deleted handle", H_DELETED, 1, r, c)
        sr("s11 handle=-1", -1, 1, r, c)
        sr("s11 handle=-8", -8, 1, r, c)
        # with an 'a' matrix
        arows = 1 if t in (UE14, E12) else c
        out.append(Case("new", s, "add_single_reflect", "valid a", [SH, 1, arows, c, r, c, 0, 0], OK))
        out.append(Case("new", s, "add_single_reflect", "a_rows wrong", [SH, 1, arows + 1, c, r, c, 0, 0], fail("m1")))
        out.append(Case("new", s, "add_single_reflect", "a_columns wrong", [SH, 1, arows, c + 1, r, c, 0, 0], fail("m1")))
        if n == 1:
            out.append(Case("new", s, "add_single_reflect", "a singular", [SH, 1, arows, c, r, c, 1, 0], fail("m1", ("EDOM",))))
    if square and n == 2:
        def dr(cls, s11, s22, p1, p2, mr=2, mc=2, exp=None, func="add_double_reflect_m", a7=0, a8=0):
            out.append(Case("new", s, func, cls, [s11, s22, p1, p2, mr, mc, a7, a8], exp or fail("m1")))
        dr("valid", SH, OP, 1, 2, exp=OK)
        dr("valid swapped ports", SH, OP, 2, 1, exp=OK)
        dr("same port twice", SH, OP, 1, 1)
        dr("port1=0", SH, OP, 0, 2)
        dr("port2=3", SH, OP, 1, 3)
        dr("m 3x2", SH, OP, 1, 2, mr=3)
        dr("s22 invalid handle", SH, 99, 1, 2)
        dr("s11 scalar, s22 invalid handle", H_SCALAR, 99, 1, 2)
        dr("s11 unknown, s22 invalid handle", H_UNKNOWN, 99, 1, 2)
        dr("s11 unknown, s22 deleted handle", H_UNKNOWN, H_DELETED, 1, 2)
        dr("valid", 0, 0, 1, 2, exp=OK, func="add_through_m")
        dr("same port twice", 0, 0, 2, 2, func="add_through_m")
        dr("port2=3", 0, 0, 1, 3, func="add_through_m")
        dr("m 2x3", 0, 0, 1, 2, mc=3, func="add_through_m")
        dr("valid", MA, MA, 1, 2, exp=OK, func="add_line_m", a7=1)
        dr("s12 invalid handle", MA, MA, 1, 2, func="add_line_m", a7=99)
        dr("s11 unknown, s12 invalid handle", H_UNKNOWN, MA, 1, 2, func="add_line_m", a7=99)
        dr("port1=port2", MA, MA, 2, 2, func="add_line_m", a7=1)
        dr("valid", SH, OP, 1, 2, exp=OK, func="add_mapped_matrix_m", a7=2, a8=2)
        dr("valid no map", SH, OP, 0, 0, exp=OK, func="add_mapped_matrix_m", a7=2, a8=2)
        dr("s_rows=0", SH, OP, 1, 2, func="add_mapped_matrix_m", a7=0, a8=2)
        dr("s_rows=3", SH, OP, 1, 2, func="add_mapped_matrix_m", a7=3, a8=2)
        dr("s_columns=3", SH, OP, 1, 2, func="add_mapped_matrix_m", a7=2, a8=3)
        dr("map entry 0", SH, OP, 1, 0, func="add_mapped_matrix_m", a7=2, a8=2)   # a3 = 1 so that the map is not NULL
        dr("duplicate map entry", SH, OP, 2, 2, func="add_mapped_matrix_m", a7=2, a8=2)
    # solve: documented EDOM for too few standards / singular; all standards of the list always suffice
    out.append(Case("new", s, "solve", "no frequency vector", [1], fail("m1")))
    if s["nstd"] == 0:
        out.append(Case("new", s, "solve", "no standards", [0], fail("m1", ("EDOM",))))
    elif s["nstd"] == s["count"]:
        out.append(Case("new", s, "solve", "all standards", [0], OK))
    else:
        out.append(Case("new", s, "solve", "%d of %d standards" % (s["nstd"], s["count"]), [0],
                        dict(OK, may_fail=True, errno=frozenset(["EDOM"]), cb=frozenset([1]), unchanged=True)))
    return out


# ----------------------------------------------------------------------------- parameter chains
# S cells that name correlated parameters: _vnacal_new_check_parameter / _vnacal_new_get_parameter follow the chain of
# correlates (vpmr_other); each parameter of the chain must be live (not deleted) and its own frequency range - the
# range of the parameter at the end of its chain narrowed by its own sigma frequencies - must cover the calibration
# range up to VNACAL_F_EXTRAPOLATION.  vnacal_new(3): "EINVAL invalid parameter"; a rejected standard adds nothing.
from fractions import Fraction

CAL_LO, CAL_HI = 1000, 3000         # MHz: the frequency vector the harness gives every vnacal_new_t (1, 2, 3 GHz)
EXTRAPOLATION = Fraction(1, 100)    # VNACAL_F_EXTRAPOLATION; replaced by the value the translator reads (C11.py)
INF = None
# sigma / vector ranges (MHz) are taken from these lists: no value is closer than 5 MHz to a bound
# (1 +- VNACAL_F_EXTRAPOLATION) * calibration end, so binary rounding of 1.01 * 1e9 cannot decide a comparison
LO_OK, LO_BAD = (500, 1000, 1005), (1020, 1500, 2000)
HI_OK, HI_BAD = (2980, 3000, 4000), (2100, 2500, 2960)


class ParamTable(object):
    """The parameters of the vnacal_t of a 'new' harness run: 0..2 predefined, 3 scalar, 4 vector 1..3 GHz,
    5 unknown (other = 3), slot 6 free (a deleted scalar); further ones are created by the script, handles 6, 7, ..."""

    def __init__(self):
        self.p = {}
        for h in (0, 1, 2, 3):
            self.p[h] = {"kind": "s"}
        self.p[4] = {"kind": "v", "range": (CAL_LO, CAL_HI)}
        self.p[5] = {"kind": "u", "other": 3}
        self.next = 6
        self.script = []
        self.deleted = set()

    def _add(self, d, item):
        h = self.next
        self.next += 1
        self.p[h] = d
        self.script.append(item)
        return h

    def scalar(self):
        return self._add({"kind": "s"}, "s")

    def vector(self, lo, hi):
        return self._add({"kind": "v", "range": (lo, hi)}, "v:%d:%d" % (lo, hi))

    def unknown(self, other):
        return self._add({"kind": "u", "other": other}, "u:%d" % other)

    def correlated(self, other, sigma):
        return self._add({"kind": "c", "other": other, "sigma": sigma},
                         "c:%d:%s" % (other, "-" if sigma is None else "%d:%d" % sigma))

    def delete(self, h):
        self.deleted.add(h)

    def full_script(self):
        return ";".join(self.script + ["d:%d" % h for h in sorted(self.deleted)])

    def created(self):
        return list(range(6, self.next))

    def held(self, h):
        return any(k not in self.deleted or self.held(k) for k, d in self.p.items() if d.get("other") == h)

    def end_range(self, h):
        d = self.p[h]
        while d["kind"] in ("u", "c"):
            d = self.p[d["other"]]
        return (0, INF) if d["kind"] == "s" else d["range"]

    def frange(self, h):
        a, b = self.end_range(h)
        d = self.p[h]
        if d["kind"] == "c" and d.get("sigma"):
            a = max(a, d["sigma"][0])
            b = d["sigma"][1] if b is INF else min(b, d["sigma"][1])
        return a, b

    def fits(self, h):
        a, b = self.frange(h)
        return not (a > (1 + EXTRAPOLATION) * CAL_LO or (b is not INF and b < (1 - EXTRAPOLATION) * CAL_HI))

    def live(self, h):
        return h in self.p and h not in self.deleted

    def valid(self, h):
        """The documented verdict: every parameter the cell refers to - directly or as a correlate - is live and covers
        the calibration frequency range."""
        if not self.live(h) or not self.fits(h):
            return False
        d = self.p[h]
        return self.valid(d["other"]) if d["kind"] == "c" else True

    def chain(self, h):
        """The model's view of the cell (chain syntax of ocaml/drv_err.ml, frequencies in GHz)."""
        def q(x):
            return "inf" if x is INF else str(Fraction(x, 1000))
        out = []
        while True:
            if h not in self.p or (h in self.deleted and not self.held(h)):
                out.append("n:%d" % h)
                break
            d = self.p[h]
            lv = 0 if h in self.deleted else 1
            if d["kind"] == "c":
                sg = d.get("sigma")
                out.append("c:%d:%d:%s" % (h, lv, "-" if sg is None else "%s~%s" % (q(sg[0]), q(sg[1]))))
                h = d["other"]
                continue
            a, b = self.end_range(h)
            out.append("e:%d:%d:%d:%s:%s" % (h, lv, 1 if d["kind"] == "u" else 0, q(a), q(b)))
            break
        return ">".join(out)


def registered_before(rows, cols, nstd):
    """Handles in vn_parameter_hash after new_build(..., nstd) of the harness, in registration order."""
    reg = [0]
    if rows == 1 and cols == 1:
        seq = [[2], [1], [0], [3]]
    else:
        seq = [[2, 1], [1, 2], [0], [0, 1], [2]]
    for k in range(nstd):
        for h in seq[k]:
            if h not in reg:
                reg.append(h)
    return reg


def gen_chain_cell(tb, rng, kind):
    """-> (handle, label).  kind: 'ok' any valid cell, 'fresh' a valid cell that registers something new and unknown,
    'bad' a cell that must be refused."""
    def good_sigma():
        return None if rng.random() < 0.4 else (rng.choice(LO_OK), rng.choice(HI_OK))

    def good_end():
        c = rng.choice(["scalar3", "vector4", "vector", "unknown", "newscalar"])
        if c == "scalar3":
            return 3
        if c == "vector4":
            return 4
        if c == "vector":
            return tb.vector(rng.choice(LO_OK), rng.choice(HI_OK))
        if c == "unknown":
            return tb.unknown(rng.choice([3, 4]))
        return tb.scalar()

    def good_chain(depth, end=None):
        h = good_end() if end is None else end
        for _ in range(depth):
            h = tb.correlated(h, good_sigma())
        return h

    if kind == "fresh":
        if rng.random() < 0.5:
            return tb.unknown(rng.choice([3, 4])), "fresh unknown"
        d = rng.randint(1, 3)
        return good_chain(d), "correlated, depth %d" % d
    if kind == "ok":
        c = rng.choice(["pre", "pre", "base", "fresh"])
        if c == "pre":
            return rng.choice([0, 1, 2]), "predefined"
        if c == "base":
            return rng.choice([3, 4, 5]), "base parameter"
        return gen_chain_cell(tb, rng, "fresh")
    # bad cells
    c = rng.choice(["narrow-correlate", "narrow-correlate", "deleted-correlate", "deleted-correlate", "narrow-vector",
                    "unknown-of-narrow-vector", "narrow-end-of-chain", "deleted-handle", "handle-out-of-range"])
    if c in ("narrow-correlate", "deleted-correlate"):
        below = rng.randint(0, 2)          # correlated parameters below the bad one
        above = rng.randint(0, 2)          # ... and above it: the cell's own parameter is `above` levels up
        h = good_chain(below)
        if c == "narrow-correlate":
            sg = rng.choice([(rng.choice(LO_BAD), rng.choice(HI_OK)), (rng.choice(LO_OK), rng.choice(HI_BAD)),
                             (rng.choice(LO_BAD), rng.choice(HI_BAD))])
            a, b = tb.end_range(h)
            if sg[0] > (b if b is not INF else 10 ** 9) or sg[1] < a or sg[0] >= sg[1]:
                sg = (2000, 2500)           # vnacal_make_correlated_parameter wants an overlap with the end of the chain
            bad = tb.correlated(h, sg)
        else:
            bad = tb.correlated(h, good_sigma())
        top = bad
        for _ in range(above):
            top = tb.correlated(top, None if rng.random() < 0.6 else (rng.choice(LO_OK), rng.choice(HI_OK)))
        if c == "deleted-correlate":
            tb.delete(bad)
        return top, "%s %d level(s) down" % (c, above)
    if c == "narrow-vector":
        return tb.vector(rng.choice(LO_BAD), rng.choice(HI_OK)), c
    if c == "unknown-of-narrow-vector":
        return tb.unknown(tb.vector(rng.choice(LO_OK), rng.choice(HI_BAD))), c
    if c == "narrow-end-of-chain":
        d = rng.randint(1, 2)
        return good_chain(d, tb.vector(rng.choice(LO_BAD), rng.choice(HI_BAD))), "%s, depth %d" % (c, d)
    if c == "deleted-handle":
        h = tb.scalar()
        tb.delete(h)
        return h, c
    return rng.choice([99, -1, -8, 1000]), c


def chain_cases_for_state(s, rng, n=None):
    """Rows of vnacal_new_add_mapped_matrix_m on a full S matrix whose cells are parameter chains."""
    t, r, c = s["type"], s["rows"], s["cols"]
    if r != c:
        return []
    ncells = r * c
    out = []
    for k in range(n if n is not None else (6 if ncells > 1 else 2)):
        tb = ParamTable()
        badpos = rng.randrange(ncells) if rng.random() < 0.75 else None
        if badpos is not None and ncells > 1 and rng.random() < 0.6:
            badpos = rng.randrange(1, ncells)        # something can have been registered before it
        cells, labels = [], []
        for i in range(ncells):
            if i == badpos:
                h, lab = gen_chain_cell(tb, rng, "bad")
            elif badpos is not None and i < badpos and rng.random() < 0.7:
                h, lab = gen_chain_cell(tb, rng, "fresh")
            elif cells and rng.random() < 0.1:
                h, lab = cells[rng.randrange(len(cells))], "repeated"
            else:
                h, lab = gen_chain_cell(tb, rng, "ok")
            cells.append(h)
            labels.append(lab)
        valid = all(tb.valid(h) for h in cells)
        assert valid == (badpos is None), (cells, tb.p, badpos)
        v = [0, 0, 0, r, c, r, c, 4] + (list(range(1, r + 1)) + [0, 0, 0, 0])[:4] + [ncells] + (cells + [0] * 16)[:16] + [0]
        text = tb.full_script() + "/" + ",".join(str(x) for x in v)
        if badpos is None:
            cls = "chains: all cells valid"
            exp = dict(OK, sfx_free=True)
        else:
            fresh_before = any(l.startswith(("fresh", "correlated")) for l in labels[:badpos])
            cls = "chains: %s in cell %d%s" % (labels[badpos].split(",")[0].split(" ")[0], badpos,
                                                " after a fresh unknown" if fresh_before else "")
            exp = fail("m1")
        case = Case("new", s, "add_chains", cls, [], exp, text)
        case.chain = {"cells": [tb.chain(h) for h in cells], "handles": tb.created(), "labels": labels,
                      "registered": registered_before(r, c, s["nstd"])}
        out.append(case)
    return out


def chain_model_line(case):
    s = case.state
    stored = 7 if s["type"] == E12 else s["type"]
    return "nc %d %d %d %s 0 0 %d %s~%s %d %d %d %d %s %s" % (
        stored, s["rows"], s["cols"], ",".join(str(h) for h in case.chain["registered"]), s["nstd"],
        Fraction(CAL_LO, 1000), Fraction(CAL_HI, 1000), s["rows"], s["cols"], s["rows"], s["cols"],
        ",".join(str(x) for x in range(1, s["rows"] + 1)), ";".join(case.chain["cells"]))


# ----------------------------------------------------------------------------- vnaproperty family
def prop_cases_for_state(s, rng):
    out = []
    n_l = 4 if s["variant"] & 2 else 3
    queries = [
        ("missing key", "none", "ENOENT"), ("missing nested key", "b.none", "ENOENT"), ("key under a scalar", "a.x", "EINVAL"),
        ("subscript n", "l[%d]" % n_l, "ENOENT"), ("subscript n+1", "l[%d]" % (n_l + 1), "ENOENT"),
        ("negative subscript", "l[-1]", "EINVAL"), ("subscript on a map", "b[0]", "EINVAL"), ("key on a list", "l.k", "EINVAL"),
        ("empty descriptor", "", "EINVAL"), ("double dot", "a..b", "EINVAL"), ("unclosed bracket", "l[1", "EINVAL"),
        ("non-numeric subscript", "l[x]", "EINVAL"), ("append in a query", "l[+]", "EINVAL"), ("insert in a query", "l[1+]", "EINVAL"),
        ("braces on a list", "l{}", "EINVAL"), ("brackets on a map", "b[]", "EINVAL"), ("trailing assignment", "a=1", "EINVAL"),
        ("trailing junk", "a]x", "EINVAL"),
    ]
    for func, ret in (("type", "m1"), ("count", "m1"), ("keys", "null"), ("get", "null"), ("get_subtree", "null")):
        for cls, text, en in queries:
            out.append(Case("prop", s, func, cls, [], silent(ret, (en,)), text))
    out.append(Case("prop", s, "type", "valid", [], OK, "b.c"))
    out.append(Case("prop", s, "count", "valid", [], OK, "l"))
    out.append(Case("prop", s, "count", "on a scalar", [], silent("m1"), "a"))
    out.append(Case("prop", s, "keys", "valid", [], OK, "b"))
    out.append(Case("prop", s, "keys", "on a list", [], silent("null"), "l"))
    out.append(Case("prop", s, "get", "valid", [], OK, "l[2].k"))
    out.append(Case("prop", s, "get", "on a map", [], silent("null"), "b"))
    for cls, text in (("missing value", "a.b"), ("missing value on new path", "p.q.r"), ("assign to map", "a{}=x"),
                      ("assign to list", "l[]=x"), ("empty descriptor", "=x"), ("empty string", ""), ("double dot", "a..b=x"),
                      ("negative subscript", "l[-1]=x"), ("non-numeric subscript", "l[x]=1"), ("unclosed bracket", "l[1=x"),
                      ("type change then junk", "a.b.c]")):
        out.append(Case("prop", s, "set", cls, [], silent("m1"), text))
    for cls, text in (("replace scalar", "a=2"), ("new nested", "new.key=1"), ("append", "l[+]=z"), ("insert", "l[1+]=ins"),
                      ("null", "a#"), ("type change", "a.b=1")):
        out.append(Case("prop", s, "set", "valid " + cls, [], OK, text))
    for cls, text, en in (("missing key", "none", "ENOENT"), ("subscript n", "l[%d]" % n_l, "ENOENT"),
                          ("key under a scalar", "a.x", "EINVAL"), ("key on a list", "l.k", "EINVAL"),
                          ("subscript on a map", "b[0]", "EINVAL"), ("trailing assignment", "a=1", "EINVAL"),
                          ("double dot", "a..b", "EINVAL"), ("append", "l[+]", "EINVAL")):
        out.append(Case("prop", s, "delete", cls, [], silent("m1", (en,)), text))
    for cls, text in (("key", "a"), ("list element", "l[0]"), ("subtree content", "b."), ("root", ".")):
        out.append(Case("prop", s, "delete", "valid " + cls, [], OK, text))
    for cls, text in (("trailing assignment", "a.b="), ("trailing assignment new path", "x.y.z=1"), ("empty string", ""),
                      ("double dot", "a..b"), ("negative subscript", "l[-1]")):
        out.append(Case("prop", s, "set_subtree", cls, [], silent("null"), text))
    out.append(Case("prop", s, "set_subtree", "valid", [], OK, "sub.tree"))
    # YAML import: errors "are reported by calling errfn with a single-line string"
    for cls, text in (("unterminated flow sequence", "a: [1, 2\n"), ("bad indentation", "a: 1\n  b: 2\n c: 3\n"),
                      ("tab", "a:\n\t- 1\n")):
        out.append(Case("prop", s, "import", cls, [], fail("m1", ("EBADMSG", "EINVAL"), cb=(1,), unchanged=None), text))
        out.append(Case("prop", s, "import_silent", cls, [], fail("m1", ("EBADMSG", "EINVAL"), cb=(0,), unchanged=None), text))
    out.append(Case("prop", s, "import", "valid", [], OK, "a: 1\nb: [1, 2]\n"))
    return out


# ----------------------------------------------------------------------------- catalogue driver
GENERATORS = {
    "data": lambda s, rng: data_cases_for_state(s, rng) + reshape_cases(s, rng) + settings_cases(s, rng) + file_cases(s, rng)
    + null_cases(s),
    "cal": cal_cases_for_state, "new": lambda s, rng: new_cases_for_state(s, rng) + chain_cases_for_state(s, rng),
    "prop": prop_cases_for_state,
}


def small_states(fam):
    """Candidate states in increasing size, used to shrink a failing row."""
    import random
    rng = random.Random(7)
    if fam == "data":
        out = []
        for shape in sorted(DATA_SHAPES, key=lambda x: (x[1] * x[2], x[0])):
            for f in (0, 1, 2):
                for z in (0, 1):
                    out.append(data_state(rng, shape, f, z))
        return out
    if fam == "cal":
        return [cal_state(rng, n, h) for n in range(4) for h in range(1 << n)]
    if fam == "new":
        return [new_state(rng, sh, k) for sh in NEW_SHAPES for k in (0, 1, 2, 3, 4, 5) if k <= (5 if max(sh[1], sh[2]) > 1 else 4)]
    return [{"variant": v} for v in range(8)]


def state_size(fam, s):
    if fam == "data":
        return (s["rows"] * s["cols"] * max(1, s["freqs"]), s["freqs"], s["fz0"])
    if fam == "cal":
        return (s["ncal"], bin(s["holes"]).count("1"))
    if fam == "new":
        return (s["rows"] * s["cols"], s["nstd"])
    return (s["variant"],)


def shrink(ctx, runner, case, key):
    """Smallest state on which the same (function, argument class) row fails the same way."""
    import random
    best = case
    tried = 0
    for st in sorted(small_states(case.fam), key=lambda s: state_size(case.fam, s)):
        if state_size(case.fam, st) >= state_size(case.fam, best.state):
            break
        rng = random.Random(11)
        cands = [c for c in GENERATORS[case.fam](st, rng) if c.func == case.func and c.cls == case.cls]
        if not cands:
            continue
        tried += 1
        if tried > 12:
            break
        res = runner.run(cands[:1])
        probs = judge(cands[0], res[cands[0].id])
        if probs and probs[0][0] == key:
            return cands[0], res[cands[0].id], probs
    return None


def run_catalogue(ctx, runner):
    rng = ctx.rng
    probe_devfull(ctx)
    nst = {"data": 10, "cal": 6, "new": 10, "prop": 3} if ctx.tier == "quick" else {"data": 60, "cal": 24, "new": 42, "prop": 8}
    cases = []
    for fam in ("data", "cal", "new", "prop"):
        states = []
        if fam == "data":
            shapes = list(DATA_SHAPES)
            rng.shuffle(shapes)
            states = [data_state(rng, shapes[i % len(shapes)]) for i in range(nst[fam])]
        elif fam == "cal":
            states = [cal_state(rng, n) for n in ([0, 1, 2, 3] * 8)[:nst[fam]]]
        elif fam == "new":
            shapes = list(NEW_SHAPES)
            rng.shuffle(shapes)
            states = [new_state(rng, shapes[i % len(shapes)]) for i in range(nst[fam])]
        else:
            states = [{"variant": v} for v in rng.sample(range(8), nst[fam])]
        for st in states:
            cases += GENERATORS[fam](st, rng)
    # the run "that never made the rejected call": every refused vnacal_new_add_* row gets a twin that builds the same
    # objects from the same pseudo-random stream and skips the call; after the suffix (remaining standards, solve) the
    # two vnacal_new_t must be the same - bookkeeping and solved error terms
    twins = []
    for c in list(cases):
        if c.fam == "new" and c.func.startswith("add_") and c.exp.get("ret") is not None:
            tw = Case("new", c.state, c.func + "@skip", c.cls, c.args, {"ret": None}, c.text)
            twins.append((c, tw))
            cases.append(tw)
    ctx.log("catalogue: %d rows" % len(cases))
    results = runner.run(cases)
    rows = set()
    classes = {}
    failures = {}
    for c in cases:
        r = results.get(c.id, {"crash": {"kind": "fault", "error": "no result", "function": None}, "stderr": ""})
        if "crash" in r and str(r["crash"].get("error", "")).startswith("not run"):
            continue
        probs = judge(c, r)
        rows.add((c.fam, c.func, c.cls))
        nontrivial = ("crash" not in r) and (has_failed(r) or r.get("d0") != r.get("d1"))
        ctx.count((c.fam, c.func, c.cls, tuple(sorted(c.state.items()))) if nontrivial else None)
        classes[c.fam] = classes.get(c.fam, 0) + 1
        if probs:
            failures.setdefault((c.func.replace("@null", ""), c.cls, probs[0][0]), []).append((c, r, probs))
        elif len(ctx.samples) < 8 and nontrivial and ctx.rng.random() < 0.02:
            ctx.sample({"row": c.describe(), "observed": r["raw"][:300]})
    ntw = 0
    for c, tw in twins:
        r, rt = results.get(c.id), results.get(tw.id)
        if not r or not rt or "crash" in r or "crash" in rt or not has_failed(r):
            continue
        ntw += 1
        if rt.get("sfx") == "ok" and (r.get("sfx") != "ok" or r.get("sd") != rt.get("sd")):
            txt = ("after the refused call the calibration completed with the remaining standards is not the one of a run "
                   "that never made the call: suffix %s %s, digest of the solved vnacal_new_t %s, without the call: suffix ok, %s"
                   % (r.get("sfx"), r.get("smsg", ""), r.get("sd"), rt.get("sd")))
            failures.setdefault((c.func, c.cls, "differs-from-run-without-the-call"), []).append(
                (c, r, [("differs-from-run-without-the-call", txt)]))
    ctx.extra["catalogue_twin_comparisons"] = ntw
    ctx.traces_validated += len(cases)
    ctx.extra["catalogue_rows"] = len(cases)
    ctx.extra["catalogue_distinct_function_class"] = len(rows)
    ctx.extra["catalogue_rows_per_family"] = classes
    known = vplib.load_known()
    unknown = [k for k in sorted(failures)
               if vplib.match_known(ctx.prop, {"kind": "contract", "function": k[0], "problem": k[2]}, known) is None]
    ctx.obligation("catalogue:contract", not unknown,
                   "; ".join("%s [%s]: %s" % k for k in unknown[:5]) if unknown else
                   ("only rows of known findings fail: " + "; ".join("%s [%s]" % (k[0], k[1]) for k in sorted(failures)[:6])
                    if failures else ""))
    # one violation per (function, class, problem): shrink the state
    merged = {}
    for (func, cls, key), lst in sorted(failures.items()):
        merged.setdefault((func, key), []).append((cls, lst))
    for (func, key), groups in sorted(merged.items()):
        cls, lst = groups[0]
        c, r, probs = min(lst, key=lambda x: state_size(x[0].fam, x[0].state))
        sh = shrink(ctx, runner, c, key)
        if sh is not None:
            c, r, probs = sh
        what = "%s [%s] on %s: %s" % (c.func, c.cls, c.state, "; ".join(p[1] for p in probs))
        sig = {"kind": "contract", "function": func, "problem": key}
        if key == "crash":
            sig = dict(r["crash"])
            sig["api"] = func
        ctx.violation(sig, what[:400], {"row": c.describe(), "observed": r.get("raw", r.get("stderr", ""))[-2500:],
                                        "problems": [p[1] for p in probs],
                                        "other_classes_failing_the_same_way": [g[0] for g in groups[1:]][:20],
                                        "how": "harness/err_harness.c run <tmpdir> < one line (harness_line)"})


# ----------------------------------------------------------------------------- allocation failures, then further use
# "Every failing call ... leaves objects usable": the failure here is the k-th allocation request of the call
# (harness/err_alloc_harness.c, linked with harness/allocwrap.c), for every allocation point of the vnadata family the
# generated calls reach; after it the object is used on: the same call again, resize / init to sizes up to the failed
# request with every frequency, cell and per-frequency z0 entry set and read back, saved to a memory stream, freed - all
# under ASan, and compared with the run in which no request fails.  (That the call itself answers -1 / ENOMEM is
# property C12's clause; it is judged here as well because C11 states the failure value / errno / one report for
# every failing call.)
class ACase(object):
    def __init__(self, state, func, args, text, k, label):
        self.state, self.func, self.args, self.text, self.k, self.label = state, func, list(args), text, k, label
        self.id = None

    def line(self):
        s = self.state
        a = (self.args + [0, 0, 0, 0])[:4]
        return "afail %s %d %d %d %d %d %d %s %d %d %d %d %d %s" % (
            self.id, s["type"], s["rows"], s["cols"], s["freqs"], s["fz0"], s["seed"], self.func, a[0], a[1], a[2], a[3],
            self.k, hx(self.text))

    def describe(self):
        return {"family": "data", "function": self.func, "call": self.label, "state": self.state, "arguments": self.args,
                "text": self.text, "failing_allocation_request": self.k, "harness_line": self.line(),
                "how": "harness/err_alloc_harness.c (linked with harness/allocwrap.c) run <tmpdir> < harness_line"}


def npd_text(ports, nf, per_frequency_z0=False):
    L = ["#NPD", "#:version 1.0", "#:ports %d" % ports, "#:frequencies %d" % nf, "#:parameters Sri",
         "#:z0" + (" PER-FREQUENCY" if per_frequency_z0 else " 50 +0j" * ports), "#:fprecision 7", "#:dprecision 6", "#"]
    for f in range(nf):
        row = ["%d.0e+06" % (f + 1)]
        if per_frequency_z0:
            row += ["%d %d" % (50 + f, p) for p in range(ports)]
        row += ["%g %g" % (0.1 * (i % 7), -0.05 * (i % 3)) for i in range(ports * ports)]
        L.append(" ".join(row))
    return "\n".join(L) + "\n"


def ts1_text(nf):
    L = ["# MHz S RI R 50"]
    for f in range(nf):
        L.append("%d 0.1 0.2 0.3 0.4 0.5 0.6 0.7 0.8" % (f + 1))
    return "\n".join(L) + "\n"


def ts2_text(nf):
    L = ["[Version] 2.0", "# MHz S RI R 50", "[Number of Ports] 1", "[Number of Frequencies] %d" % nf, "[Network Data]"]
    for f in range(nf):
        L.append("%d 0.%d 0.2" % (f + 1, f % 9 + 1))
    L.append("[End]")
    return "\n".join(L) + "\n"


ALLOC_STATES = [(1, 2, 2, 4, 0), (1, 2, 2, 4, 1), (1, 3, 3, 2, 0), (0, 0, 0, 0, 0), (10, 1, 3, 3, 1), (2, 2, 2, 1, 0),
                (0, 2, 3, 2, 1), (1, 1, 1, 0, 0)]


def alloc_base_cases(ctx):
    rng = ctx.rng
    quick = ctx.tier == "quick"
    out = []
    for (t, r, c, f, z) in ALLOC_STATES:
        s = {"type": t, "rows": r, "cols": c, "freqs": f, "fz0": z, "seed": rng.randint(1, 10 ** 6)}
        P = max(r, c)
        g = rng.randint(2, 7)
        calls = [("resize", [t, r, c, f + g], "", "grow frequencies %d -> %d" % (f, f + g)),
                 ("resize", [0, r + 1, c + 2, f], "", "grow the matrix"),
                 ("resize", [0, r + 2, c + 1, f + rng.randint(1, 4)], "", "grow matrix and frequencies"),
                 ("resize", [1, 4, 4, f + 2], "", "to S 4x4"),
                 ("init", [1, 3, 3, f + rng.randint(1, 6)], "", "S 3x3, more frequencies"),
                 ("init", [0, r, c + 1, f + 2], "", "one more column"),
                 ("alloc_and_init", [1, 2, 2, rng.randint(1, 6)], "", "S 2x2"),
                 ("alloc_and_init", [10, 1, 3, 4], "", "Zin 1x3"),
                 ("add_frequency", [7], "", "valid"), ("get_format", [], "", "valid"), ("set_type", [0], "", "undefined")]
        if f > 0 and P > 0:
            calls += [("set_fz0", [rng.randrange(f), rng.randrange(P)], "", "valid"),
                      ("set_fz0_vector", [rng.randrange(f)], "", "valid")]
        if P > 0:
            calls += [("set_z0", [rng.randrange(P)], "", "valid"), ("set_z0_vector", [], "", "valid")]
        calls.append(("set_all_z0", [], "", "valid"))
        if t == 1:
            calls += [("set_format", [], "Sri,Zma,Sdb", "S and Z parameters"), ("set_format", [], "il,rl,vswr", "loss formats")]
            if f >= 1:
                calls += [("convert", [4, 0], "", "S -> Z in place"), ("convert", [4, 1], "", "S -> Z into another object"),
                          ("fsave", [], "x.npd", "npd"), ("cksave", [], "x.npd", "npd")]
        nf = rng.randint(5, 12) if quick else rng.randint(20, 70)
        calls += [("fload", [], "x.npd\n" + npd_text(2, nf), "npd 2x2, %d frequencies" % nf),
                  ("fload", [], "x.npd\n" + npd_text(1, nf // 2 + 1, True), "npd 1x1, per-frequency z0"),
                  ("fload", [], "x.s2p\n" + ts1_text(nf), "touchstone 1, %d frequencies" % nf),
                  ("fload", [], "x.ts\n" + ts2_text(nf // 2 + 1), "touchstone 2")]
        for func, args, text, label in calls:
            out.append((s, func, args, text, label))
    return out


def run_alloc_faults(ctx, exe, env):
    rng = ctx.rng
    quick = ctx.tier == "quick"
    runner = Runner(ctx, exe, env)
    base = [ACase(s, func, args, text, 0, label) for s, func, args, text, label in alloc_base_cases(ctx)]
    res0 = runner.run(base)
    cap = 16 if quick else 80
    faulted = []
    sampled = 0
    for b in base:
        r = res0.get(b.id, {})
        b.res = r
        if "crash" in r or "n" not in r:
            continue
        n = int(r["n"])
        ks = list(range(1, n + 1))
        if n > cap:
            keep = set(ks[:8] + ks[-4:])
            keep.update(rng.sample(ks[8:-4], cap - 12))
            ks = sorted(keep)
            sampled += 1
        for k in ks:
            fc = ACase(b.state, b.func, b.args, b.text, k, b.label)
            fc.base = b
            faulted.append(fc)
    if sampled:
        SKIPPED.append(("allocation-failure rows: %d calls make more than %d allocation requests" % (sampled, cap),
                        "sampling: the first 8, the last 4 and %d random requests in between are failed; the thorough tier "
                        "takes 80" % (cap - 12)))
    ctx.log("allocation failures: %d calls, %d (call, failing request) rows" % (len(base), len(faulted)))
    res = runner.run(faulted)
    failures = {}

    def add(case, key, text, r):
        failures.setdefault((case.func, key), []).append((case, text, r))
    sites = set()
    for b in base:
        r = b.res
        ctx.count(None)
        if "crash" in r:
            add(b, "crash", "no allocation fails, yet the call or the use after it did not return: %s in %s"
                % (r["crash"].get("error"), r["crash"].get("function")), r)
        elif r.get("ret") in FAIL_RETS and not (r["ret"] == "null" and r["errno"] == "0" and r["cb"] == "0"):
            add(b, "refused-valid", "valid call failed without any injected failure: ret=%s errno=%s msg=%s"
                % (r["ret"], r["errno"], r.get("msg")), r)
        elif r.get("u") != "ok":
            add(b, "unusable", "valid use after a valid call failed: %s %s" % (r.get("u"), r.get("umsg")), r)
    for fc in faulted:
        r = res.get(fc.id)
        b = fc.base.res
        if r is None or "crash" in b or (b.get("ret") in FAIL_RETS and b.get("errno") != "0") or b.get("u") != "ok":
            continue
        if "crash" in r:
            if str(r["crash"].get("error", "")).startswith("not run"):
                continue
            ctx.count(("afail", fc.func, fc.label, fc.k, tuple(sorted(fc.state.items()))))
            add(fc, "crash", "allocation request %d of %s fails; the call or the further valid use of the object did not return: "
                "%s in %s" % (fc.k, fc.base.res.get("n"), r["crash"].get("error"), r["crash"].get("function")), r)
            continue
        if r.get("inj") != "1":
            ctx.count(None)
            continue
        failed = r["ret"] in FAIL_RETS and not (r["ret"] == "null" and r["errno"] == "0" and r["cb"] == "0")
        ctx.count(("afail", fc.func, fc.label, fc.k, tuple(sorted(fc.state.items()))) if failed else None)
        sites.add((fc.func, r.get("msg", "").split(":")[0]))
        pre = "allocation request %d of %s fails: " % (fc.k, b.get("n"))
        if failed:
            if r["errno"] != "ENOMEM":
                add(fc, "errno", pre + "errno %s on return, expected the errno of the failed request (ENOMEM)" % r["errno"], r)
            if r["cb"] != "1" or r["cats"][-1:] != "0":
                add(fc, "callbacks", pre + "error function called %s time(s) with categories %s, documented once with VNAERR_SYSTEM "
                    "(message %s)" % (r["cb"], r["cats"], r.get("msg")), r)
            elif r["ecb"] != r["errno"]:
                add(fc, "errno-in-callback", pre + "errno inside the error function %s, on return %s" % (r["ecb"], r["errno"]), r)
            if r["nl"] != "0":
                add(fc, "multi-line", pre + "error message contains a newline", r)
        elif r["cb"] != "0":
            add(fc, "callback-on-success", pre + "the call reported success but invoked the error function %s time(s)" % r["cb"], r)
        if r["rret"] in FAIL_RETS and b.get("ret") not in FAIL_RETS:
            add(fc, "retry", pre + "the same call, repeated without any failing request, fails: %s errno=%s (%d reports)"
                % (r["rret"], r["rerrno"], int(r["rcb"])), r)
        elif failed and r["dr"] != b["d1"]:
            add(fc, "retry-differs", pre + "after the failed call the repeated call succeeds but leaves an object (digest %s) that "
                "differs from the one the call gives when no request fails (%s)" % (r["dr"], b["d1"]), r)
        if r["u"] != "ok":
            add(fc, "unusable", pre + "object not usable afterwards: step %s of resize / init / set / get / save fails (%s)"
                % (r["u"], r.get("umsg")), r)
        elif r["ucb"] != "0":
            add(fc, "suffix-callback", pre + "valid calls afterwards invoked the error function %s time(s): %s" % (r["ucb"], r.get("umsg")), r)
        elif failed and r["rret"] not in FAIL_RETS and r["du"] != b["du"]:
            add(fc, "use-differs", pre + "what is read back / saved during the further use (digest %s) differs from the run "
                "without a failing request (%s)" % (r["du"], b["du"]), r)
    ctx.traces_validated += len(base) + len(faulted)
    ctx.extra["alloc_failure_rows"] = {"calls": len(base), "call_x_failing_request": len(faulted),
                                       "distinct_function_x_failing_libc_call": len(sites)}
    known = vplib.load_known()
    unknown = [k for k in sorted(failures)
               if vplib.match_known(ctx.prop, {"kind": "alloc-failure", "function": k[0], "problem": k[1]}, known) is None
               and k[1] != "crash"]
    crashes = [k for k in sorted(failures) if k[1] == "crash"]
    ctx.obligation("catalogue:usable-after-allocation-failure", not unknown and not crashes,
                   "; ".join("%s: %s" % k for k in (unknown + crashes)[:5]))
    for (func, key), lst in sorted(failures.items()):
        case, text, r = min(lst, key=lambda x: (x[0].state["rows"] * x[0].state["cols"] * max(1, x[0].state["freqs"]), x[0].k))
        sig = {"kind": "alloc-failure", "function": func, "problem": key}
        if key == "crash":
            sig = dict(r["crash"])
            sig["api"] = func
            sig["after"] = "allocation failure"
        ctx.violation(sig, ("%s [%s] on %s: %s" % (func, case.label, case.state, text))[:500],
                      {"row": case.describe(), "observed": r.get("raw", r.get("stderr", ""))[-2500:],
                       "fault_free_run": case.base.res.get("raw") if hasattr(case, "base") else None,
                       "rows_failing_the_same_way": len(lst),
                       "failing_requests": sorted(set(x[0].k for x in lst))[:30]})


# ----------------------------------------------------------------------------- vnacal family: fault, then the same call again
CAL_FAULT_CALLS = [("add_calibration", 0, "new name, empty table"), ("add_calibration", 1, "new name, the table grows 1 -> 8"),
                   ("add_calibration", 2, "existing name (replace)"), ("add_calibration", 3, "new name, a free slot"),
                   ("solve", 0, "T8 2x2, five standards"), ("solve", 1, "E12 1x1, four standards"),
                   ("save", 0, "two calibrations"), ("load", 0, "two calibrations"),
                   ("make_scalar", 0, ""), ("make_vector", 0, ""), ("make_unknown", 0, ""),
                   ("make_correlated", 0, "sigma frequencies"), ("make_correlated", 1, "one sigma value"),
                   ("set_m_error", 0, "one value"), ("set_m_error", 1, "two frequencies (spline)"), ("set_m_error", 2, "NULL frequency vector"),
                   ("property_set", 0, "calibration 0, new nested key"), ("property_set", 1, "global root, list element"),
                   ("property_set", 2, "replace a value")]
CAL_FAULT_NAMES = {"add_calibration": "vnacal_add_calibration", "solve": "vnacal_new_solve", "save": "vnacal_save", "load": "vnacal_load",
                   "make_scalar": "vnacal_make_scalar_parameter", "make_vector": "vnacal_make_vector_parameter",
                   "make_unknown": "vnacal_make_unknown_parameter", "make_correlated": "vnacal_make_correlated_parameter",
                   "set_m_error": "vnacal_new_set_m_error", "property_set": "vnacal_property_set"}


class CFCase(object):
    def __init__(self, func, variant, label, k):
        self.func, self.variant, self.label, self.k = func, variant, label, k
        self.id = None

    def line(self):
        return "cf %s %s %d %d" % (self.id, self.func, self.variant, self.k)

    def describe(self):
        return {"function": CAL_FAULT_NAMES[self.func], "state": self.label, "failing_allocation_request": self.k,
                "harness_line": self.line(), "how": "harness/err_calfault.c (linked with harness/allocwrap.c) run <tmp> with the line on stdin"}


def run_cal_faults(ctx, exe, env):
    """For every call of CAL_FAULT_CALLS: the fault-free history (k = 0: value returned, digest of the vnacal_t / vnacal_new_t /
    file afterwards, number n of allocation requests of the library), then for request k = 1..n (sampled above the cap) the
    call with that request failing FOLLOWED BY THE SAME CALL without a fault.  Judged: a call that fails under the fault returns
    its failure value, ENOMEM, one VNAERR_SYSTEM report with that errno inside; the repeated call succeeds with the value of
    the fault-free history and every getter (digest) answers as in that history; a call that succeeds in spite of the fault
    ends where the fault-free history ends."""
    rng = ctx.rng
    runner = Runner(ctx, exe, env)
    base = [CFCase(f, v, lab, 0) for f, v, lab in CAL_FAULT_CALLS]
    res0 = runner.run(base)
    cap = 14 if ctx.tier == "quick" else 60
    faulted = []
    sampled = 0
    failures = []
    for bcase in base:
        r = res0.get(bcase.id, {})
        bcase.res = r
        ctx.count(None)
        if "crash" in r or "n" not in r:
            failures.append((bcase, "crash", "no allocation fails, yet the call did not return: %s" % (r.get("crash") or r), r))
            continue
        if r["ret"] in FAIL_RETS or int(r["cb"]) != 0:
            failures.append((bcase, "base", "no allocation fails, yet the call fails / reports: ret=%s errno=%s msg=%s"
                             % (r["ret"], r["errno"], r.get("msg")), r))
            continue
        n = int(r["n"])
        ks = list(range(1, n + 1))
        if n > cap:
            keep = set(ks[:6] + ks[-4:])
            keep.update(rng.sample(ks[6:-4], cap - 10))
            ks = sorted(keep)
            sampled += 1
        for k in ks:
            c = CFCase(bcase.func, bcase.variant, bcase.label, k)
            c.base = bcase
            faulted.append(c)
    if sampled:
        SKIPPED.append(("fault-then-retry rows of the vnacal family: %d calls make more than %d allocation requests" % (sampled, cap),
                        "sampling: the first 6, the last 4 and %d random requests in between are failed; the thorough tier takes 60" % (cap - 10)))
    ctx.log("vnacal family, fault then the same call again: %d calls, %d (call, failing request) rows" % (len(base), len(faulted)))
    res = runner.run(faulted)
    for c in faulted:
        r = res.get(c.id, {"crash": {"error": "no result", "function": None}})
        b0 = c.base.res
        ctx.traces_validated += 1
        if "crash" in r:
            s = r["crash"]
            ctx.count((c.func, c.variant, "crash"))
            failures.append((c, "crash", "request %d fails: the call or its repetition did not return: %s in %s"
                             % (c.k, s.get("error"), s.get("function")), r))
            continue
        injected = int(r["inj"]) > 0
        failed = r["ret"] in FAIL_RETS
        ctx.count((c.func, c.variant, failed) if injected else None)
        probs = []
        if not injected:
            continue            # the call did not reach request k (an earlier exit): nothing was injected
        if failed:
            if r["errno"] != "ENOMEM":
                probs.append(("errno", "errno %s, expected ENOMEM" % r["errno"]))
            if c.func == "property_set":
                # vnacal(3): the property functions set errno and return -1 "but don't invoke the error function"
                if int(r["cb"]) != 0:
                    probs.append(("callbacks", "a silent function called the error function %s time(s)" % r["cb"]))
            elif int(r["cb"]) != 1 or r["cats"] != "0":
                probs.append(("callbacks", "%s call(s) of the error function with categories %s, expected one VNAERR_SYSTEM report"
                              % (r["cb"], r["cats"])))
            elif r["ecb"] != r["errno"]:
                probs.append(("errno-in-callback", "errno inside the error function %s, on return %s" % (r["ecb"], r["errno"])))
            if int(r["nl"]) != 0:
                probs.append(("multi-line", "message contains a newline"))
            # the same call again, no fault
            if r["rret"] != b0["ret"] or int(r["rcb"]) != 0:
                probs.append(("retry", "the same call repeated without the fault does not do what it does in the fault-free history: "
                              "ret=%s errno=%s, %s report(s) (%s); fault-free: ret=%s" % (r["rret"], r["rerrno"], r["rcb"], r.get("rmsg"), b0["ret"])))
            elif r["dr"] != b0["d1"]:
                probs.append(("retry-state", "after the repeated call the getters do not answer as in the fault-free history "
                              "(digest %s, fault-free %s)" % (r["dr"], b0["d1"])))
        else:
            if int(r["cb"]) != 0:
                probs.append(("callback-on-success", "the call reports success but called the error function %s time(s)" % r["cb"]))
            if r["ret"] != b0["ret"] or r["d1"] != b0["d1"]:
                probs.append(("tolerated-fault-state", "the call succeeds in spite of the failed request but ends elsewhere than the "
                              "fault-free history: ret=%s digest %s, fault-free ret=%s digest %s" % (r["ret"], r["d1"], b0["ret"], b0["d1"])))
        for key, text in probs:
            failures.append((c, key, "request %d of %s fails: %s" % (c.k, b0.get("n"), text), r))
    ctx.obligation("catalogue:vnacal-fault-then-retry", not failures,
                   "; ".join("%s [%s]: %s" % (CAL_FAULT_NAMES[c.func], c.label, t) for c, k, t, r in failures[:3])[:600])
    seen = set()
    for c, key, text, r in failures:
        sig = (c.func, c.variant, key)
        if sig in seen:
            continue
        seen.add(sig)
        ctx.violation({"kind": "usable_after_allocation_failure", "function": CAL_FAULT_NAMES[c.func], "problem": key},
                      "%s [%s]: %s" % (CAL_FAULT_NAMES[c.func], c.label, text),
                      dict(c.describe(), library=r.get("raw", str(r))[:900], fault_free=getattr(c, "base", c).res.get("raw", "")[:600]))


# ----------------------------------------------------------------------------- histories
# Theorems data_history_refusals_erasable / new_history_refusals_erasable (Properties_C11.v): the calls an argument check
# refuses can be deleted from any history.  Tie: random histories of calls on ONE vnadata_t are run by the extracted
# hrun / kept (driver line "dh") and by the library (harness line "dhist"): per call the answer and the summary after
# it, then the library runs the history WITHOUT the refused calls: same digest at the end, same answers of the other
# calls.  For the vnacal_new_t the pair (history, history without its EINVAL refusals) is run through the C API only
# (harness line "nhist"): same bookkeeping, same solved error terms after the remaining standards have been added.
class HCase(object):
    def __init__(self, kind, state, ops):
        self.kind, self.state, self.ops = kind, state, list(ops)
        self.id = None

    def optext(self):
        return ";".join(":".join([f] + [str(x) for x in a]) for f, a in self.ops) or "-"

    def line(self):
        s = self.state
        if self.kind == "dhist":
            return "dhist %s %d %d %d %d %d %d %s" % (self.id, s["type"], s["rows"], s["cols"], s["freqs"], s["fz0"], s["seed"],
                                                      self.optext())
        return "nhist %s %d %d %d %d %d %s" % (self.id, s["type"], s["rows"], s["cols"], s["nstd"], s["seed"], self.optext())

    def describe(self):
        return {"family": "data" if self.kind == "dhist" else "new", "state": self.state,
                "history": [":".join([f] + [str(x) for x in a]) for f, a in self.ops], "harness_line": self.line(),
                "how": "harness/err_harness.c run <tmpdir> < harness_line"}


def gen_data_history(rng, with_init):
    shapes = [(t, r, c) for t in range(11) for r in range(4) for c in range(4) if vtype_ok(t, r, c)]
    t, r, c = rng.choice(shapes)
    f = rng.randint(0, 3)
    z = rng.randint(0, 1) if f > 0 and max(r, c) > 0 else 0
    s = {"type": t, "rows": r, "cols": c, "freqs": f, "fz0": z, "seed": rng.randint(1, 10 ** 6)}
    funcs = [x for x in TIE_FUNCS if with_init or x != "init"]
    reshapes = [(1, 2, 2, 2), (1, 3, 3, 1), (0, 2, 3, 2), (2, 2, 2, 1), (10, 1, 3, 2), (0, 0, 0, 0), (2, 3, 3, 1), (0, -1, 1, 1),
                (11, 1, 1, 1), (1, 2, 3, 1), (4, 1, 1, 3), (0, 1, 1, -1), (6, 2, 2, 0)]
    ops = []

    def ri(a, b):
        return rng.randint(a, b)
    for _ in range(rng.randint(3, 12)):
        fn = rng.choice(funcs)
        if fn in ("resize", "init"):
            a = list(rng.choice(reshapes))
        elif fn == "set_type":
            a = [rng.choice([-1, 0, 1, 2, 4, 10, 11])]
        elif fn in ("get_frequency", "set_frequency", "get_matrix", "set_matrix", "get_fz0_vector", "set_fz0_vector"):
            a = [ri(-1, 4)]
        elif fn in ("get_cell", "set_cell"):
            a = [ri(-1, 4), ri(-1, 3), ri(-1, 3)]
        elif fn in ("get_to_vector", "set_from_vector"):
            a = [ri(-1, 3), ri(-1, 3)]
        elif fn in ("get_z0", "set_z0"):
            a = [ri(-1, 3)]
        elif fn in ("get_fz0", "set_fz0"):
            a = [ri(-1, 4), ri(-1, 3)]
        elif fn == "add_frequency":
            a = [rng.choice([-1, 2, 5])]
        elif fn == "set_filetype":
            a = [rng.choice([-1, 0, 3, 4])]
        elif fn in ("set_fprecision", "set_dprecision"):
            a = [rng.choice([-1, 0, 1, 9])]
        else:
            a = []
        ops.append((fn, a))
    return HCase("dhist", s, ops)


def parse_answers(r):
    a = r.get("ans", "-")
    return [] if a == "-" else [x.split("/") for x in a.split(";")]


def answer_failed(x):
    return x[0] in FAIL_RETS and not (x[0] == "null" and x[1] == "0" and x[2] == "0")


def history_tie(ctx, runner, drv, broken):
    rng = ctx.rng
    n = 120 if ctx.tier == "quick" else 1200
    hs = [gen_data_history(rng, with_init=(k % 4 == 0)) for k in range(n)]
    mlines = ["dh %d %d %d %d %d %s" % (h.state["type"], h.state["rows"], h.state["cols"], h.state["freqs"], h.state["fz0"],
                                        h.optext()) for h in hs]
    rc, mout, merr = vplib.sh([drv], input="\n".join(mlines) + "\n", timeout=600)
    mres = mout.strip().split("\n")
    if rc != 0 or len(mres) != len(hs):
        broken["tie:histories"] = "extracted driver failed (%d lines for %d histories): %s" % (len(mres), len(hs), merr[-300:])
        ctx.obligation("tie:histories", False, broken["tie:histories"])
        return
    res = runner.run(hs)
    diffs = []
    erased = []
    for h, ml in zip(hs, mres):
        r = res.get(h.id, {})
        if "crash" in r:
            if not str(r["crash"].get("error", "")).startswith("not run"):
                diffs.append((h, "library did not return: %s" % r["crash"]))
            continue
        m_ans, m_kept = ml.split(" kept=")
        m_ans = [x.split("/") for x in m_ans.split(";")]
        lib = parse_answers(r)
        prob = None
        if m_kept.strip() == "-1":
            prob = "extracted kept is not the history without the refused calls"
        elif len(lib) != len(m_ans):
            prob = "library answered %d of %d calls" % (len(lib), len(m_ans))
        for k, (ma, la) in enumerate(zip(m_ans, lib)):
            if prob:
                break
            what = "call %d (%s): " % (k, ":".join([h.ops[k][0]] + [str(x) for x in h.ops[k][1]]))
            if ma[0] == "pass":
                if answer_failed(la):
                    prob = what + "model passes, library refuses (%s %s)" % (la[0], la[1])
            elif not answer_failed(la):
                prob = what + "model refuses (%s %s), library accepts" % (ma[0], ma[1])
            elif ma[:3] != la[:3]:
                prob = what + "model %s, library %s" % ("/".join(ma[:3]), "/".join(la[:3]))
            if prob is None and ma[3] != la[3]:
                prob = what + "summary after the call: model %s, library %s" % (ma[3], la[3])
        nref = sum(1 for x in m_ans if x[0] != "pass")
        ctx.count(("dhist", h.optext(), tuple(sorted(h.state.items()))) if nref else None)
        if prob:
            diffs.append((h, prob))
            continue
        if r.get("sfx") != "ok":
            diffs.append((h, "object not usable after the history: suffix %s" % r.get("sfx")))
            continue
        if nref and not any(f == "init" for f, _ in h.ops):
            keep = [int(x) for x in m_kept.strip().split(",")] if m_kept.strip() != "-" else []
            e = HCase("dhist", h.state, [h.ops[i] for i in keep])
            e.full, e.keep = (h, r), keep
            erased.append(e)
    res2 = runner.run(erased)
    for e in erased:
        h, r = e.full
        r2 = res2.get(e.id, {})
        if "crash" in r2:
            diffs.append((h, "the history without its refused calls did not return: %s" % r2["crash"]))
            continue
        full = parse_answers(r)
        if r2.get("d") != r.get("d"):
            diffs.append((h, "the history without its %d refused call(s) ends in a different object: digest %s, with them %s"
                          % (len(h.ops) - len(e.keep), r2.get("d"), r.get("d"))))
        elif parse_answers(r2) != [full[i] for i in e.keep]:
            diffs.append((h, "the calls that were not refused answer differently once the refused calls are deleted"))
    ctx.traces_validated += len(hs) + len(erased)
    ctx.extra["history_tie"] = {"data_histories": len(hs), "with_refusals_rerun_without_them": len(erased)}
    ctx.obligation("tie:histories", not diffs, "; ".join("%s: %s" % (d[0].optext()[:60], d[1]) for d in diffs[:3]))
    seen = set()
    for h, prob in diffs:
        key = prob.split(":")[0][:40]
        if key in seen:
            continue
        seen.add(key)
        ctx.violation({"kind": "history", "family": "data", "problem": re.sub(r"\d+", "N", key)},
                      "history of %d calls on a vnadata_t %s: %s" % (len(h.ops), h.state, prob),
                      {"row": h.describe(), "problem": prob,
                       "note": "theorems data_history_refusals_erasable / data_history_inv; model: hrun / kept over data_run"})


def gen_new_history(rng):
    t, r, c = rng.choice([x for x in NEW_SHAPES if x[1] == x[2]])
    n = r
    cnt = 5 if n > 1 else 4
    s = {"type": t, "rows": r, "cols": c, "nstd": rng.choice([0, 0, 1, 2, cnt]), "count": cnt, "seed": rng.randint(1, 10 ** 6)}
    ops = []
    hs = [0, 1, 2, H_SCALAR, H_VECTOR, H_UNKNOWN, H_DELETED, 99, -1]
    for _ in range(rng.randint(3, 9)):
        k = rng.choice(["pv", "et", "pt", "it", "z0", "sr", "sr", "dr", "dr", "th", "solve"])
        if k == "pv":
            a = [rng.choice([-1000, 0, 1, 500, 1000, 1500])]
        elif k in ("et", "pt"):
            a = [rng.choice([-1, 0, 1, 10])]
        elif k == "it":
            a = [rng.choice([-1, 0, 5, 50])]
        elif k == "z0":
            a = [rng.choice([50, 75])]
        elif k == "sr":
            a = [rng.choice(hs), rng.randint(0, n + 1)]
        elif k == "dr":
            if n < 2:
                continue
            a = [rng.choice(hs), rng.choice(hs), rng.randint(0, 3), rng.randint(0, 3)]
        elif k == "th":
            if n < 2:
                continue
            a = [rng.randint(0, 3), rng.randint(0, 3)]
        else:
            a = []
        ops.append((k, a))
    return HCase("nhist", s, ops)


def history_pairs_new(ctx, runner):
    """C API only: a history on a vnacal_new_t and the same history without the calls refused for their arguments."""
    rng = ctx.rng
    n = 60 if ctx.tier == "quick" else 500
    hs = [gen_new_history(rng) for _ in range(n)]
    res = runner.run(hs)
    erased = []
    bad = []
    for h in hs:
        r = res.get(h.id, {})
        if "crash" in r:
            if not str(r["crash"].get("error", "")).startswith("not run"):
                bad.append((h, "library did not return: %s" % r["crash"]))
            continue
        ans = parse_answers(r)
        for k, x in enumerate(ans):
            if x[0] == "m1" and not (x[1] == "EINVAL" and x[2] == "1") and not (h.ops[k][0] == "solve" and x[1] == "EDOM" and x[2] == "1") \
                    and not (h.ops[k][0] != "solve" and x[1] == "EDOM"):
                bad.append((h, "call %d (%s): failure value -1 with errno %s and %s report(s); documented: EINVAL for arguments, "
                            "EDOM for a solve, one report" % (k, h.ops[k][0], x[1], x[2])))
        keep = [k for k, x in enumerate(ans) if not (x[0] == "m1" and x[1] == "EINVAL")]
        ctx.count(("nhist", h.optext(), tuple(sorted(h.state.items()))) if len(keep) < len(ans) else None)
        if len(keep) < len(ans):
            e = HCase("nhist", h.state, [h.ops[i] for i in keep])
            e.full, e.keep = (h, r, ans), keep
            erased.append(e)
    res2 = runner.run(erased)
    for e in erased:
        h, r, ans = e.full
        r2 = res2.get(e.id, {})
        if "crash" in r2:
            bad.append((h, "the history without its refused calls did not return: %s" % r2["crash"]))
        elif r2.get("d") != r.get("d"):
            bad.append((h, "the history without its %d refused call(s) leaves a different vnacal_new_t: bookkeeping %s, with them %s"
                        % (len(ans) - len(e.keep), r2.get("w"), r.get("w"))))
        elif parse_answers(r2) != [ans[i] for i in e.keep]:
            bad.append((h, "the calls that were not refused answer differently once the refused calls are deleted"))
        elif (r2.get("sfx"), r2.get("sd")) != (r.get("sfx"), r.get("sd")):
            bad.append((h, "completed with the remaining standards and solved, the calibration differs from the one of the history "
                        "without the refused calls: suffix %s digest %s, without them suffix %s digest %s"
                        % (r.get("sfx"), r.get("sd"), r2.get("sfx"), r2.get("sd"))))
    ctx.traces_validated += len(hs) + len(erased)
    ctx.extra["history_pairs_vnacal_new"] = {"histories": len(hs), "with_refusals_rerun_without_them": len(erased)}
    ctx.obligation("catalogue:history-pairs-vnacal_new", not bad, "; ".join("%s: %s" % (b[0].optext()[:60], b[1]) for b in bad[:3]))
    seen = set()
    for h, prob in bad:
        key = re.sub(r"\d+", "N", prob.split(":")[0][:40])
        if key in seen:
            continue
        seen.add(key)
        ctx.violation({"kind": "history", "family": "new", "problem": key},
                      "history of %d calls on a vnacal_new_t %s: %s" % (len(h.ops), h.state, prob),
                      {"row": h.describe(), "problem": prob,
                       "note": "theorems new_history_refusals_erasable / refused_standard_is_argument_refusal"})


# ----------------------------------------------------------------------------- model tie
TIE_FUNCS = ["resize", "init", "set_type", "get_frequency", "set_frequency", "get_fmin", "get_fmax", "get_cell", "set_cell",
             "get_matrix", "set_matrix", "get_to_vector", "set_from_vector", "get_z0", "set_z0", "get_z0_vector",
             "set_z0_vector", "set_all_z0", "get_fz0", "set_fz0", "get_fz0_vector", "set_fz0_vector", "add_frequency",
             "set_filetype", "set_fprecision", "set_dprecision"]


def tie_data_tuples(ctx):
    """Exhaustive over dimensions 0..3 (type-consistent shapes) and indices {-1,0,n-1,n,n+1}; the
    quick tier keeps every state but samples the multi-index tuples."""
    rng = ctx.rng
    states = []
    if ctx.tier == "quick":
        SKIPPED.append(("tie: object states of type U, Y, G, B (quick tier only)",
                        "sampling: they share every test with T, Z, H, A; the thorough tier runs them"))
    for r in range(4):
        for c in range(4):
            for t in range(0, 11):
                if vtype_ok(t, r, c):
                    if t in (3, 5, 7, 9) and ctx.tier == "quick":
                        continue        # U, Y, G, B share their checks with T, Z, H, A
                    for f in range(4):
                        for z in (0, 1):
                            if z and (f == 0 or max(r, c) == 0):
                                continue
                            states.append({"type": t, "rows": r, "cols": c, "freqs": f, "fz0": z, "seed": 1 + len(states)})
    keep = 0.04 if ctx.tier == "quick" else 1.0
    out = []
    for s in states:
        def vals(n):
            return sorted(set([-1, 0, n - 1, n, n + 1]))
        F, R, C, P = vals(s["freqs"]), vals(s["rows"]), vals(s["cols"]), vals(max(s["rows"], s["cols"]))
        tuples = []
        for func in TIE_FUNCS:
            if func in ("resize", "init"):
                for (t, r, c, f) in ((1, 2, 2, 1), (1, 2, 3, 1), (2, 2, 2, 0), (2, 3, 3, 1), (10, 1, 3, 2), (10, 2, 2, 2), (0, 0, 0, 0),
                                     (0, -1, 1, 1), (0, 1, -1, 1), (0, 1, 1, -1), (11, 1, 1, 1), (-1, 1, 1, 1), (4, 3, 3, 3), (6, 2, 1, 1),
                                     (0, 65536, 65536, 0), (0, 46341, 46341, 1), (0, 2, 1073741824, 0)):
                    tuples.append((func, [t, r, c, f]))
            elif func == "set_type":
                tuples += [(func, [t]) for t in (-1, 0, 1, 2, 4, 6, 8, 10, 11)]
            elif func in ("get_frequency", "set_frequency", "get_matrix", "set_matrix", "get_fz0_vector", "set_fz0_vector"):
                tuples += [(func, [f]) for f in F]
            elif func in ("get_cell", "set_cell"):
                tuples += [(func, [f, r, c]) for f in F for r in R for c in C]
            elif func in ("get_to_vector", "set_from_vector"):
                tuples += [(func, [r, c]) for r in R for c in C]
            elif func in ("get_z0", "set_z0"):
                tuples += [(func, [p]) for p in P]
            elif func in ("get_fz0", "set_fz0"):
                tuples += [(func, [f, p]) for f in F for p in P]
            elif func == "add_frequency":
                tuples += [(func, [-1]), (func, [2])]
            elif func == "set_filetype":
                tuples += [(func, [v]) for v in (-1, 0, 3, 4)]
            elif func in ("set_fprecision", "set_dprecision"):
                tuples += [(func, [v]) for v in (-1, 0, 1, 9)]
            else:
                tuples.append((func, []))
        for func, a in tuples:
            if keep < 1.0 and rng.random() > keep * (1 if len(a) == 3 else 4 if len(a) == 2 or func in ("resize", "init") else 8):
                continue
            out.append((s, func, a))
    return out


def model_tie(ctx, runner, drv, broken):
    tuples = tie_data_tuples(ctx)
    cases = []
    mlines = []
    for s, func, a in tuples:
        cases.append(Case("data", s, func, "tie", a, OK))
        aa = (a + [0, 0, 0, 0])[:4]
        mlines.append("d 0 %d %d %d %d %d %s %s" % (s["type"], s["rows"], s["cols"], s["freqs"], s["fz0"], func,
                                                  " ".join(str(x) for x in aa)))
    # NULL handle
    s0 = {"type": 1, "rows": 2, "cols": 2, "freqs": 2, "fz0": 0, "seed": 5}
    # (every function of the family, also those the model says dereference the NULL pointer: the model line is
    # then "fault" and the library is expected not to return; such a case ends its harness process, the runner restarts)
    nnull = 0
    for func, ret, a in NULL_FUNCS + [("set_frequency", "m1", [0])]:
        if func in TIE_FUNCS:
            cases.append(Case("data", s0, func + "@null", "tie", a, OK))
            aa = (a + [0, 0, 0, 0])[:4]
            mlines.append("d 1 1 2 2 2 0 %s %s" % (func, " ".join(str(x) for x in aa)))
            nnull += 1
    # vnacal query family
    qcases = []
    for ncal in range(4):
        for holes in range(1 << ncal):
            s = {"ncal": ncal, "holes": holes, "seed": 3 + ncal}
            al = cal_alloc(s)
            slots = ",".join(("-" if (holes >> i) & 1 or i >= ncal else str(i)) for i in range(al)) if al else "empty"
            for ci in range(-2, al + 2):
                for func, ret in GETTERS:
                    if ctx.tier == "quick" and func not in ("get_name", "get_rows", "get_fmax", "get_z0") and (ci + ncal) % 3:
                        continue
                    qcases.append((Case("cal", s, func, "tie", [ci], OK), "q %s %s %d" % (slots, func, ci)))
                qcases.append((Case("cal", s, "delete_calibration", "tie", [ci], OK), "q %s delete %d" % (slots, ci)))
                qcases.append((Case("cal", s, "property_keys", "tie", [ci], OK, "."), "q %s prop_keys %d" % (slots, ci)))
                qcases.append((Case("cal", s, "property_type", "tie", [ci], OK, "."), "q %s prop_type %d" % (slots, ci)))
            for i in range(ncal + 1):
                qcases.append((Case("cal", s, "find", "tie", [], OK, "cal%d" % i), "q %s find %d" % (slots, i)))
            qcases.append((Case("cal", s, "add_calibration", "tie", [0], OK, "nw"), "q %s add 50" % slots))
            for i in range(ncal):
                if not (holes >> i) & 1:
                    qcases.append((Case("cal", s, "add_calibration", "tie", [4], OK, "cal%d" % i), "q %s add %d" % (slots, i)))
    # NULL vnacal_t pointer: every getter, find, delete, the property functions
    sq = {"ncal": 1, "holes": 0, "seed": 4}
    for func, ret in GETTERS:
        qcases.append((Case("cal", sq, func + "@null", "tie", [0], OK), "q null %s 0" % func))
    qcases.append((Case("cal", sq, "find@null", "tie", [], OK, "cal0"), "q null find 0"))
    qcases.append((Case("cal", sq, "delete_calibration@null", "tie", [0], OK), "q null delete 0"))
    for func, mname, text in (("property_type", "prop_type", "."), ("property_count", "prop_count", "."), ("property_keys", "prop_keys", "."),
                              ("property_get", "prop_get", "label"), ("property_set", "prop_set", "k=v"),
                              ("property_delete", "prop_delete", "label"), ("property_set_subtree", "prop_set_subtree", "k")):
        qcases.append((Case("cal", sq, func + "@null", "tie", [-1], OK, text), "q null %s -1" % mname))
    cases += [q[0] for q in qcases]
    mlines += [q[1] for q in qcases]
    # parameter registration of _vnacal_new_add_common (model LV.Err.RefutedModel.add_standard):
    # T8 2x2 without standards has registered only VNACAL_ZERO; handles 0..5 are valid, 5 is unknown
    rcases = []
    sn = {"type": T8, "rows": 2, "cols": 2, "nstd": 0, "count": 5, "seed": 9}
    hs = (0, 1, 2, H_SCALAR, H_UNKNOWN, H_DELETED, 99, -1)
    for h1 in hs:
        for h2 in hs:
            rcases.append((Case("new", sn, "add_double_reflect_m", "tie", [h1, h2, 1, 2, 2, 2, 0, 0], OK), "r 0 0 %d,%d" % (h1, h2)))
            if ctx.tier != "quick" or (h1 + h2) % 3 == 0:
                rcases.append((Case("new", sn, "add_line_m", "tie", [h1, h2, 1, 2, 2, 2, 1, 0], OK),
                               "r 0 0 %d,1,1,%d" % (h1, h2)))
    cases += [q[0] for q in rcases]
    mlines += [q[1] for q in rcases]
    rc, mout, merr = vplib.sh([drv], input="\n".join(mlines) + "\n", timeout=600)
    mres = mout.strip().split("\n")
    if rc != 0 or len(mres) != len(cases):
        broken["tie:model"] = "extracted driver failed (%d lines for %d cases): %s" % (len(mres), len(cases), merr[-300:])
        ctx.obligation("tie:prologues", False, broken["tie:model"])
        return
    results = runner.run(cases)
    diffs = []
    faults = []
    ndata = len(tuples)
    for k, (c, ml) in enumerate(zip(cases, mres)):
        r = results.get(c.id)
        m = ml.split()
        ctx.count(("tie", c.fam, c.func, tuple(c.args), tuple(sorted(c.state.items())), c.text) if m[0] != "pass" else None)
        if m[0] == "fault":
            # the model says the C code dereferences the NULL pointer (no NULL test in front of the first
            # dereference in the C text): the library must not come back with an answer
            if r is not None and "crash" in r and not str(r["crash"].get("error", "")).startswith("not run"):
                faults.append({"function": c.func, "library": r["crash"]})
            elif r is not None and "crash" not in r:
                diffs.append((c, ml, "model: the function dereferences the NULL pointer it is given; library returned %s %s"
                              % (r["ret"], r["errno"])))
            continue
        if r is None or "crash" in r:
            if r is not None and str(r["crash"].get("error", "")).startswith("not run"):
                continue
            diffs.append((c, ml, "library crashed: %s" % (r or {}).get("crash")))
            continue
        failed = has_failed(r)
        prob = None
        if m[0] == "pass":
            if failed:
                prob = "model passes the arguments, library refuses (%s %s)" % (r["ret"], r["errno"])
        else:
            if not failed:
                prob = "model refuses (%s %s %s), library accepts" % (m[0], m[1], m[2])
            elif (r["ret"], r["errno"], r["cb"]) != (m[0], m[1], m[2]):
                prob = "model %s %s cb=%s, library %s %s cb=%s" % (m[0], m[1], m[2], r["ret"], r["errno"], r["cb"])
            elif c.fam == "new":
                pass
            elif c.fam == "data" and c.func not in ("init", "init@null") and r["d0"] != r["d1"]:
                prob = "model (every check of the function precedes its first write): a refused call leaves the object as it was; library changed the object"
        if prob is None and c.fam == "data" and "@null" not in c.func and r.get("post") != m[3]:
            prob = "summary after the call: model %s, library %s" % (m[3], r.get("post"))
        if prob is None and c.fam == "new":
            mw = re.match(r"m(\d+),e\d+/\d+,u(\d+),c\d+,p(\d+)", r.get("w1", ""))
            got = (mw.group(3), mw.group(2), mw.group(1)) if mw else None
            if got != (m[3], m[4], m[5]):
                prob = "bookkeeping after the call (parameters, unknowns, measurements): model %s, library %s" % (
                    (m[3], m[4], m[5]), got)
        if prob is None and c.fam == "cal" and "@null" not in c.func:
            if r.get("slots") != m[3]:
                prob = "slot table after the call: model %s, library %s" % (m[3], r.get("slots"))
            elif len(m) > 4 and c.func in ("find", "add_calibration") and r.get("ci") != m[4]:
                prob = "index: model %s, library %s" % (m[4], r.get("ci"))
        if prob:
            diffs.append((c, ml, prob))
    ctx.traces_validated += len(cases)
    ctx.extra["tie_tuples"] = {"vnadata": ndata, "null_handle": nnull,
                               "vnacal_query": len(qcases), "add_common_registration": len(rcases)}
    ctx.extra["null_pointer_dereferenced_by"] = faults
    ctx.obligation("tie:prologues", not diffs, "; ".join("%s%s: %s" % (d[0].func, d[0].args, d[2]) for d in diffs[:4]))
    seen = set()
    for c, ml, prob in diffs:
        key = (c.func.replace("@null", ""), prob.split("(")[0][:40])
        if key in seen:
            continue
        seen.add(key)
        ctx.violation({"kind": "disagreement", "function": c.func.replace("@null", ""), "args": " ".join(str(x) for x in c.args)},
                      "model and library disagree on %s%s in state %s: %s" % (c.func, c.args, c.state, prob),
                      {"row": c.describe(), "model_line": ml, "problem": prob,
                       "note": "the model (coq/Err/ContractModel.v) follows the documented contract by theorem "
                               "data_refusal_iff_invalid / query_fail_classified; a disagreement means either the prologue "
                               "changed or the model is stale"})


# ----------------------------------------------------------------------------- model tie, part 2
# vnacal_new family, parameter family, vnadata_convert (models of coq/Err/NewModel.v)
def q3(v):
    return "nan" if v == -999 else str(v)


def gen_add_tuples(ctx, shapes, per_shape):
    """Argument tuples for _vnacal_new_add_common through vnacal_new_add_mapped_matrix(_m): near-valid
    tuples with one field perturbed, plus uniformly random ones."""
    rng = ctx.rng
    out = []
    handles_ok = [0, 1, 2, H_SCALAR, H_UNKNOWN]
    handles_bad = [99, -1, H_DELETED, 7]
    for (t, r, c) in shapes:
        P = max(r, c)
        for k in range(per_shape):
            a = {"b_null": 0, "ar": 0, "ac": 0, "br": r, "bc": c, "sr": P, "sc": P, "map": list(range(1, P + 1)), "asing": 0}
            if rng.random() < 0.5:
                n = rng.randint(1, P)
                a["sr"] = a["sc"] = n
                perm = list(range(1, P + 1))
                rng.shuffle(perm)
                a["map"] = perm[:n]
                if rng.random() < 0.5:
                    a["br"], a["bc"] = (n, n)
                    if t == T16:
                        a["bc"] = c
                    if t == U16:
                        a["br"] = r
            if rng.random() < 0.25:
                a["map"] = None
            if rng.random() < 0.3:
                a["ar"] = 1 if t in (UE14, E12) else a["bc"]
                a["ac"] = a["bc"]
                a["asing"] = 1 if rng.random() < 0.3 else 0
            # perturbations
            for _ in range(rng.choice([0, 0, 1, 1, 2])):
                f = rng.choice(["br", "bc", "sr", "sc", "map", "ar", "ac", "b_null", "rect"])
                if f in ("br", "bc", "sr", "sc"):
                    a[f] = rng.randint(0, 4)
                elif f in ("ar", "ac"):
                    a[f] = rng.randint(0, 3)
                elif f == "b_null":
                    a[f] = 1 if rng.random() < 0.3 else 0
                elif f == "rect":
                    a["sr"], a["sc"] = rng.randint(1, P), rng.randint(1, P)
                elif a["map"] is not None and a["map"]:
                    a["map"][rng.randrange(len(a["map"]))] = rng.randint(0, P + 1)
            if rng.random() < 0.1:
                a = {"b_null": 0, "ar": rng.randint(0, 2), "ac": rng.randint(0, 2), "br": rng.randint(0, 4), "bc": rng.randint(0, 4),
                     "sr": rng.randint(0, 4), "sc": rng.randint(0, 4), "map": [rng.randint(0, P + 1) for _ in range(4)],
                     "asing": 0}
            ncells = a["sr"] * a["sc"] if 0 < a["sr"] <= 4 and 0 < a["sc"] <= 4 else 0
            cells = [rng.choice(handles_ok) for _ in range(ncells)]
            if cells and rng.random() < 0.2:
                cells[rng.randrange(len(cells))] = rng.choice(handles_bad)
            sports = max(a["sr"], a["sc"])
            m = a["map"]
            if m is not None:
                m = (m + [rng.randint(0, P + 1) for _ in range(4)])[:4]
            a["map4"] = m
            a["cells"] = cells
            a["mapm"] = None if m is None else m[:max(0, min(4, sports))]
            out.append(((t, r, c), a))
    return out


def model_tie2(ctx, runner, drv, broken):
    rng = ctx.rng
    quick = ctx.tier == "quick"
    pairs = []          # (Case, model line, kind)
    s22 = {"type": T8, "rows": 2, "cols": 2, "nstd": 0, "count": 5, "seed": 21}
    # 1. vnacal_new_alloc
    for t in range(-1, 10):
        for r in range(0, 4):
            for c in range(0, 4):
                for f in ((-1, 2) if quick else (-1, 0, 2)):
                    if quick and rng.random() > 0.5:
                        continue
                    pairs.append((Case("new", s22, "new_alloc", "tie", [t, r, c, f], OK), "na %d %d %d %d" % (t, r, c, f), "alloc"))
    # 2. frequency vector
    vals = (-1, 0, 1, 2, 3, -999)
    for a in vals:
        for b in vals:
            for c in vals:
                if quick and rng.random() > 0.4:
                    continue
                pairs.append((Case("new", s22, "set_fv3", "tie", [a, b, c, 0], OK), "nf 3 %s,%s,%s" % (q3(a), q3(b), q3(c)), "v"))
    pairs.append((Case("new", s22, "set_fv3", "tie", [1, 2, 3, 1], OK), "nf 3 null", "v"))
    # 3. scalar setters
    for func, op, values in (("set_pvalue_limit", "pv", (-1000, -1, 0, 1, 500, 1000, 1001, 1500, -999)),
                             ("set_et_tolerance", "et", (-1000, -1, 0, 1, 2000, -999)),
                             ("set_p_tolerance", "pt", (-1000, -1, 0, 1, 2000, -999))):
        for v in values:
            pairs.append((Case("new", s22, func, "tie", [v], OK), "nx %s %s" % (op, "nan" if v == -999 else "%d/1000" % v), "v"))
    for v in (-5, -1, 0, 1, 2, 50):
        pairs.append((Case("new", s22, "set_iteration_limit", "tie", [v], OK), "nx it %d" % v, "v"))
    # 4. set_m_error (the modes of the harness spelled out for the model; calibration range 1..3 GHz)
    merr = {0: ("2", "1/2,4", "1/10000,1/10000", "1/1000,1/1000"), 1: ("0", "1/2,4", "1/10000,1/10000", "1/1000,1/1000"),
            2: ("2", "1/2,4", "null", "1/1000,1/1000"), 3: ("2", "1/2,4", "-1,1/10000", "1/1000,1/1000"),
            4: ("2", "1/2,2", "1/10000,1/10000", "1/1000,1/1000"), 5: ("2", "4,1/2", "1/10000,1/10000", "1/1000,1/1000")}
    for t in (T8, U8, TE10, UE14, T16):
        st = {"type": t, "rows": 2, "cols": 2, "nstd": 0, "count": 5, "seed": 22}
        for mode, (n, fv, nf, tr) in sorted(merr.items()):
            pairs.append((Case("new", st, "set_m_error", "tie", [mode], OK), "nm %d 3 1 %s %s %s %s" % (t, n, fv, nf, tr), "v"))
    # 5. _vnacal_new_add_common
    shapes = []
    for t in (T8, U8, TE10, UE10, T16, U16, UE14, E12):
        for r in (1, 2, 3):
            for c in (1, 2, 3):
                if (t in (T8, TE10, T16) and r <= c) or (t not in (T8, TE10, T16) and r >= c):
                    shapes.append((t, r, c))
    for (t, r, c), a in gen_add_tuples(ctx, shapes, 60 if quick else 500):
        st = {"type": t, "rows": r, "cols": c, "nstd": 0, "count": 5, "seed": 23}
        v = [a["b_null"], a["ar"], a["ac"], a["br"], a["bc"], a["sr"], a["sc"], -1 if a["map4"] is None else 4]
        v += (a["map4"] or [0, 0, 0, 0]) + [len(a["cells"])] + (a["cells"] + [0] * 16)[:16] + [a["asing"]]
        text = ",".join(str(x) for x in v)
        stored = 7 if t == E12 else t
        mline = "nd %d %d %d %d %d %d %d %d %d %d %s %s %d" % (
            stored, r, c, a["b_null"], a["ar"], a["ac"], a["br"], a["bc"], a["sr"], a["sc"],
            "null" if a["mapm"] is None else (",".join(str(x) for x in a["mapm"]) or "empty"),
            ",".join(str(x) for x in a["cells"]) or "empty", a["asing"])
        pairs.append((Case("new", st, "add_generic", "tie", [], OK, text), mline, "add"))
    # 6. solve (the kernel verdict is the oracle: taken from the library's answer)
    for sh in NEW_SHAPES:
        for nstd in (0, 5 if max(sh[1], sh[2]) > 1 else 4):
            st = {"type": sh[0], "rows": sh[1], "cols": sh[2], "nstd": nstd, "count": 5, "seed": 24}
            pairs.append((Case("new", st, "solve", "tie", [0], OK), "ns 1 ?", "solve"))
            pairs.append((Case("new", st, "solve", "tie", [1], OK), "ns 0 ?", "solve"))
    # 7. parameter family (table built by the harness: 0..2 predefined, 3 scalar, 4 vector 1..3 GHz, 5 unknown, 6 deleted)
    sc = {"ncal": 0, "holes": 0, "seed": 25}
    mv = {0: "3 1,2,3 0", 1: "0 1,2,3 0", 7: "-1 1,2,3 0", 2: "3 null 0", 3: "3 1,2,3 1", 4: "3 -1,2,3 0", 5: "3 1,3,2 0", 6: "3 1,2,2 0"}
    for mode, margs in sorted(mv.items()):
        pairs.append((Case("cal", sc, "make_vector", "tie", [mode], OK), "pp 0 mv " + margs, "p"))
    mc = {0: "3 1,2,3 1/10,1/10,1/5", 1: "0 1,2,3 1/10,1/10,1/5", 2: "3 1,2,3 null", 3: "3 1,3,2 1/10,1/10,1/5", 4: "3 -1,2,3 1/10,1/10,1/5"}
    for h in (-2, -1, 0, 1, 2, 3, 4, 5, 6, 7, 8, 99):
        pairs.append((Case("cal", sc, "make_unknown", "tie", [h], OK), "pp 0 mu %d" % h, "p"))
        pairs.append((Case("cal", sc, "delete_parameter", "tie", [h], OK), "pp 0 dl %d" % h, "p"))
        for mode, margs in sorted(mc.items()):
            pairs.append((Case("cal", sc, "make_correlated", "tie", [h, mode], OK), "pp 0 mc %d %s" % (h, margs), "p"))
        for f in (5, 10, 20, 30, 35, 100):
            pairs.append((Case("cal", sc, "get_parameter_value", "tie", [h, f], OK), "pp 0 gv %d %d/10" % (h, f), "p"))
    # 8. vnadata_convert
    for t in range(0, 11):
        for r in range(0, 4):
            for c in range(0, 4):
                if not vtype_ok(t, r, c):
                    continue
                sd = {"type": t, "rows": r, "cols": c, "freqs": 1 if r * c > 0 else 0, "fz0": 0, "seed": 26}
                for nt in range(-1, 12):
                    for mode in (0, 1, 2):
                        if quick and rng.random() > 0.5:
                            continue
                        pairs.append((Case("data", sd, "convert", "tie", [nt, mode], OK),
                                      "cv 0 %d %d %d %d %d" % (t, r, c, 1 if mode == 2 else 0, nt), "conv"))
    pairs.append((Case("data", {"type": 1, "rows": 2, "cols": 2, "freqs": 1, "fz0": 0, "seed": 27}, "convert@null", "tie", [4, 0], OK),
                  "cv 1 1 2 2 0 4", "conv"))
    # 9. NULL handle: vnacal_new family (every modelled function) and parameter family
    for func, a, mname in (("set_frequency_vector", [0], "fv"), ("set_z0", [], "z0"), ("add_single_reflect_m", [2, 1, 0, 0, 2, 2, 0, 0], "add"),
                           ("add_double_reflect_m", [2, 1, 1, 2, 2, 2, 0, 0], "add"), ("add_through_m", [0, 0, 1, 2, 2, 2, 0, 0], "add"),
                           ("add_line_m", [0, 0, 1, 2, 2, 2, 1, 0], "add"), ("add_mapped_matrix_m", [2, 1, 1, 2, 2, 2, 2, 2], "add"),
                           ("set_m_error", [0], "me"), ("set_pvalue_limit", [500], "pv"), ("set_et_tolerance", [1], "et"),
                           ("set_p_tolerance", [1], "pt"), ("set_iteration_limit", [5], "it"), ("solve", [0], "solve")):
        pairs.append((Case("new", s22, func + "@null", "tie", a, OK), "nn %s" % mname, "null"))
    for func, a, margs in (("make_scalar", [], "ms"), ("make_vector", [0], "mv 3 1,2,3 0"), ("make_unknown", [3], "mu 3"),
                           ("make_correlated", [3, 0], "mc 3 3 1,2,3 1/10,1/10,1/5"), ("delete_parameter", [4], "dl 4"),
                           ("get_parameter_value", [4, 20], "gv 4 20/10")):
        pairs.append((Case("cal", sc, func + "@null", "tie", a, OK), "pp 1 " + margs, "null"))
    # 9b. S cells that are parameter chains (model: check_chain_with / get_chain_with in the order and with the
    #     recursion found in the C text): every calibration type 2x2 and two 1x1, with 0, some and all standards given
    for sh in [x for x in NEW_SHAPES if x[1] == x[2]]:
        cnt = 5 if sh[1] > 1 else 4
        for nstd in (0, 2, cnt):
            st = {"type": sh[0], "rows": sh[1], "cols": sh[2], "nstd": nstd, "count": cnt, "seed": 28 + nstd}
            for cc in chain_cases_for_state(st, rng, (3 if quick else 12) if sh[1] > 1 else 2):
                cc.cls = "tie"
                pairs.append((cc, chain_model_line(cc), "chain"))
    # 10. vnaproperty_vset / _vset_subtree on paths of map keys (model LV.Err.RefutedModel.vset, run in the order of the
    #     C text): a NULL root, up to three accepted sets, then one call of a random class; compared: outcome and the tree
    vpairs = []
    for k in range(60 if quick else 400):
        kind = rng.choice(["set", "set", "subtree"])
        descs = []

        def path():
            return [rng.randint(1, 3) for _ in range(rng.randint(1, 3))]

        def render(pth, tail, tok):
            txt = ".".join("k%d" % x for x in pth) + tail
            return txt + ("=%d" % tok if isinstance(tok, int) else "#" if tok == "#" else "")

        def mdesc(ok, pth, asg, tok):
            return "%d,%s,%d,%s" % (ok, ".".join(str(x) for x in pth) or "-", asg,
                                     "=%d" % tok if isinstance(tok, int) else "#" if tok == "#" else "eof")
        for _ in range(rng.randint(0, 3) if kind == "set" else 0):
            pth, tok = path(), rng.choice([rng.randint(0, 99), rng.randint(0, 99), "#"])
            descs.append((render(pth, "", tok), "1,%s,1,%s" % (".".join(str(x) for x in pth), "=%d" % tok if isinstance(tok, int) else "#")))
        prefix_t = ";".join(d[0] for d in descs)
        prefix_m = ";".join(d[1] for d in descs)
        pth = path()
        cls = rng.choice(["accept", "accept", "novalue", "trailing", "maptail", "listtail", "syntax1", "syntax2"])
        if cls == "accept":
            tok = rng.choice([rng.randint(0, 99), "#"]) if kind == "set" else ""
            last = (render(pth, "", tok), mdesc(1, pth, 1, tok))
        elif cls == "novalue":
            last = (render(pth, "", ""), mdesc(1, pth, 1, ""))
        elif cls == "trailing":
            tok = rng.randint(0, 99)
            last = (render(pth, "", tok), mdesc(1, pth, 1, tok))
        elif cls == "maptail":
            last = (render(pth, "{}", 5), mdesc(1, pth, 0, 5))
        elif cls == "listtail":
            last = (render(pth, "[]", 5), mdesc(1, pth, 0, 5))
        elif cls == "syntax1":
            last = ("k1..k2=1", mdesc(0, [], 1, 1))
        else:
            last = ("k1[=1", mdesc(0, [], 1, 1))
        text = (prefix_t + ";" if prefix_t else "") + last[0]
        mline = "v %s %s" % (kind, (prefix_m + ";" if prefix_m else "") + last[1])
        c = Case("prop", {"variant": 0}, kind, "tie", [], OK, text)
        c.ptie = True
        vpairs.append((c, mline, "vset"))
    pairs += vpairs
    cases = [p[0] for p in pairs]
    results = runner.run(cases)
    # the solve oracle
    mlines = []
    for c, ml, kind in pairs:
        if kind == "solve":
            r = results.get(c.id, {})
            ml = ml.replace("?", "MATH" if r.get("ret") == "m1" and r.get("errno") == "EDOM" else "-")
        mlines.append(ml)
    rc, mout, merr_ = vplib.sh([drv], input="\n".join(mlines) + "\n", timeout=600)
    mres = mout.strip().split("\n")
    if rc != 0 or len(mres) != len(cases):
        broken["tie:model2"] = "extracted driver failed (%d lines for %d cases): %s" % (len(mres), len(cases), merr_[-300:])
        ctx.obligation("tie:new-param-convert", False, broken["tie:model2"])
        return
    diffs = []
    counts = {}
    for (c, _, kind), ml in zip(pairs, mres):
        r = results.get(c.id)
        m = ml.split()
        counts[kind] = counts.get(kind, 0) + 1
        ctx.count(("tie2", c.func, tuple(c.args), c.text, tuple(sorted(c.state.items()))) if m[0] != "pass" else None)
        if m[0] == "fault":
            if r is not None and "crash" in r and not str(r["crash"].get("error", "")).startswith("not run"):
                ctx.extra.setdefault("null_pointer_dereferenced_by", []).append({"function": c.func, "library": r["crash"]})
            elif r is not None and "crash" not in r:
                diffs.append((c, ml, "model: the function dereferences the NULL pointer it is given; library returned %s %s"
                              % (r["ret"], r["errno"])))
            continue
        if r is None or "crash" in r:
            if r is not None and str(r["crash"].get("error", "")).startswith("not run"):
                continue
            diffs.append((c, ml, "library crashed: %s" % (r or {}).get("crash")))
            continue
        failed = has_failed(r)
        prob = None
        if m[0] == "pass":
            if failed:
                prob = "model passes the arguments, library refuses (%s %s, %s)" % (r["ret"], r["errno"], r.get("msg"))
            elif r["cb"] != "0":
                prob = "accepted call invoked the error function %s time(s)" % r["cb"]
        else:
            if not failed:
                prob = "model refuses (%s %s %s), library accepts" % (m[0], m[1], m[2])
            elif (r["ret"], r["errno"], r["cb"]) != (m[0], m[1], m[2]):
                prob = "model %s %s cb=%s, library %s %s cb=%s" % (m[0], m[1], m[2], r["ret"], r["errno"], r["cb"])
            elif r["d0"] != r["d1"] or r.get("x0") != r.get("x1"):
                prob = "model: refusal precedes every write; library changed the object (%s -> %s)" % (
                    r.get("w0", r["d0"]), r.get("w1", r["d1"]))
            elif r["ecb"] != r["errno"] and r["cb"] != "0":
                prob = "errno inside the error function %s, on return %s" % (r["ecb"], r["errno"])
        if prob is None and kind == "chain":
            mw = re.match(r"m(\d+),e\d+/\d+,u(\d+),c(\d+),p(\d+)", r.get("w1", ""))
            got = (mw.group(4), mw.group(2), mw.group(3), mw.group(1)) if mw else None
            if r.get("ph") != (",".join(str(h) for h in c.chain["handles"]) or "-"):
                prob = "handles of the parameters the script created: expected %s, library %s" % (c.chain["handles"], r.get("ph"))
            elif got != tuple(m[3:7]):
                prob = "bookkeeping after the call (registered parameters, unknowns, correlated, measurements): model %s, library %s" % (
                    tuple(m[3:7]), got)
        if prob is None and kind == "vset":
            mtree = re.sub(r"(\d+):", r"k\1:", m[3])
            if r.get("tree") != mtree:
                prob = "tree after the call: model %s, library %s" % (mtree, r.get("tree"))
        if prob:
            diffs.append((c, ml, prob))
    ctx.traces_validated += len(cases)
    ctx.extra["tie2_tuples"] = counts
    ctx.obligation("tie:new-param-convert", not diffs, "; ".join("%s%s %s: %s" % (d[0].func, d[0].args, d[0].text[:40], d[2]) for d in diffs[:4]))
    seen = set()
    for c, ml, prob in diffs:
        key = (c.func.replace("@null", ""), prob.split("(")[0].split(":")[0][:40])
        if key in seen:
            continue
        seen.add(key)
        ctx.violation({"kind": "disagreement", "function": c.func.replace("@null", ""), "args": " ".join(str(x) for x in c.args)},
                      "model and library disagree on %s%s %s in state %s: %s" % (c.func, c.args, c.text, c.state, prob),
                      {"row": c.describe(), "model_line": ml, "problem": prob,
                       "note": "model: coq/Err/NewModel.v (prologues as coded); theorems new_fail_classified, "
                               "new_arg_refused_unchanged, rejected_standard_adds_nothing, refused_property_set_unchanged, param_fail_classified, convert_refusal_iff_invalid"})
