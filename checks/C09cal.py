"""Stand-alone entry for the calibration-file half of C09 (bin/check C09cal); checks/C09.py of agent
`datafiles` calls c09_cal.run(ctx) itself."""
import c09_cal


def run(ctx):
    ctx.level = "proof"
    ctx.rule = ("one evaluation = one input file (valid, tree mutation, text mutation, truncation, random bytes) through "
                "vnacal_load (+ save/reload on success) or one YAML text through both import functions; distinct non-trivial = "
                "(input family, mutation kind, outcome / shape of the loaded calibrations)")
    c09_cal.run(ctx, standalone=True)
