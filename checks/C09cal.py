"""Stand-alone entry for the calibration-file half of C09 (bin/check C09cal); checks/C09.py of agent
`datafiles` calls c09_cal.run(ctx) itself."""
import c09_cal


def run(ctx):
    ctx.level = "proof"
    c09_cal.run(ctx, standalone=True)
